import socket, struct, sys, os, time
path = "/tmp/nanolang_vm_0.sock"
blob = open(sys.argv[1],'rb').read()
n = int(sys.argv[2])
socks=[]
for i in range(n):
    s=socket.socket(socket.AF_UNIX, socket.SOCK_STREAM); s.connect(path)
    hdr=struct.pack('<BBHI',1,1,0,len(blob))
    s.sendall(hdr+blob[:-1]); socks.append(s)
time.sleep(0.3)
for s in socks: s.sendall(blob[-1:])
outs=[]
for s in socks:
    buf=b''
    while True:
        d=s.recv(65536)
        if not d: break
        buf+=d
    outs.append(buf)
print(len(set(outs)), len(outs[0]))
