import random, subprocess, os, sys, itertools
OPS_INT=['+','-','*','/','%']; OPS_CMP=['==','!=','<','<=','>','>=']; OPS_LOG=['and','or']
def pre(t):
    if isinstance(t,str): return t
    if len(t)==2: return '(%s %s)'%(t[0],pre(t[1]))
    return '(%s %s %s)'%(t[0],pre(t[1]),pre(t[2]))
def inf(t, top=True):
    if isinstance(t,str): return t
    if len(t)==2:
        a=t[1]; s=inf(a,False)
        return ('(%s %s)' if t[0]=='not' else '(%s%s)')%(t[0], s)
    l,r=t[1],t[2]
    ls=inf(l,True) if (not isinstance(l,str) and len(l)==3) else inf(l,False)   # left comb: no parens
    rs=inf(r,False)
    s='%s %s %s'%(ls,t[0],rs)
    return s if top else '('+s+')'
def gen(r, ty, d):
    if d==0 or r.random()<0.2:
        if ty=='int': return r.choice(['a','b','3','7','(f a)','-4'])
        return r.choice(['true','false','c'])
    if ty=='int':
        k=r.random()
        if k<0.1: return ('-', gen(r,'int',d-1)) if False else (r.choice(OPS_INT), gen(r,'int',d-1), gen(r,'int',d-1))
        return (r.choice(OPS_INT), gen(r,'int',d-1), gen(r,'int',d-1))
    k=r.random()
    if k<0.5: return (r.choice(OPS_CMP), gen(r,'int',d-1), gen(r,'int',d-1))
    if k<0.85: return (r.choice(OPS_LOG), gen(r,'bool',d-1), gen(r,'bool',d-1))
    return ('not', gen(r,'bool',d-1))
TEMPLATE='''struct P { x: int, y: int }
fn f(v: int) -> int { return (+ v 1) }
shadow f { assert true }
fn main() -> int {
    let a: int = 5
    let b: int = 9
    let c: bool = true
    let p: P = P { x: 2, y: 3 }
    let t: (int, int) = (4, 6)
%s
    return 0
}
shadow main { assert true }
'''
r=random.Random(int(sys.argv[1])); n=int(sys.argv[2])
bad=0; tot=0
for i in range(n):
    trees=[gen(r,r.choice(['int','bool']),r.randint(1,4)) for _ in range(6)]
    A='\n'.join('    (println %s)'%pre(t) for t in trees)
    B='\n'.join('    (println %s)'%inf(t) for t in trees)
    open('a.nano','w').write(TEMPLATE%A); open('b.nano','w').write(TEMPLATE%B)
    ra=subprocess.run(['/scratch/nl/bin/nano_virt','a.nano','--emit-nvm','-o','a.nvm'],capture_output=True)
    rb=subprocess.run(['/scratch/nl/bin/nano_virt','b.nano','--emit-nvm','-o','b.nvm'],capture_output=True)
    tot+=1
    if ra.returncode or rb.returncode or open('a.nvm','rb').read()!=open('b.nvm','rb').read():
        bad+=1
        if bad<=6:
            # find which tree
            for t in trees:
                open('a1.nano','w').write(TEMPLATE%('    (println %s)'%pre(t))); open('b1.nano','w').write(TEMPLATE%('    (println %s)'%inf(t)))
                x=subprocess.run(['/scratch/nl/bin/nano_virt','a1.nano','--emit-nvm','-o','a1.nvm'],capture_output=True)
                y=subprocess.run(['/scratch/nl/bin/nano_virt','b1.nano','--emit-nvm','-o','b1.nvm'],capture_output=True)
                if x.returncode or y.returncode or open('a1.nvm','rb').read()!=open('b1.nvm','rb').read():
                    print('DIFF', pre(t), ' || ', inf(t), x.returncode, y.returncode, (y.stderr.decode()[:100].replace('\n',' ')))
                    break
print(tot,bad)
