import socket, struct, sys, time, os
path="/tmp/nanolang_vm_0.sock"
def conn():
    s=socket.socket(socket.AF_UNIX, socket.SOCK_STREAM); s.connect(path); return s
def hdr(t,n,ver=1): return struct.pack('<BBHI',ver,t,0,n)
def ping():
    try:
        s=conn(); s.sendall(hdr(2,0)); d=s.recv(8); s.close(); return len(d)==8 and d[1]==0x13
    except Exception as e: return False
blob=open('lp.nvm','rb').read(); good=open('sc.nvm','rb').read()
hostile=open('/scratch/w/probe/cases/c000080.nvm','rb').read()
tests=[]
def t(name,fn):
    try: fn()
    except Exception as e: print(name,'client exc',e)
    time.sleep(0.2); print(name,'daemon alive:',ping())
t('header_only', lambda: conn().close())
t('short_hdr', lambda: (lambda s:(s.sendall(b'\x01\x01'),s.close()))(conn()))
t('wrong_ver', lambda: (lambda s:(s.sendall(hdr(1,10,ver=9)+b'x'*10),s.recv(100),s.close()))(conn()))
t('unknown_type', lambda: (lambda s:(s.sendall(hdr(0x77,0)),s.recv(100),s.close()))(conn()))
t('too_long', lambda: (lambda s:(s.sendall(hdr(1,0xfffffff0)),s.recv(100),s.close()))(conn()))
t('trunc_payload', lambda: (lambda s:(s.sendall(hdr(1,len(good))+good[:10]),s.close()))(conn()))
t('garbage_payload', lambda: (lambda s:(s.sendall(hdr(1,64)+os.urandom(64)),s.recv(100),s.close()))(conn()))
t('hostile', lambda: (lambda s:(s.sendall(hdr(1,len(hostile))+hostile),s.recv(100),s.close()))(conn()))
def disc_mid():
    s=conn(); s.sendall(hdr(1,len(blob))+blob); s.recv(1000); s.close()
t('disconnect_mid_output', disc_mid)
def good_run():
    s=conn(); s.sendall(hdr(1,len(good))+good); buf=b''
    while True:
        d=s.recv(65536)
        if not d: break
        buf+=d
    print('good bytes',len(buf))
t('good', good_run)
