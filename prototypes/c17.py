import socket, struct, sys, os, time, subprocess, threading, random
T='/scratch/nlt/bin/'
D='/scratch/w/c17/d'; os.makedirs(D, exist_ok=True)
env=dict(os.environ, NLVERIF_VMD_DIR=D, TSAN_OPTIONS='halt_on_error=0 log_path=/scratch/w/c17/tsan.log')
def mkprog(i, n):
    return '''let mut G: int = %d
fn bump(x: int) -> int {
    set G (+ G x)
    return G
}
shadow bump { assert true }
fn main() -> int {
    let mut i: int = 0
    let mut s: string = ""
    while (< i %d) {
        set s (+ "client%d-" (int_to_string (bump i)))
        (println s)
        set i (+ i 1)
    }
    %s
    return 0
}
shadow main { assert true }
''' % (i*1000, n, i, '(println (at [1, 2] 5))' if i % 7 == 3 else 'assert (!= G -1)' )
N=int(sys.argv[1])
mods=[]
for i in range(N):
    p='m%d.nano'%i; open(p,'w').write(mkprog(i, 200 + 150*(i%5)))
    subprocess.run([T+'nano_virt',p,'--emit-nvm','-o','m%d.nvm'%i],check=True,capture_output=True,env=env)
    st=subprocess.run([T+'nano_vm','m%d.nvm'%i],capture_output=True,env=env)
    mods.append((open('m%d.nvm'%i,'rb').read(), st.stdout, st.stderr, st.returncode))
for f in os.listdir('.'):
    if f.startswith('tsan.log'): os.remove(f)
d=subprocess.Popen([T+'nano_vmd','--foreground','--no-timeout'],env=env,stderr=open('vmd.err','w'))
time.sleep(1.0)
def session(blob, barrier):
    s=socket.socket(socket.AF_UNIX, socket.SOCK_STREAM); s.connect(D+'/vmd.sock')
    s.sendall(struct.pack('<BBHI',1,1,0,len(blob))+blob[:-1]); barrier.wait(); s.sendall(blob[-1:])
    out=b''; err=b''; code=None; buf=b''
    while True:
        d_=s.recv(65536)
        if not d_: break
        buf+=d_
    pos=0
    while pos+8<=len(buf):
        ver,typ,_,ln=struct.unpack_from('<BBHI',buf,pos); pl=buf[pos+8:pos+8+ln]; pos+=8+ln
        if typ==0x10: out+=pl
        elif typ==0x12: err+=pl+b'\n'
        elif typ==0x11: code=struct.unpack('<i',pl)[0]
    return out,err,code
bad=0; tot=0
for rnd in range(int(sys.argv[2])):
    order=list(range(N))*2; random.Random(rnd).shuffle(order)
    bar=threading.Barrier(len(order)); res=[None]*len(order)
    def run(k,i): res[k]=session(mods[i][0],bar)
    th=[threading.Thread(target=run,args=(k,i)) for k,i in enumerate(order)]
    [t.start() for t in th]; [t.join() for t in th]
    for k,i in enumerate(order):
        tot+=1
        exp=mods[i]
        if res[k][0]!=exp[1] or res[k][2]!=exp[3] or res[k][1].strip()!=exp[2].strip():
            bad+=1
            if bad<4: print('MISMATCH client',i,'got',len(res[k][0]),'exp',len(exp[1]),res[k][2],exp[3],res[k][1][:80],exp[2][:80])
d.terminate(); d.wait()
logs=[f for f in os.listdir('.') if f.startswith('tsan.log')]
import re
reports=[]
for f in logs:
    t=open(f).read()
    for m in re.finditer(r'WARNING: ThreadSanitizer: ([^\n]*)\n(.*?)(?=\n\n)', t, re.S):
        fr=re.findall(r'#0 (\S+)', m.group(2))[:2]
        reports.append((m.group(1).split('(')[0].strip(), tuple(fr)))
import collections
print('sessions',tot,'mismatches',bad,'tsan reports',len(reports))
for k,v in collections.Counter(reports).most_common(10): print(' ',v,k)
