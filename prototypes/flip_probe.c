#include "nanoisa/nvm_format.h"
#include <stdio.h>
#include <stdlib.h>
#include <string.h>
int main(int argc, char **argv) {
    for (int a = 1; a < argc; a++) {
        FILE *f = fopen(argv[a], "rb"); fseek(f,0,SEEK_END); long sz=ftell(f); fseek(f,0,SEEK_SET);
        uint8_t *buf = malloc(sz); fread(buf,1,sz,f); fclose(f);
        unsigned long flips=0, accepted=0, truncs=0, tacc=0, bursts=0, bacc=0, hdr=0, hacc=0;
        for (long i = 32; i < sz; i++) for (int b = 0; b < 8; b++) {
            uint8_t *c = malloc(sz); memcpy(c, buf, sz); c[i] ^= (uint8_t)(1u << b);
            NvmModule *m = nvm_deserialize(c, (uint32_t)sz); flips++;
            if (m) { accepted++; printf("ACCEPT flip byte=%ld bit=%d\n", i, b); nvm_module_free(m); }
            free(c);
        }
        for (long n = 0; n < sz; n++) {
            uint8_t *c = malloc(n ? n : 1); memcpy(c, buf, n);
            NvmModule *m = nvm_deserialize(c, (uint32_t)n); truncs++;
            if (m) { tacc++; printf("ACCEPT trunc len=%ld\n", n); nvm_module_free(m); }
            free(c);
        }
        unsigned seed = 12345;
        for (long i = 32; i < sz; i++) for (int len = 2; len <= 32; len += 5) for (int p = 0; p < 4; p++) {
            uint8_t *c = malloc(sz); memcpy(c, buf, sz);
            /* burst: first and last bit flipped, middle random */
            for (int k = 0; k < len; k++) { long bit = i*8 + k; if (bit/8 >= sz) break; seed = seed*1103515245u+12345u; int fl = (k==0||k==len-1) ? 1 : ((seed>>16)&1); if (fl) c[bit/8] ^= (uint8_t)(1u << (bit%8)); }
            NvmModule *m = nvm_deserialize(c, (uint32_t)sz); bursts++;
            if (m) { bacc++; printf("ACCEPT burst at=%ld len=%d\n", i, len); nvm_module_free(m); }
            free(c);
        }
        for (long i = 0; i < 8; i++) for (int b = 0; b < 8; b++) {
            uint8_t *c = malloc(sz); memcpy(c, buf, sz); c[i] ^= (uint8_t)(1u << b);
            NvmModule *m = nvm_deserialize(c, (uint32_t)sz); hdr++;
            if (m) { hacc++; printf("ACCEPT header byte=%ld bit=%d\n", i, b); nvm_module_free(m); }
            free(c);
        }
        printf("%s size=%ld flips=%lu acc=%lu truncs=%lu acc=%lu bursts=%lu acc=%lu hdr=%lu acc=%lu\n", argv[a], sz, flips, accepted, truncs, tacc, bursts, bacc, hdr, hacc);
        free(buf);
    }
    return 0;
}
