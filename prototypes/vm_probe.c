/* vm_probe: read case files given on stdin (one path per line), run load -> verify -> execute with fuel */
#include "nanovm/vm.h"
#include "nanoisa/verifier.h"
#include "nanoisa/nvm_format.h"
#include <stdio.h>
#include <stdlib.h>
#include <string.h>
int g_argc = 0; char **g_argv = NULL;
int main(int argc, char **argv) {
    (void)argc; (void)argv;
    char line[4096];
    FILE *devnull = fopen("/dev/null", "w");
    static VmState vm;
    while (fgets(line, sizeof line, stdin)) {
        line[strcspn(line, "\n")] = 0;
        FILE *f = fopen(line, "rb"); if (!f) { printf("%s noread\n", line); continue; }
        fseek(f, 0, SEEK_END); long sz = ftell(f); fseek(f, 0, SEEK_SET);
        uint8_t *buf = malloc(sz > 0 ? sz : 1); fread(buf, 1, sz, f); fclose(f);
        printf("%s start\n", line); fflush(stdout);
        NvmModule *m = nvm_deserialize(buf, (uint32_t)sz);
        free(buf);
        if (!m) { printf("%s load=0\n", line); fflush(stdout); continue; }
        NvmVerifyResult vr = nvm_verify(m);
        if (!vr.ok) { printf("%s load=1 verify=0\n", line); fflush(stdout); nvm_module_free(m); continue; }
        if (m->import_count > 0) { printf("%s load=1 verify=1 imports\n", line); fflush(stdout); nvm_module_free(m); continue; }
        vm_init(&vm, m); vm.output = devnull; vm.verif_fuel = 200000;
        VmResult r = vm_execute(&vm);
        printf("%s load=1 verify=1 result=%d msg=%s\n", line, (int)r, vm.error_msg); fflush(stdout);
        vm_destroy(&vm); nvm_module_free(m);
    }
    return 0;
}
