import random, sys, os, subprocess, concurrent.futures as cf
M64 = 1<<64
def wrap(x):
    x &= M64-1
    return x - M64 if x >= 1<<63 else x
class G:
    def __init__(s, seed):
        s.r = random.Random(seed); s.lab = 0; s.out = []
    def int_expr(s, env, d):
        r = s.r
        ints = [k for k,t in env.items() if t=='int']
        if d <= 0 or r.random() < 0.25:
            if ints and r.random() < 0.6: return r.choice(ints)
            return str(r.choice([0,1,2,3,5,7,10,-1,-3,100]))
        k = r.random()
        if k < 0.55:
            op = r.choice(['+','-','*'])
            return '(%s %s %s)' % (op, s.int_expr(env,d-1), s.int_expr(env,d-1))
        if k < 0.7:
            op = r.choice(['/','%'])
            return '(%s %s (+ (abs %s) 1))' % (op, s.int_expr(env,d-1), s.int_expr(env,d-1))
        if k < 0.8:
            return '(abs %s)' % s.int_expr(env,d-1)
        if k < 0.9:
            return '(cond (%s %s) (else %s))' % (s.bool_expr(env,d-1), s.int_expr(env,d-1), s.int_expr(env,d-1))
        return '(abs %s)' % s.int_expr(env,d-1)
    def bool_expr(s, env, d):
        r = s.r
        if d <= 0 or r.random() < 0.2:
            return r.choice(['true','false'])
        k = r.random()
        if k < 0.5:
            return '(%s %s %s)' % (r.choice(['<','<=','>','>=','==','!=']), s.int_expr(env,d-1), s.int_expr(env,d-1))
        if k < 0.8:
            return '(%s %s %s)' % (r.choice(['and','or']), s.bool_expr(env,d-1), s.bool_expr(env,d-1))
        if k < 0.9: return '(not %s)' % s.bool_expr(env,d-1)
        return '(== %s %s)' % (s.str_expr(env,d-1), s.str_expr(env,d-1))
    def str_expr(s, env, d):
        r = s.r
        strs = [k for k,t in env.items() if t=='string']
        if d <= 0 or r.random() < 0.3:
            if strs and r.random() < 0.6: return r.choice(strs)
            return '"%s"' % r.choice(['', 'a', 'bc', 'xyz', 'hello'])
        k = r.random()
        if k < 0.6: return '(+ %s %s)' % (s.str_expr(env,d-1), s.str_expr(env,d-1))
        return '(int_to_string %s)' % s.int_expr(env,d-1)
    def emit(s, env, ind, depth, loops):
        r = s.r; out = []
        n = r.randint(2,5)
        for _ in range(n):
            k = r.random()
            pad = '    '*ind
            if k < 0.3:
                t = r.choice(['int','int','string','bool'])
                nm = 'v%d' % s.lab; s.lab += 1
                e = {'int': s.int_expr, 'string': s.str_expr, 'bool': s.bool_expr}[t](env, 2)
                out.append('%slet mut %s: %s = %s' % (pad, nm, t, e)); env[nm] = t
            elif k < 0.45:
                vs = [k2 for k2,t in env.items() if t=='int' and k2.startswith('v')]
                if vs:
                    v = r.choice(vs); out.append('%sset %s %s' % (pad, v, s.int_expr(env,2)))
            elif k < 0.7:
                t = r.choice(['int','string','bool'])
                e = {'int': s.int_expr, 'string': s.str_expr, 'bool': s.bool_expr}[t](env, 3)
                out.append('%s(println %s)' % (pad, e))
            elif k < 0.85 and depth > 0:
                out.append('%sif %s {' % (pad, s.bool_expr(env,2)))
                out += s.emit(dict(env), ind+1, depth-1, loops)
                out.append('%s} else {' % pad)
                out += s.emit(dict(env), ind+1, depth-1, loops)
                out.append('%s}' % pad)
            elif depth > 0 and loops < 2:
                c = 'c%d' % s.lab; s.lab += 1
                out.append('%slet mut %s: int = 0' % (pad, c))
                out.append('%swhile (< %s %d) {' % (pad, c, r.randint(1,4)))
                e2 = dict(env); e2[c+'_ro'] = 'x'
                body = s.emit(e2, ind+1, depth-1, loops+1)
                out += body
                out.append('%s    set %s (+ %s 1)' % (pad, c, c))
                out.append('%s}' % pad)
        return out
def prog(seed):
    g = G(seed)
    fns = []
    nf = g.r.randint(1,3)
    src = []
    for i in range(nf):
        env = {'a':'int','b':'int'}
        body = g.emit(env, 1, 2, 0)
        src.append('fn f%d(a: int, b: int) -> int {' % i)
        src += body
        src.append('    return %s' % g.int_expr(env, 2))
        src.append('}')
        aa, bb = g.r.randint(-5,5), g.r.randint(-5,5)
        calls = getattr(g, 'calls', []); calls.append((i, aa, bb)); g.calls = calls
        src.append('shadow f%d {\n    (println "S%d")\n    (println (f%d %d %d))\n    (println "E%d")\n}' % (i, i, i, aa, bb, i))
    src.append('fn main() -> int {')
    for (i, aa, bb) in g.calls:
        src.append('    (println "S%d")\n    (println (f%d %d %d))\n    (println "E%d")' % (i, i, aa, bb, i))
    src.append('    return 0\n}\nshadow main { assert true }')
    return '\n'.join(src)+'\n'
def run(seed):
    d = '/scratch/w/gen/p%d' % seed
    os.makedirs(d, exist_ok=True)
    open(d+'/p.nano','w').write(prog(seed))
    env = dict(os.environ, NANO_CC='/scratch/w/cc/fastcc')
    N = '/scratch/nl/bin/'
    try:
        c = subprocess.run([N+'nanoc','p.nano','-o','p.bin','--verbose'], cwd=d, capture_output=True, timeout=60, env=env)
        nat = None
        if c.returncode == 0:
            p = subprocess.run(['./p.bin'], cwd=d, capture_output=True, timeout=20)
            nat = (p.returncode, p.stdout)
        v = subprocess.run([N+'nano_virt','p.nano','--run'], cwd=d, capture_output=True, timeout=20)
        vm = (v.returncode, v.stdout)
    except subprocess.TimeoutExpired:
        return seed, 'timeout', ''
    if c.returncode != 0:
        err = c.stderr.decode('latin1')
        tag = 'nanoc-fail:' + ('shadow' if 'Shadow tests failed' in err else 'cc' if 'C compilation failed' in err else 'type' if 'Type checking failed' in err else 'other')
        return seed, tag, err[-300:]
    if nat != vm: return seed, 'nat!=vm', ''
    import re
    def segs(b):
        t = b.decode('latin1')
        return re.findall(r'S(\d+)\n(.*?)E\1\n', t, re.S)
    if segs(c.stdout) != segs(nat[1]): return seed, 'interp!=nat', ''
    if not segs(nat[1]): return seed, 'nosegs', ''
    return seed, 'ok', ''
if __name__ == '__main__':
    a, b = int(sys.argv[1]), int(sys.argv[2])
    import collections
    res = collections.Counter(); ex = collections.defaultdict(list)
    with cf.ThreadPoolExecutor(16) as ex_:
        for seed, tag, info in ex_.map(run, range(a,b)):
            res[tag] += 1; ex[tag].append(seed)
    for k,v in res.items(): print(k, v, ex[k][:8])
