import re, struct, zlib, random, sys, os, subprocess, collections
SRC='/scratch/nla/src/nanoisa/'
ops={}
for m in re.finditer(r'(OP_\w+)\s*=\s*(0x[0-9A-Fa-f]+)', open(SRC+'isa.h').read()): ops[m.group(1)]=int(m.group(2),16)
SZ={'OPERAND_U8':1,'OPERAND_U16':2,'OPERAND_U32':4,'OPERAND_I32':4,'OPERAND_I64':8,'OPERAND_F64':8}
table={}
for m in re.finditer(r'INSTR\d\((OP_\w+),\s*"(\w+)"((?:,\s*OPERAND_\w+)*)\)', open(SRC+'isa.c').read()):
    kinds=[k.strip() for k in m.group(3).split(',') if k.strip()]
    table[ops[m.group(1)]]=(m.group(2),kinds)
def parse(b):
    nsec=struct.unpack_from('<I',b,16)[0]
    secs=[]
    for i in range(nsec):
        t,o,s=struct.unpack_from('<III',b,32+12*i); secs.append([t,o,s])
    return secs
def fix(b):
    b[28:32]=struct.pack('<I',zlib.crc32(bytes(b[32:]))&0xffffffff); return b
def decode(code):
    pos=0; out=[]
    while pos<len(code):
        op=code[pos]
        if op not in table: break
        p=pos+1; fields=[]
        for k in table[op][1]:
            fields.append((p,SZ[k],k)); p+=SZ[k]
        if p>len(code): break
        out.append((pos,op,fields)); pos=p
    return out
B32=[0,1,2,0x7f,0x80,0xff,0x100,0x7fff,0x8000,0xffff,0x10000,0x7fffffff,0x80000000,0xfffffff0,0xffffffff]
def mutate(data, r):
    b=bytearray(data); secs=parse(b)
    code=[s for s in secs if s[0]==1]; fn=[s for s in secs if s[0]==3]; st=[s for s in secs if s[0]==2]
    kind=r.random()
    if kind<0.55 and code:
        t,o,s=code[0]; ins=decode(b[o:o+s])
        for _ in range(r.choice([1,1,2,3])):
            pos,op,fields=r.choice(ins)
            m=r.random()
            if fields and m<0.6:
                p,sz,k=r.choice(fields)
                v=r.choice(B32)
                if sz==8: v=r.choice([0,1,-1,2**63-1,-2**63,2**32, -2**31]); b[o+p:o+p+8]=struct.pack('<q',v)
                elif sz==4: b[o+p:o+p+4]=struct.pack('<I',v&0xffffffff)
                elif sz==2: b[o+p:o+p+2]=struct.pack('<H',v&0xffff)
                else: b[o+p]=v&0xff
            elif m<0.85:
                # replace opcode with another of same length
                same=[q for q,(n,ks) in table.items() if sum(SZ[k] for k in ks)==sum(f[1] for f in fields)]
                b[o+pos]=r.choice(same)
            else:
                b[o+pos]=r.randrange(256)
    elif kind<0.8 and fn:
        t,o,s=fn[0]; n=s//18
        i=r.randrange(n); base=o+18*i
        f=r.choice(['name','arity','off','len','locals','upv'])
        if f=='name': b[base:base+4]=struct.pack('<I',r.choice(B32))
        if f=='arity': b[base+4:base+6]=struct.pack('<H',r.choice(B32)&0xffff)
        if f=='off': b[base+6:base+10]=struct.pack('<I',r.choice(B32))
        if f=='len': b[base+10:base+14]=struct.pack('<I',r.choice(B32))
        if f=='locals': b[base+14:base+16]=struct.pack('<H',r.choice(B32)&0xffff)
        if f=='upv': b[base+16:base+18]=struct.pack('<H',r.choice(B32)&0xffff)
    elif kind<0.9:
        i=r.randrange(len(secs)); base=32+12*i
        f=r.randrange(3); b[base+4*f:base+4*f+4]=struct.pack('<I',r.choice(B32+[1,2,3,8]))
    else:
        f=r.choice([8,12,16]); b[f:f+4]=struct.pack('<I',r.choice(B32))
    return fix(b)
if __name__=='__main__':
    seeds=sys.argv[3:]; r=random.Random(int(sys.argv[1])); n=int(sys.argv[2])
    datas=[open(s,'rb').read() for s in seeds]
    os.makedirs('cases',exist_ok=True)
    paths=[]
    for i in range(n):
        p='cases/c%06d.nvm'%i; open(p,'wb').write(mutate(r.choice(datas),r)); paths.append(p)
    env=dict(os.environ,ASAN_OPTIONS='detect_leaks=0:exitcode=97:allocator_may_return_null=1:hard_rss_limit_mb=2048',UBSAN_OPTIONS='print_stacktrace=1:halt_on_error=1:exitcode=97')
    res=collections.Counter(); wit={}
    i=0
    while i<len(paths):
        p=subprocess.run(['./vm_probe'],input='\n'.join(paths[i:])+'\n',capture_output=True,text=True,env=env,errors='replace')
        lines=p.stdout.splitlines()
        done=0; last=None
        for ln in lines:
            parts=ln.split(' ',1)
            if parts[1]=='start': last=parts[0]; continue
            done+=1; last=None
            key=re.sub(r'msg=.*','',parts[1]); 
            m=re.search(r'msg=(.*)',parts[1]); 
            if m: key+= 'msg='+re.sub(r'\d+','N',m.group(1))
            res[key]+=1
        if last is not None:
            err=p.stderr
            m=re.search(r'ERROR: AddressSanitizer: (\S+)',err)
            fr=[f for f in re.findall(r'#\d+ 0x[0-9a-f]+ in (\S+)',err) if not f.startswith('__')][:3]
            u=re.search(r'(\S+?):\d+:\d+: runtime error: ([^\n]*)',err)
            if m: key='CRASH ASAN %s %s'%(m.group(1),'<'.join(fr))
            elif u: key='CRASH UBSAN %s %s | %s'%(os.path.basename(u.group(1)),re.sub(r'-?\d+','N',u.group(2))[:60],'<'.join(fr))
            else: key='CRASH rc=%d %s'%(p.returncode, err[-200:].replace('\n',' '))
            res[key]+=1
            if key not in wit: wit[key]=last
            i+=done+1
        else:
            i+=done
            if done==0: break
    for k,v in sorted(res.items(), key=lambda x:-x[1]): print(v,k, wit.get(k,''))
