#include "nanoisa/nvm_format.h"
#include "nanoisa/assembler.h"
#include "nanoisa/disassembler.h"
#include <stdio.h>
#include <stdlib.h>
#include <string.h>
int g_argc=0; char **g_argv=NULL;
int main(int argc, char **argv) {
    for (int a = 1; a < argc; a++) {
        FILE *f = fopen(argv[a], "rb"); fseek(f,0,SEEK_END); long sz=ftell(f); fseek(f,0,SEEK_SET);
        uint8_t *buf = malloc(sz); fread(buf,1,sz,f); fclose(f);
        NvmModule *m = nvm_deserialize(buf,(uint32_t)sz); free(buf);
        if (!m) { printf("%s noload\n", argv[a]); continue; }
        char *txt = disasm_module(m);
        AsmResult ar; NvmModule *m2 = asm_assemble(txt, &ar);
        if (!m2) { printf("%s ASMFAIL line=%u err=%d %s\n", argv[a], ar.line, ar.error, ar.message); 
            /* print offending line */
            char *p = txt; for (uint32_t l = 1; l < ar.line && p; l++) { p = strchr(p,'\n'); if (p) p++; }
            if (p) { char *e = strchr(p,'\n'); printf("   >> %.*s\n", e ? (int)(e-p) : 40, p); }
            free(txt); nvm_module_free(m); continue; }
        int bad = 0;
        if (m->code_size != m2->code_size || memcmp(m->code, m2->code, m->code_size)) { bad |= 1; }
        if (m->function_count != m2->function_count) bad |= 2;
        else for (uint32_t i = 0; i < m->function_count; i++) {
            NvmFunctionEntry *x=&m->functions[i], *y=&m2->functions[i];
            if (x->name_idx!=y->name_idx||x->arity!=y->arity||x->code_offset!=y->code_offset||x->code_length!=y->code_length||x->local_count!=y->local_count||x->upvalue_count!=y->upvalue_count) bad |= 4;
        }
        if (m->string_count != m2->string_count) bad |= 8;
        else for (uint32_t i = 0; i < m->string_count; i++) if (m->string_lengths[i]!=m2->string_lengths[i] || memcmp(m->strings[i], m2->strings[i], m->string_lengths[i])) bad |= 16;
        printf("%s %s bad=%d code=%u/%u fns=%u/%u strs=%u/%u\n", argv[a], bad?"DIFF":"same", bad, m->code_size, m2->code_size, m->function_count, m2->function_count, m->string_count, m2->string_count);
        free(txt); nvm_module_free(m); nvm_module_free(m2);
    }
    return 0;
}
