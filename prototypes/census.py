import subprocess, os, re, sys
N='/scratch/nl/bin/'
# each feature: (decls, body statements that print) ; body is placed in fn t() -> int {...; return 0}; shadow t calls (t); main calls (t)
F = {}
F['int_arith'] = ('', '(println (+ (* 3 4) (- 10 (/ 9 2))))\n(println (% 17 5))\n(println (% -17 5))\n(println (/ -17 5))')
F['compare'] = ('', '(println (< 1 2))\n(println (>= 2 2))\n(println (!= 3 3))')
F['logic_pure'] = ('', '(println (and true false))\n(println (or false true))\n(println (not true))')
F['logic_effect'] = ('fn e(x: int) -> bool {\n (println x)\n return true\n}\nshadow e { assert true }', '(println (and false (e 1)))\n(println (or true (e 2)))\n(println (and true (e 3)))')
F['str_ops'] = ('', 'let s: string = (+ "ab" "cd")\n(println s)\n(println (str_length s))\n(println (str_concat s "!"))\n(println (str_substring s 1 2))\n(println (str_substring s 3 10))\n(println (char_at s 0))\n(println (str_contains s "bc"))\n(println (str_equals s "abcd"))\n(println (== s "abcd"))\n(println (!= s "abcd"))\n(println (int_to_string -42))\n(println (string_to_int "123"))\n(println (string_from_char 65))')
F['char_class'] = ('', '(println (is_digit 53))\n(println (is_alpha 53))\n(println (is_alnum 95))\n(println (is_whitespace 32))\n(println (is_upper 65))\n(println (is_lower 65))\n(println (digit_value 55))\n(println (char_to_lower 65))\n(println (char_to_upper 97))')
F['math_builtins'] = ('', '(println (abs -4))\n(println (min 3 9))\n(println (max 3 9))\n(println (min -3 -9))')
F['float_cmp'] = ('', 'let x: float = 1.5\nlet y: float = (* x 2.0)\n(println (== y 3.0))\n(println (< x y))\n(println (> (sqrt 16.0) 3.9))')
F['array_int'] = ('', 'let mut a: array<int> = [5, 6, 7]\n(println (at a 1))\n(println (array_length a))\nset a (array_push a 8)\n(println (array_length a))\n(array_set a 0 100)\n(println (at a 0))\nlet z: array<int> = (array_new 3 9)\n(println (at z 2))')
F['array_str'] = ('', 'let mut a: array<string> = ["x", "yy"]\n(println (at a 1))\nset a (array_push a "zzz")\n(println (array_length a))\n(println (at a 2))')
F['array_bool'] = ('', 'let a: array<bool> = [true, false]\n(println (at a 1))')
F['array_pop'] = ('', 'let mut a: array<int> = [1, 2, 3]\nlet v: int = (array_pop a)\n(println v)\n(println (array_length a))')
F['array_remove'] = ('', 'let mut a: array<int> = [1, 2, 3]\n(array_remove_at a 0)\n(println (at a 0))\n(println (array_length a))')
F['array_nested'] = ('', 'let a: array<array<int>> = [[1, 2], [3]]\n(println (at (at a 0) 1))\n(println (array_length (at a 1)))')
F['array_empty'] = ('', 'let mut a: array<int> = []\n(println (array_length a))\nset a (array_push a 4)\n(println (at a 0))')
F['struct_basic'] = ('struct P { x: int, y: int }', 'let p: P = P { x: 3, y: 4 }\n(println p.x)\n(println (+ p.x p.y))')
F['struct_nested'] = ('struct P { x: int, y: int }\nstruct Q { p: P, name: string }', 'let q: Q = Q { p: P { x: 1, y: 2 }, name: "n" }\n(println q.p.y)\n(println q.name)')
F['struct_param_ret'] = ('struct P { x: int, y: int }\nfn mk(a: int) -> P {\n return P { x: a, y: (* a 2) }\n}\nshadow mk { assert true }\nfn sum(p: P) -> int {\n return (+ p.x p.y)\n}\nshadow sum { assert true }', '(println (sum (mk 5)))\nlet r: P = (mk 2)\n(println r.y)')
F['struct_mut_field'] = ('struct P { x: int, y: int }', 'let mut p: P = P { x: 3, y: 4 }\nset p.x 10\n(println p.x)')
F['struct_array'] = ('struct P { x: int, y: int }', 'let a: array<P> = [P { x: 1, y: 2 }, P { x: 3, y: 4 }]\nlet e: P = (at a 1)\n(println e.x)')
F['enum_cmp'] = ('enum C { R = 0, G = 1, B = 2 }', 'let c: C = C.G\n(println (== c C.G))\n(println (== c C.B))')
F['enum_print'] = ('enum C { R = 0, G = 1, B = 2 }', 'let c: C = C.B\n(println c)')
F['enum_as_int'] = ('enum C { R = 0, G = 5, B = 7 }', 'let c: int = C.G\n(println (+ c 1))')
F['union_match_stmt'] = ('union S {\n Ci { r: int },\n Re { w: int, h: int }\n}\nfn area(s: S) -> int {\n let mut r: int = 0\n match s {\n  Ci(c) => { set r (* c.r c.r) },\n  Re(q) => { set r (* q.w q.h) }\n }\n return r\n}\nshadow area { assert true }', '(println (area S.Ci { r: 3 }))\n(println (area S.Re { w: 2, h: 5 }))')
F['union_match_return'] = ('union S {\n Ci { r: int },\n Re { w: int, h: int }\n}\nfn area(s: S) -> int {\n match s {\n  Ci(c) => { return (* c.r c.r) },\n  Re(q) => { return (* q.w q.h) }\n }\n return 0\n}\nshadow area { assert true }', '(println (area S.Ci { r: 3 }))\n(println (area S.Re { w: 2, h: 5 }))')
F['union_match_expr'] = ('union S {\n Ci { r: int },\n Re { w: int, h: int }\n}\nfn area(s: S) -> int {\n return match s {\n  Ci(c) => (* c.r c.r),\n  Re(q) => (* q.w q.h)\n }\n}\nshadow area { assert true }', '(println (area S.Ci { r: 3 }))\n(println (area S.Re { w: 2, h: 5 }))')
F['union_str_payload'] = ('union R {\n Ok { v: int },\n Er { m: string }\n}\nfn show(r: R) -> string {\n let mut o: string = ""\n match r {\n  Ok(k) => { set o (int_to_string k.v) },\n  Er(e) => { set o e.m }\n }\n return o\n}\nshadow show { assert true }', '(println (show R.Ok { v: 4 }))\n(println (show R.Er { m: "bad" }))')
F['tuple'] = ('fn pr(a: int, b: string) -> (int, string) {\n return (a, b)\n}\nshadow pr { assert true }', 'let t: (int, string) = (pr 9 "s")\n(println t.0)\n(println t.1)\nlet u: (int, int, bool) = (1, 2, true)\n(println u.2)')
F['global_const'] = ('let G: int = 7\nlet S: string = "gs"', '(println G)\n(println S)')
F['global_mut'] = ('let mut H: int = 1\nfn bump() -> int {\n set H (+ H 1)\n return H\n}\nshadow bump { assert true }', '(println (bump))\n(println (bump))\n(println H)')
F['recursion'] = ('fn fact(n: int) -> int {\n if (<= n 1) { return 1 } else { return (* n (fact (- n 1))) }\n}\nshadow fact { assert true }\nfn ev(n: int) -> bool {\n if (== n 0) { return true } else { return (od (- n 1)) }\n}\nfn od(n: int) -> bool {\n if (== n 0) { return false } else { return (ev (- n 1)) }\n}\nshadow ev { assert true }\nshadow od { assert true }', '(println (fact 10))\n(println (ev 10))')
F['first_class_fn'] = ('fn dbl(x: int) -> int { return (* x 2) }\nshadow dbl { assert true }\nfn tri(x: int) -> int { return (* x 3) }\nshadow tri { assert true }\nfn ap(f: fn(int) -> int, v: int) -> int { return (f v) }\nshadow ap { assert true }\nfn pick(c: int) -> fn(int) -> int {\n if (== c 0) { return dbl } else { return tri }\n}\nshadow pick { assert true }', '(println (ap dbl 4))\nlet g: fn(int) -> int = (pick 1)\n(println (g 5))\n(println (ap (pick 0) 7))')
F['while_break_continue'] = ('', 'let mut k: int = 0\nwhile true {\n set k (+ k 1)\n if (> k 6) { break }\n if (== (% k 2) 0) { continue }\n (println k)\n}')
F['for_range'] = ('', 'let mut s: int = 0\nfor i in (range 0 5) {\n set s (+ s i)\n}\n(println s)\nfor j in (range 2 4) { (println j) }')
F['for_break'] = ('', 'for i in (range 0 10) {\n if (== i 3) { break }\n (println i)\n}')
F['for_continue'] = ('', 'for i in (range 0 5) {\n if (== i 2) { continue }\n (println i)\n}')
F['nested_loops'] = ('', 'let mut i: int = 0\nwhile (< i 3) {\n let mut j: int = 0\n while (< j 2) {\n  (println (+ (* i 10) j))\n  set j (+ j 1)\n }\n set i (+ i 1)\n}')
F['block_shadow'] = ('', 'let x: int = 1\nif (== x 1) {\n let x: int = 2\n (println x)\n}\n(println x)')
F['block_shadow_while'] = ('', 'let x: int = 1\nlet mut i: int = 0\nwhile (< i 2) {\n let x: int = (+ i 10)\n (println x)\n set i (+ i 1)\n}\n(println x)')
F['if_else_chain'] = ('fn cls(x: int) -> string {\n if (> x 10) {\n  return "big"\n } else if (> x 5) {\n  return "mid"\n } else {\n  return "small"\n }\n}\nshadow cls { assert true }', '(println (cls 11))\n(println (cls 6))\n(println (cls 1))')
F['cond'] = ('', 'let g: int = 7\n(println (cond ((< g 3) 10) ((< g 10) 20) (else 30)))')
F['if_expr_let'] = ('', 'let a: int = 5\nlet v: int = if (> a 0) { 42 } else { -1 }\n(println v)')
F['early_return_nested'] = ('fn f(a: array<int>) -> int {\n let mut i: int = 0\n while (< i (array_length a)) {\n  if (> (at a i) 5) {\n   let s: string = (+ "f" "g")\n   if (== (str_length s) 2) { return (at a i) }\n  }\n  set i (+ i 1)\n }\n return -1\n}\nshadow f { assert true }', '(println (f [1, 9, 3]))\n(println (f [1, 2]))')
F['string_loop'] = ('', 'let mut s: string = ""\nlet mut i: int = 0\nwhile (< i 5) {\n set s (+ s (int_to_string i))\n set i (+ i 1)\n}\n(println s)')
F['print_noline'] = ('', '(print 1)\n(print " ")\n(print true)\n(println "")')
F['print_stmt_form'] = ('', 'print 5\nprintln 6')
F['infix'] = ('', 'let a: int = 3\nlet b: int = 4\n(println (a + b * 2))\n(println (a < b and b < 10))')
F['unary_minus'] = ('', 'let a: int = 3\n(println (- a))\n(println (- 0 a))')
F['nested_fn'] = ('', 'let k: int = 10\nfn addk(x: int) -> int {\n return (+ x k)\n}\n(println (addk 1))')
F['str_cmp_lt'] = ('', '(println (< "a" "b"))')
F['global_fn_init'] = ('fn three() -> int { return 3 }\nshadow three { assert true }\nlet G3: int = (three)', '(println G3)')
F['assert_stmt'] = ('', 'assert (== 1 1)\n(println "ok")')
F['int_overflow_wrap'] = ('fn addw(a: int, b: int) -> int { return (+ a b) }\nshadow addw { assert true }', '(println (addw 9223372036854775807 1))')
F['div_zero'] = ('fn dv(a: int, b: int) -> int { return (/ a b) }\nshadow dv { assert true }', '(println "pre")\n(println (dv 1 0))\n(println "post")')
def build(name):
    decls, body = F[name]
    body = '\n'.join('    '+l for l in body.split('\n'))
    return '%s\nfn t() -> int {\n%s\n    return 0\n}\nshadow t {\n    (println "<<S")\n    (t)\n    (println ">>E")\n}\nfn main() -> int {\n    (println "<<S")\n    (t)\n    (println ">>E")\n    return 0\n}\nshadow main { assert true }\n' % (decls, body)
def seg(b):
    t=b.decode('latin1'); m=re.search(r'<<S\n(.*?)>>E\n', t, re.S); return m.group(1) if m else None
rows=[]
env=dict(os.environ, NANO_CC='/scratch/w/cc/fastcc')
for name in F:
    d='c_'+name; os.makedirs(d, exist_ok=True); open(d+'/p.nano','w').write(build(name))
    try: os.remove(d+'/p.bin')
    except: pass
    c=subprocess.run([N+'nanoc','p.nano','-o','p.bin','--verbose'],cwd=d,capture_output=True,env=env,timeout=60)
    interp=seg(c.stdout)
    err=c.stderr.decode('latin1')
    if c.returncode==0:
        try:
            p=subprocess.run(['./p.bin'],cwd=d,capture_output=True,timeout=10); nat=seg(p.stdout); natrc=p.returncode
        except subprocess.TimeoutExpired: nat='TIMEOUT'; natrc=-1
    else:
        nat=None; natrc='nanoc:'+('type' if 'Type checking failed' in err else 'shadow' if 'Shadow tests failed' in err else 'cc' if 'C compilation failed' in err else 'parse' if 'Parsing failed' in err else 'other')
    try:
        v=subprocess.run([N+'nano_virt','p.nano','--run'],cwd=d,capture_output=True,timeout=10); vm=seg(v.stdout); vmrc=v.returncode; vmerr=v.stderr.decode('latin1').strip().split('\n')[-1][:60]
    except subprocess.TimeoutExpired: vm='TIMEOUT'; vmrc=-1; vmerr=''
    agree = 'ALL' if (interp==nat==vm and nat is not None) else ''
    rows.append((name, agree, natrc, vmrc, interp, nat, vm, vmerr))
for r in rows:
    name, agree, natrc, vmrc, interp, nat, vm, vmerr = r
    def sh(x): return 'None' if x is None else repr(x.replace('\n','|'))[:46]
    print('%-20s %-3s nat=%-12s vm=%-3s I=%s N=%s V=%s %s' % (name, agree, natrc, vmrc, sh(interp), sh(nat), sh(vm), vmerr if vmrc not in (0,) else ''))
