#!/usr/bin/env python3
import sys, os, struct, time
fault = os.environ.get('COP_FAULT','none')
inp = sys.stdin.buffer; out = sys.stdout.buffer
def rd(n):
    b = b''
    while len(b) < n:
        c = inp.read(n-len(b))
        if not c: sys.exit(0)
        b += c
    return b
def send(t, payload=b''):
    out.write(struct.pack('<BBHI',1,t,0,len(payload))+payload); out.flush()
nreq = 0
while True:
    h = rd(8); ver,typ,_,ln = struct.unpack('<BBHI',h); pl = rd(ln)
    if typ == 1:
        if fault == 'exit_before_ready': sys.exit(1)
        send(0x12)
        if fault == 'close_stdin_after_ready':
            os.close(0); time.sleep(30); sys.exit(0)
    elif typ == 2:
        nreq += 1
        if fault == 'exit_on_req': sys.exit(1)
        if fault == 'short_header': out.write(b'\x01\x10'); out.flush(); os.close(1); time.sleep(30)
        if fault == 'huge_array': send(0x10, bytes([7,1])+struct.pack('<I',0xffffffff)); continue
        if fault == 'wrong_type': send(0x55, b'xx'); continue
        send(0x10, bytes([1])+struct.pack('<q', 1000+nreq))
    elif typ == 3:
        sys.exit(0)
