#!/usr/bin/python3 -S
"""Scripted stand-in for nano_cop (C16).

Installed as an executable called `nano_cop` in a directory placed first on PATH (vm_ffi.c starts the
co-process with execlp("nano_cop")).  Speaks the wire protocol of src/nanovm/cop_protocol.[ch]:

    header  = u8 version(1) | u8 msg_type | u16 reserved(0) | u32 payload_len   (little endian, 8 bytes)
    VM->cop : INIT 0x01 (payload: serialized module), FFI_REQ 0x02 (u32 import_idx, u16 argc, values),
              SHUTDOWN 0x03
    cop->VM : FFI_RESULT 0x10 (one value), FFI_ERROR 0x11 (text), READY 0x12
    value   = u8 tag + body: INT 0x01 i64 | FLOAT 0x03 f64 | BOOL 0x04 u8 | STRING 0x05 u32 len + bytes |
              ARRAY 0x07 u8 elem_type, u32 count, values | OPAQUE 0x0E i64 | VOID 0x00

Answers come from a table ($NLVERIF_COP_TABLE, json {hex(request payload after the 6 byte prefix): hex(value)}).

Exactly one fault is injected:   NLVERIF_COP_FAULT=<step>:<kind>:<k>     (absent or "none": healthy)

  step  pre_ready   k=1 before INIT is read, k=2 after the INIT header, k=3 after the INIT payload (instead of READY)
        post_ready  immediately after READY was written
        on_req      when the header of the k-th FFI_REQ of this instance has arrived (its payload still unread)
        pre_reply   k-th request read completely, instead of the reply
        mid_reply   k-th reply: header and the first half of the payload written, then the fault
        post_reply  k-th reply written completely, then the fault (the next call meets a dead / deaf peer)
  kind  process kinds  exit0 exit1 kill(SIGKILL self) close_stdin close_stdout close_both
                       close_stdin_alive close_stdout_alive close_both_alive
        message kinds  short_header wrong_version wrong_type len_over_max short_payload bad_tag array_huge string_over
                       string_len_max array_huge_elem deep_nesting

Post-fault behaviour (every fault must be observable through the pipes, the VM has no timeout):
  exit0/exit1/kill   the process is gone at once (os._exit / SIGKILL).
  close_stdin, close_both  close, linger 300 ms, exit 0 (a VM that already wrote sees EOF on its read).
  close_stdout       close stdout, then drain stdin until SHUTDOWN/EOF, exit 0.
  close_*_alive      close the descriptor(s) but KEEP RUNNING (a co-process wedged in a library call): no exit on
                     EOF or SHUTDOWN, sleep until a signal arrives (gives up after 40 s).  close_stdin_alive first
                     completes the message the VM is waiting for (READY / the current reply) - the VM has no
                     timeout, a silent live peer is outside the property - so the VM meets the closed pipe at its
                     next write (next request, or SHUTDOWN at exit).  Only the VM's SIGTERM removes such a peer.
  short_header, short_payload  (truncated message) write the partial message, close stdout, drain stdin until
                     SHUTDOWN/EOF, exit 0 - so the truncation is seen as EOF and not as an eternal wait.
  other message kinds  write the complete bad message, then keep serving correctly and honour SHUTDOWN/EOF.
                     pre_ready/pre_reply: the bad message REPLACES READY / the reply; post_ready/on_req: it is an
                     EXTRA message (the correct reply follows); mid_reply: it replaces the second half of the reply.

Other switches
  NLVERIF_COP_SIZED=error|result:<n>:<k>  the k-th reply is a well-formed FFI_ERROR with n bytes of text / FFI_RESULT
                                    with an n byte string (reply-size dimension; not a fault)
  NLVERIF_COP_SECOND=healthy|same   behaviour of the 2nd, 3rd .. instance of one case (relaunch); default healthy
  NLVERIF_COP_STUBBORN=1            ignore SHUTDOWN and EOF (only a signal removes the process; gives up after 40 s)
  NLVERIF_COP_CHUNK=<n>             write everything in pieces of n bytes, 1 ms apart (legal, merely slow peer)
  NLVERIF_COP_JITTER=<seed>         random 0-2 ms pauses before writes / faults and random split of writes
  NLVERIF_COP_LOG=<file>            event log, one line "<instance> <pid> <event>"; "fault-fired" proves injection
  NLVERIF_COP_TAG=<tag>             only carried in the environment (the check finds leftovers by it)
"""
import fcntl
import json
import os
import random
import signal
import struct
import sys
import time

INIT, REQ, SHUTDOWN, RESULT, ERROR, READY = 0x01, 0x02, 0x03, 0x10, 0x11, 0x12
COP_MAX_PAYLOAD = 16 * 1024 * 1024
PROCESS_KINDS = ("exit0", "exit1", "kill", "close_stdin", "close_stdout", "close_both",
                 "close_stdin_alive", "close_stdout_alive", "close_both_alive")
MESSAGE_KINDS = ("short_header", "wrong_version", "wrong_type", "len_over_max", "short_payload",
                 "bad_tag", "array_huge", "string_over", "string_len_max", "array_huge_elem", "deep_nesting")
DEEP = 500000         # nesting depth of the deep_nesting reply (6 bytes per level: 3 MB, below COP_MAX_PAYLOAD)
STEPS = ("pre_ready", "post_ready", "on_req", "pre_reply", "mid_reply", "post_reply")

env = os.environ
LOG = env.get("NLVERIF_COP_LOG")
STUBBORN = env.get("NLVERIF_COP_STUBBORN") == "1"
CHUNK = int(env.get("NLVERIF_COP_CHUNK", "0") or 0)
JITTER = env.get("NLVERIF_COP_JITTER")
PID = os.getpid()
inst = 1
logfd = -1
stdout_open = True


def log(event):
    if logfd >= 0:
        try:
            os.write(logfd, ("%d %d %s\n" % (inst, PID, event)).encode())
        except OSError:
            pass


def open_log():
    """Append a launch record; the instance number is 1 + number of earlier launches of this case."""
    global logfd, inst
    if not LOG:
        return
    logfd = os.open(LOG, os.O_RDWR | os.O_APPEND | os.O_CREAT, 0o644)
    fcntl.flock(logfd, fcntl.LOCK_EX)
    try:
        with open(LOG, "rb") as f:
            inst = 1 + sum(1 for ln in f if ln.rstrip().endswith(b" launch"))
        log("launch")
    finally:
        fcntl.flock(logfd, fcntl.LOCK_UN)


open_log()
rng = random.Random((int(JITTER) * 1000003 + inst) if JITTER else 0)

fault = None
spec = env.get("NLVERIF_COP_FAULT", "none")
if spec and spec != "none" and (inst == 1 or env.get("NLVERIF_COP_SECOND", "healthy") == "same"):
    try:
        step, kind, k = spec.split(":")
        fault = (step, kind, int(k))
        if step not in STEPS or kind not in PROCESS_KINDS + MESSAGE_KINDS:
            raise ValueError(spec)
    except ValueError:
        log("bad-fault-spec " + spec)
        os._exit(99)
fired = False
SIZED = None          # NLVERIF_COP_SIZED=error|result:<nbytes>:<k>: well-formed k-th reply of that size (not a fault)
if env.get("NLVERIF_COP_SIZED"):
    _m, _n, _k = env["NLVERIF_COP_SIZED"].split(":")
    SIZED = (_m, int(_n), int(_k))
served = 0            # replies written completely by this instance

try:
    with open(env["NLVERIF_COP_TABLE"]) as f:
        TABLE = {bytes.fromhex(a): bytes.fromhex(b) for a, b in json.load(f).items()}
except (KeyError, OSError, ValueError):
    TABLE = {}


def pause():
    if JITTER:
        time.sleep(rng.uniform(0, 0.002))


def raw_write(data):
    """Write to stdout; a vanished reader (EPIPE) just ends this instance - never an exception trace."""
    global stdout_open
    if not stdout_open or not data:
        return
    pieces = [data]
    if CHUNK > 0:
        pieces = [data[i:i + CHUNK] for i in range(0, len(data), CHUNK)]
    elif JITTER and len(data) > 1 and rng.random() < 0.7:
        cut = rng.randrange(1, len(data))
        pieces = [data[:cut], data[cut:]]
    try:
        for i, p in enumerate(pieces):
            if i:
                time.sleep(0.001)
            while p:
                n = os.write(1, p)
                p = p[n:]
    except OSError as ex:
        log("write-failed errno=%d" % ex.errno)
        leave(0)


def try_write(data):
    """Best effort write that never ends the process (used by the kinds that must stay alive)."""
    try:
        while data and stdout_open:
            n = os.write(1, data)
            data = data[n:]
    except OSError as ex:
        log("write-failed errno=%d (staying alive)" % ex.errno)


def hdr(typ, length, version=1):
    return struct.pack("<BBHI", version, typ, 0, length)


def send(typ, payload=b""):
    pause()
    raw_write(hdr(typ, len(payload)) + payload)


def leave(code):
    log("exit %d" % code)
    os._exit(code)


def stubborn_wait(why):
    log("staying alive: " + why)
    t_end = time.time() + 40
    while time.time() < t_end:
        time.sleep(0.2)
    leave(0)


def read_exact(n):
    """n bytes from stdin; EOF ends the instance (or is ignored by a stubborn one)."""
    b = b""
    while len(b) < n:
        try:
            c = os.read(0, n - len(b))
        except OSError:
            c = b""
        if not c:
            if STUBBORN:
                stubborn_wait("EOF")
            log("eof")
            leave(0)
        b += c
    return b


def drain_until_end():
    """Consume stdin until SHUTDOWN or EOF, answering nothing."""
    while True:
        h = read_exact(8)
        _, typ, _, ln = struct.unpack("<BBHI", h)
        if typ == SHUTDOWN:
            if STUBBORN:
                stubborn_wait("SHUTDOWN")
            log("shutdown")
            leave(0)
        if 0 < ln <= COP_MAX_PAYLOAD:
            read_exact(ln)


def close_fd(fd):
    global stdout_open
    try:
        os.close(fd)
    except OSError:
        pass
    log("closed fd %d" % fd)          # "closed fd 1": this instance can never send anything again
    if fd == 1:
        stdout_open = False


def bad_message(kind, typ, payload):
    """The complete bad message standing in for a message (typ, payload)."""
    other = b"\x01" + struct.pack("<q", 7777777)         # a well-formed value nobody asked for: a VM that
    if kind == "wrong_version":                          # swallows the bad message shows it in its output
        body = other if typ == RESULT else payload
        return hdr(typ, len(body), version=2) + body
    if kind == "wrong_type":
        return hdr(0x55, len(other)) + other
    if kind == "len_over_max":
        return hdr(typ, COP_MAX_PAYLOAD + 1) + payload
    if kind == "bad_tag":
        body = b"\xee" + struct.pack("<q", 7777777)
    elif kind == "array_huge":
        body = b"\x07\x01" + struct.pack("<I", 0xFFFFFFFF)
    elif kind == "string_over":
        body = b"\x05" + struct.pack("<I", 1000) + b"abcd"
    elif kind == "string_len_max":       # complete message; pos + len wraps around 2^32 in a 32 bit bounds check
        body = b"\x05" + struct.pack("<I", 0xFFFFFFFF) + b"abcd"
    elif kind == "array_huge_elem":      # count 2^32-1 followed by ONE well-formed element
        body = b"\x07\x01" + struct.pack("<I", 0xFFFFFFFF) + b"\x01" + struct.pack("<q", 5)
    elif kind == "deep_nesting":         # DEEP one-element arrays of arrays around one int
        body = (b"\x07\x07" + struct.pack("<I", 1)) * (DEEP - 1) + b"\x07\x01" + struct.pack("<I", 1) \
            + b"\x01" + struct.pack("<q", 5)
    else:
        raise ValueError(kind)
    return hdr(typ, len(body)) + body


def fire(typ, payload, already=0, pending=False):
    """Inject the fault.  (typ, payload) is the message that would be correct here; `already` bytes of the
    payload are on the wire (mid_reply); `pending` = the VM is blocked waiting for this message.
    Returns only for message kinds that keep serving."""
    global fired
    fired = True
    step, kind, k = fault
    pause()
    log("fault-fired %s:%s:%d" % fault)
    if kind == "exit0":
        os._exit(0)
    if kind == "exit1":
        os._exit(1)
    if kind == "kill":
        os.kill(PID, signal.SIGKILL)
        time.sleep(5)
        os._exit(98)
    if kind == "close_stdin":
        close_fd(0)
        time.sleep(0.3)
        leave(0)
    if kind == "close_both":
        close_fd(0)
        close_fd(1)
        time.sleep(0.3)
        leave(0)
    if kind == "close_stdout":
        close_fd(1)
        drain_until_end()
    if kind == "close_stdin_alive":
        close_fd(0)
        if pending:
            try_write(payload[already:] if already else hdr(typ, len(payload)) + payload)
            log("pending message completed")
        else:
            # post_ready / post_reply: the VM's next request may have been written just before the close.
            # It is lost with the pipe; so that the VM is not left waiting on a live, silent peer the
            # answer to that request (by position in the table) is sent unsolicited a little later.
            time.sleep(0.15)
            vals = list(TABLE.values())
            if served < len(vals):
                try_write(hdr(RESULT, len(vals[served])) + vals[served])
                log("unsolicited answer %d" % (served + 1))
        stubborn_wait("stdin closed by myself")
    if kind == "close_stdout_alive":
        close_fd(1)
        stubborn_wait("stdout closed by myself")
    if kind == "close_both_alive":
        close_fd(0)
        close_fd(1)
        stubborn_wait("both closed by myself")
    if kind == "short_header":
        # mid_reply: the header is already complete, the truncation then falls into the payload
        if not already:
            raw_write(hdr(typ, len(payload))[:3])
        close_fd(1)
        drain_until_end()
    if kind == "short_payload":
        if not already:
            announced = len(payload) if payload else 8
            raw_write(hdr(typ, announced) + payload[:len(payload) // 2] + (b"" if payload else b"\x01\x02\x03"))
        close_fd(1)
        drain_until_end()
    raw_write(bad_message(kind, typ, payload))


def hit(step, k=None):
    return (fault is not None and not fired and fault[0] == step and (k is None or fault[2] == k))


def lookup(payload):
    return TABLE.get(payload[6:])


def main():
    global served
    nreq = 0
    if hit("pre_ready", 1):
        fire(READY, b"", pending=True)
    while True:
        h = read_exact(8)
        ver, typ, _, ln = struct.unpack("<BBHI", h)
        if ver != 1 or ln > COP_MAX_PAYLOAD:
            log("bad-header-from-vm %s" % h.hex())
            leave(3)
        if typ == INIT:
            replaced = False
            if hit("pre_ready", 2):
                fire(READY, b"", pending=True)
                replaced = True
            read_exact(ln)
            log("init %d" % ln)
            if hit("pre_ready", 3):
                fire(READY, b"", pending=True)
                replaced = True
            if fired and fault[0] == "pre_ready":
                replaced = True
            if not replaced:
                send(READY)
                log("ready")
            if hit("post_ready"):
                fire(RESULT, b"\x01" + struct.pack("<q", 0))
        elif typ == REQ:
            nreq += 1
            if hit("on_req", nreq):
                # the request payload is still unread: the answer that would be correct is taken from the
                # table by position (the test programs make their calls in table order)
                vals = list(TABLE.values())
                fire(RESULT, vals[nreq - 1] if nreq <= len(vals) else b"\x01" + struct.pack("<q", 0), pending=True)
            payload = read_exact(ln)
            value = lookup(payload)
            log("req %d %s" % (nreq, "known" if value is not None else "UNKNOWN " + payload.hex()))
            if value is None:
                send(ERROR, b"fake_nano_cop: request not in table")
                continue
            if SIZED and inst == 1 and nreq == SIZED[2]:
                # a WELL-FORMED reply of a chosen size: error text / string result of n bytes
                n = SIZED[1]
                text = bytes(97 + (i % 26) for i in range(n))
                log("fault-fired sized-%s:%d:%d" % SIZED)
                if SIZED[0] == "error":
                    send(ERROR, text)
                else:
                    send(RESULT, b"\x05" + struct.pack("<I", n) + text)
                served = nreq
                log("reply %d" % nreq)
                continue
            if hit("pre_reply", nreq):
                fire(RESULT, value, pending=True)
                continue
            if hit("mid_reply", nreq):
                half = max(1, len(value) // 2)
                pause()
                raw_write(hdr(RESULT, len(value)) + value[:half])
                fire(RESULT, value, already=half, pending=True)
                continue
            send(RESULT, value)
            served = nreq
            log("reply %d" % nreq)
            if hit("post_reply", nreq):
                fire(RESULT, b"\x01" + struct.pack("<q", 0))
        elif typ == SHUTDOWN:
            if STUBBORN:
                stubborn_wait("SHUTDOWN")
            log("shutdown")
            leave(0)
        else:
            if ln:
                read_exact(ln)


try:
    main()
except SystemExit:
    raise
except BaseException as ex:          # never leave a traceback-printing zombie behind
    log("internal-error %r" % (ex,))
    os._exit(97)
