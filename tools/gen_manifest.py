#!/usr/bin/python3
"""Regenerates /verif/MANIFEST.json from the table below (checks that exist under nlv/checks are claimed,
the others are listed under not_applicable with the reason given here)."""
import json
import os
import subprocess

V = os.path.dirname(os.path.dirname(os.path.abspath(__file__)))

CHECKS = {
    "C01": dict(cat="exploration", tech="differential execution monitor: native binary vs NanoVM on generated programs, census cells, builtin boundary tables, hashmap growth tables and hash-colliding strings (runtime monitoring)",
                text="Differential monitor over executions of the real nanoc-built binary and nano_virt --run on seeded, type-directed generated programs (accepted by an independent reference model first); byte comparison of stdout and exit status. Exploration: held on the programs run, covering the feature sets listed in the evidence.",
                note="Trusts the program generator's well-typedness and the reference model's filter for partial operations; fastcc substitutes pre-compiled runtime objects of identical sources (cross-checked against the unwrapped cc on a sample).", ref="§4 C01"),
    "C02": dict(cat="exploration", tech="reference-model monitor (executable spec transcription) + exhaustive operator/boundary, operator-grouping, builtin-boundary and hashmap tables on both engines",
                text="Every observation of the native binary and of the VM is compared with an independent Python transcription of SPECIFICATION.md §4-§8 (and of formal/Semantics.v on functions labelled verified); the operator x boundary-value table is enumerated completely.",
                note="The reference evaluator and the NanoCore transcription are trusted (hand transcription; no Coq/OCaml toolchain in the image).", ref="§4 C02"),
    "C03": dict(cat="exploration", tech="differential monitor: compile-time evaluator output per shadow block vs the compiled binary's output for the same calls (generated programs, census cells, grouping / builtin / hashmap tables)",
                text="Sentinel-delimited output of the tree-walking evaluator (nanoc --verbose) is compared with the shipped binary and the reference model on generated programs.",
                note="Trusts the sentinel protocol and the reference model.", ref="§4 C03"),
    "C04": dict(cat="exploration", tech="stage/termination classifier over executions of accepted generated programs, declaration-order and global-initialiser families, census cells and a fixed corpus of accepted mutants",
                text="Every program the type checker accepts is pushed through both backends; a classifier over exit status, signal and stderr class decides 'stuck' vs normal/documented fault.",
                note="'Accepted' is observed from the tools' own output; non-terminating accepted mutants are cut by VM fuel/CPU limit and skipped.", ref="§4 C04"),
    "C05": dict(cat="fault_enumeration", tech="rule x context x tool rejection table executed against the real compilers",
                text="A catalogue of single-point rule violations (ill-formed by construction) is instantiated in every syntactic context and run through nanoc, nano_virt --run and --emit-nvm; exit status, diagnostic, artifact and program output are observed.",
                note="Mutants are ill-formed by construction w.r.t. the documented static rules; known over-acceptance cells are listed individually in known_findings.json.", ref="§4 C05"),
    "C06": dict(cat="exploration", tech="gate monitor: nanoc exit/artifact/report vs reference truth values of shadow assertions (generated programs, control-flow grid, name grid for the missing-shadow report)",
                text="Generated programs with model-computed truth values for every shadow assertion; nanoc must produce a binary iff all are true, name the failing test, and report functions without shadow blocks.",
                note="Truth values come from the reference model.", ref="§4 C06"),
    "C07": dict(cat="exploration", tech="bytecode identity monitor for prefix vs infix spellings of generated expression trees (exhaustive at depth <= 3)",
                text="The same expression tree is printed in both notations, compiled with nano_virt --emit-nvm and the code/function/string sections compared byte-wise; both are also run.",
                note="Trusts the two pretty printers; exhaustive over operator pairs/triples, sampled beyond.", ref="§4 C07"),
    "C08": dict(cat="fault_enumeration", tech="out-of-range grid executed under ASan/UBSan on three engines (VM, native, evaluator)",
                text="Every cell of lengths x indices x operations x element kinds is executed one per process; the access must end the run with non-zero status, no later output and no sanitizer report.",
                note="In-range controls guard against vacuity; field/variant cases are driven through assembler text.", ref="§4 C08"),
    "C09": dict(cat="exploration", tech="sanitizer fuzzing of the front end (ASan/UBSan build) with CPU budget and parser progress monitor",
                text="Byte-, token- and depth-mutated inputs through the asan build of nano_virt --emit-nvm; signals, sanitizer reports, exit status outside {0,1}, the no-progress hook and CPU budget are the observed events.",
                note="Termination is restated as a CPU budget plus a progress counter; stack findings are re-confirmed on the plain build.", ref="§4 C09"),
    "C10": dict(cat="exploration", tech="in-process serialise/deserialise comparator probe + three-way CLI differential (nano_vm file / wrapper / --run)",
                text="A probe links the repository's front end and compares the in-memory module field by field with its round trip; the three ways of running a module are compared on stdout and exit status.",
                note="Trusts the probe's field list (taken from nvm_format.h).", ref="§4 C10"),
    "C11": dict(cat="exploration", tech="exhaustive codec table probe under ASan + assemble(disassemble(m)) round-trip monitor",
                text="All 256 opcode bytes x operand slots x boundary patterns and all truncation lengths through the real isa_encode/isa_decode; every corpus module through disasm_module/asm_assemble with field-wise comparison.",
                note="Operand byte layout expectation is computed independently by the probe (little-endian).", ref="§4 C11"),
    "C12": dict(cat="fault_enumeration", tech="exhaustive bit-flip / burst / truncation / tail fault injection against the real loader under ASan (probe + nano_vm CLI + private nano_vmd before/after it served the intact file), also on modules forged to special checksum values",
                text="Every single-bit flip of every body bit and every truncation length of each compiler-produced module, sampled bursts, tails and magic/version bits are applied and handed to the real nvm_deserialize (ASan+UBSan); a stratified sample goes through nano_vm. Refusal and absence of program output are observed for each fault.",
                note="Probe links the repository's own objects; modules come from the repository's programs and synthetic ones; bursts are sampled, not exhaustive.", ref="§4 C12"),
    "C13": dict(cat="exploration", tech="structure-aware bytecode fuzzing of loader -> verifier -> VM under ASan/UBSan with instruction budget (hook H1)",
                text="Mutated, re-checksummed modules and raw byte strings through nvm_deserialize, nvm_verify and vm_execute with fuel; sanitizer reports, signals, and decode errors on verifier-walked paths are the observed events.",
                note="Termination of the VM is restated as 'within the fuel budget'; signed overflow is not in the UBSan set (the VM wraps by design).", ref="§4 C13"),
    "C14": dict(cat="exploration", tech="invariant hook: heap registry + in-degree and orphan audit at instruction boundaries (hooks H2, H2c) under ASan + live-object growth on churn families",
                text="refcount >= in-degree and 'reachable => registered' are asserted at instruction boundaries of aliasing-heavy generated programs; churn programs bound live-object growth.",
                note="Audit walks roots and containers as listed in DESIGN; intern table is weak.", ref="§4 C14"),
    "C15": dict(cat="exploration", tech="differential monitor in-process vs co-process FFI + codec round-trip probe under ASan",
                text="Programs calling externs are run with and without --isolate-ffi and compared; the two codec functions are round-tripped on generated values with every short buffer size.",
                note="nano_cop of the same flavor first on PATH.", ref="§4 C15"),
    "C16": dict(cat="fault_enumeration", tech="scripted co-process stand-in injecting one fault per protocol step; outcome classifier + orphan scan",
                text="Exhaustive product of protocol steps x fault kinds against the real nano_vm --isolate-ffi (plain and asan); exit class, signal, intact output prefix and leftover processes are observed.",
                note="The stand-in speaks the real wire protocol; silent-but-alive peers are outside the property's list.", ref="§4 C16"),
    "C17": dict(cat="exploration", tech="concurrent clients vs standalone differential under ThreadSanitizer with barrier release and injected yields (hook H3)",
                text="A private TSan daemon serves barrier-released and jittered clients; each client's bytes, error text and exit status must equal the standalone run; TSan reports are collected and de-duplicated.",
                note="Only interleavings the scheduler produced are covered; absence of a TSan report is not race freedom.", ref="§4 C17"),
    "C18": dict(cat="fault_enumeration", tech="hostile client behaviour sequences, descriptor exhaustion (rlimit) and injected accept() failures (strace) against a private ASan daemon; liveness (PING) and well-formed-client differential after each",
                text="Sampled sequences over the malformed/abandoned-session alphabet interleaved with well-formed clients; daemon alive, PING answered, well-formed results equal standalone, no ASan report.",
                note="SHUTDOWN excluded from the alphabet; infinite loops cut by fuel hook.", ref="§4 C18"),
    "C19": dict(cat="exploration", tech="configuration-pair output hashing + valgrind memcheck for uninitialised bytes reaching write(2)",
                text="The same sources are compiled under differing cwd/env/TMPDIR/ASLR/MALLOC_PERTURB_/path spelling; .nvm and .genC bytes and normalised diagnostics must be equal; memcheck watches output syscalls.",
                note="Only the listed configuration dimensions are varied.", ref="§4 C19"),
    "C20": dict(cat="exploration", tech="ASan/UBSan-instrumented native programs + traced runtime container histories checked offline against a list/refcount model",
                text="Generated programs compiled with the sanitized runtime must run report-free with model-equal output; seeded dyn_array/gc histories are replayed against a Python list model.",
                note="Arithmetic kept in range (overflow unspecified).", ref="§4 C20"),
}


# checks that have passed the silence soak and are registered (the others are still being built)
READY = ["C01", "C02", "C03", "C04", "C05", "C06", "C07", "C08", "C09", "C10", "C11", "C12", "C13", "C14", "C15", "C16", "C17", "C18", "C19", "C20"]


def main():
    props = [json.loads(l)["id"] for l in open(os.path.join(V, "properties.jsonl"))]
    hooks = subprocess.run("git -C /repo log --format=%H --grep='^verif hook' --reverse", shell=True,
                           capture_output=True, text=True).stdout.split()
    checks, na = [], []
    na_reasons = {}
    p = os.path.join(V, "tools", "not_applicable.json")
    if os.path.exists(p):
        na_reasons = json.load(open(p))
    for pid in props:
        c = CHECKS[pid]
        if pid in READY and os.path.exists(os.path.join(V, "nlv", "checks", pid.lower() + ".py")) and pid not in na_reasons:
            checks.append({
                "property_id": pid,
                "quick_cmd": "./check %s --tier quick" % pid,
                "thorough_cmd": "./check %s --tier thorough" % pid,
                "evidence_file": "/verif/evidence/%s.json" % pid,
                "replay_cmd_template": "./check %s --replay {path}" % pid,
                "engine": "nlv",
                "level_claimed": {"category": c["cat"], "text": c["text"], "design_ref": "DESIGN.md " + c["ref"]},
                "level_note": c["note"],
                "technique": c["tech"],
            })
        else:
            na.append({"property_id": pid, "reason": na_reasons.get(pid, "check not built yet (framework under construction); it will be claimed when its check lands")})
    m = {
        "version": 1,
        "setup_cmd": "python3 -m compileall -q nlv >/dev/null 2>&1; command -v gcc >/dev/null && command -v python3 >/dev/null && command -v make >/dev/null",
        "hooks": {
            "guard": "NANOLANG_VERIF",
            "enable": "nlv/build.py copies /repo's working tree and builds it with -DNANOLANG_VERIF added to CFLAGS (flavors plain/asan/tsan)",
            "baseline_off_cmd": "make -C /repo -f Makefile.gnu test-nanovirt",
            "source_commits": hooks,
            "add_only": True,
        },
        "engines": [{"name": "nlv", "path": "/verif/check", "serves_properties": [c["property_id"] for c in checks],
                     "kind_free_text": "python3 (stdlib only) runtime-monitoring framework: builds sanitizer flavors of /repo, drives workloads, runs oracles over observed executions"}],
        "checks": checks,
        "not_applicable": na,
        "notes": "Runtime monitoring and sanitizers only. Exit codes: 0 held on what was explored, 1 violation (VIOLATION line), 2 inconclusive/harness failure. See DESIGN.md.",
    }
    with open(os.path.join(V, "MANIFEST.json"), "w") as f:
        json.dump(m, f, indent=1)
        f.write("\n")
    print("claimed:", [c["property_id"] for c in checks])


if __name__ == "__main__":
    main()
