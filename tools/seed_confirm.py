#!/usr/bin/python3
"""tools/seed_confirm.py <ID> <variant-dir> [--tier quick] [--check ID2 ...]
Confirms a seeded change delivered by an independent sub-agent and runs our check(s) against it:
  1. scratch worktree of /repo HEAD, `git apply patch.diff`, build, `make test-nanovirt` must pass;
  2. demo.sh must FAIL on the changed tree and PASS on a clean tree;
  3. ./check <ID> (and any extra --check ids) with NLVERIF_REPO pointing at the changed tree.
Stores patch, demo and meta.json under /verif/seeded/<id>_<name>/ .  /repo itself is never touched."""
import json, os, re, shutil, subprocess, sys, tempfile, time

V = os.path.dirname(os.path.dirname(os.path.abspath(__file__)))


def sh(cmd, cwd=None, timeout=3600, env=None):
    r = subprocess.run(cmd, shell=True, cwd=cwd, capture_output=True, text=True, timeout=timeout, env=env)
    return r.returncode, (r.stdout + r.stderr)


def worktree():
    wt = tempfile.mkdtemp(prefix="nlv-seed-", dir="/var/tmp")
    os.rmdir(wt)
    subprocess.run(["git", "-C", "/repo", "worktree", "add", "-q", "--detach", wt, "HEAD"], check=True)
    return wt


def drop(wt):
    subprocess.run(["git", "-C", "/repo", "worktree", "remove", "--force", wt], capture_output=True)
    shutil.rmtree(wt, ignore_errors=True)
    shutil.rmtree(os.path.join("/var/tmp/nlverif/alt-evidence", os.path.basename(wt)), ignore_errors=True)


def build(wt):
    return sh("make -j8 -f Makefile.gnu bin/nanoc_c vm CC=gcc 2>&1 | tail -5; test -x bin/nano_virt && test -x bin/nanoc_c && (test -e bin/nanoc || ln -s nanoc_c bin/nanoc)", cwd=wt)


def main():
    pid, src = sys.argv[1].upper(), os.path.abspath(sys.argv[2])
    tier = "quick"
    checks = [pid]
    a = sys.argv[3:]
    while a:
        if a[0] == "--tier":
            tier = a[1]; a = a[2:]
        elif a[0] == "--check":
            checks.append(a[1].upper()); a = a[2:]
        else:
            a = a[1:]
    base = os.path.basename(src.rstrip("/"))
    name = base if base.startswith(pid.lower() + "_") else "%s_%s" % (pid.lower(), base)
    dst = os.path.join(V, "seeded", name)
    meta = {"property": pid, "source": "independent sub-agent given only the property text and a scratch worktree", "ran": []}
    notes = os.path.join(src, "NOTES.md")
    if os.path.exists(notes):
        meta["needs_to_manifest"] = open(notes).read()[:3000]
    wt = worktree()
    clean = worktree()
    try:
        APPLY = "git apply %s 2>/dev/null || patch -p1 -F3 -s --no-backup-if-mismatch < %s" % ((os.path.join(src, "patch.diff"),) * 2)
        rc, out = sh(APPLY, cwd=wt)
        meta["patch_applies"] = rc == 0
        if rc != 0:
            print("patch does not apply:", out)
            meta["confirmed"] = False
        else:
            rc, out = build(wt)
            meta["builds"] = rc == 0
            rc2, out2 = sh("make -f Makefile.gnu test-nanovirt CC=gcc 2>&1 | tail -3", cwd=wt)
            m = re.search(r"(\d+) passed, (\d+) failed", out2)
            meta["suite"] = m.group(0) if m else out2[-200:]
            suite_ok = bool(m) and m.group(2) == "0" and int(m.group(1)) >= 61
            build(clean)
            t0 = time.time()
            d1, o1 = sh("bash ./demo.sh %s" % wt, cwd=src, timeout=3600)
            d0, o0 = sh("bash ./demo.sh %s" % clean, cwd=src, timeout=3600)
            meta["demo_changed_exit"] = d1
            meta["demo_clean_exit"] = d0
            meta["demo_tail_changed"] = o1[-600:]
            meta["ran"].append("demo.sh on changed tree -> exit %d; on clean tree -> exit %d (%.0fs)" % (d1, d0, time.time() - t0))
            meta["confirmed"] = bool(meta["builds"] and suite_ok and d1 != 0 and d0 == 0)
            print("confirmed=%s builds=%s suite=%s demo changed=%d clean=%d" % (meta["confirmed"], meta["builds"], meta["suite"], d1, d0))
            sh("git checkout -- . ; git clean -fdq -e bin -e obj", cwd=wt)
            sh(APPLY, cwd=wt)
            meta["checks"] = {}
            for c in checks:
                t0 = time.time()
                env = dict(os.environ, NLVERIF_REPO=wt)
                r = subprocess.run([os.path.join(V, "check"), c, "--tier", tier], cwd=V, capture_output=True, text=True, env=env, timeout=7200)
                if r.returncode == 2:       # inconclusive (watchdog / load): re-run once before believing it
                    r = subprocess.run([os.path.join(V, "check"), c, "--tier", tier], cwd=V, capture_output=True, text=True, env=env, timeout=7200)
                keys = re.findall(r"^  key: (.*)$", r.stdout, re.M)
                res = "caught" if r.returncode == 1 else "inconclusive" if r.returncode == 2 else "MISSED"
                meta["checks"][c] = {"tier": tier, "exit": r.returncode, "result": res, "keys": keys[:8], "wall_s": round(time.time() - t0)}
                meta["ran"].append("NLVERIF_REPO=<changed tree> ./check %s --tier %s -> exit %d (%s)" % (c, tier, r.returncode, res))
                print("check %s: %s %s" % (c, res, keys[:3]))
    finally:
        drop(wt)
        drop(clean)
    os.makedirs(dst, exist_ok=True)
    for fn in ([] if os.path.abspath(src) == os.path.abspath(dst) else os.listdir(src)):
        p = os.path.join(src, fn)
        if os.path.isfile(p) and os.path.getsize(p) < 2 << 20:
            shutil.copy(p, os.path.join(dst, fn))
        elif os.path.isdir(p):
            shutil.copytree(p, os.path.join(dst, fn), dirs_exist_ok=True)
    old = {}
    mp = os.path.join(dst, "meta.json")
    if os.path.exists(mp):
        old = json.load(open(mp))
        # keep the earlier verdicts: a MISSED followed by a caught (after the check was extended) is part of the record
        hist = old.get("history", [])
        if old.get("checks"):
            hist.append({"earlier_run": old["checks"]})
        meta["history"] = hist
        oc = dict(old.get("checks", {}))
        oc.update(meta.get("checks", {}))
        meta["checks"] = oc
    json.dump(meta, open(mp, "w"), indent=1)


if __name__ == "__main__":
    main()
