#!/usr/bin/python3
"""Development aid: run the census on the current tree and print the (feature x engine) table."""
import os, sys, re
sys.path.insert(0, os.path.dirname(os.path.dirname(os.path.abspath(__file__))))
from nlv import build, census, engines
from nlv.run import pmap, Scratch
plain = build.get("plain")
def seg(t):
    m = re.search(r'<<S\n(.*?)>>E\n', t, re.S); return m.group(1) if m else None
with Scratch("census") as sc:
    def one(name):
        text, exp = census.program(name)
        o = engines.observe(plain, sc.sub(name), census.files(name), verbose=True)
        I = seg(o.nanoc.text())
        N = seg(o.native.text()) if o.native else "nanoc:" + engines.classify_nanoc_failure(o.nanoc)
        V = seg(o.vm.text()) if o.vm.rc == 0 else "rc=%s %s" % (o.vm.status, o.vm.errtext().strip().splitlines()[-1][:50] if o.vm.errtext().strip() else "")
        return name, exp, I, N, V
    for name, exp, I, N, V in pmap(one, list(census.F)):
        def s(x): return "ok" if x == exp else repr(x)[:40]
        print("%-26s I=%-42s N=%-42s V=%s" % (name, s(I), s(N), s(V)))
