#!/usr/bin/python3
"""Development aid: generate N programs, run native + VM, classify (not a registered check)."""
import os, sys, random, collections, re
sys.path.insert(0, os.path.dirname(os.path.dirname(os.path.abspath(__file__))))
from nlv import build
from nlv.run import run as sh, pmap, Scratch
from nlv.gen import gen

def clean(t):
    ls = [l for l in t.splitlines() if l.strip() and not l.startswith("Warning") and "Unused variable" not in l]
    return " | ".join(ls[-3:])[:240]

def main():
    a, b = int(sys.argv[1]), int(sys.argv[2])
    feats = {}
    for kv in sys.argv[3:]:
        k, v = kv.split("=")
        feats[k] = v == "1"
    plain = build.get("plain")
    keep = os.environ.get("KEEP")
    with Scratch("trygen") as sc:
        def one(seed):
            prog, exp = gen.make_program(random.Random(seed), feats)
            if prog is None:
                return seed, "nogen", "", None
            d = sc.sub("p%d" % seed)
            for fn, text in prog.files().items():
                open(os.path.join(d, fn), "w").write(text)
            c = sh([plain.nanoc, "main.nano", "-o", "main.bin"], cwd=d, env=plain.fastcc_env(), cpu=60)
            if c.rc != 0:
                err = c.errtext() + c.text()
                cls = "cc" if "C compilation failed" in err else "shadow" if "hadow test" in err and "FAILED" in err else "type" if "ype check" in err else "other"
                m = re.search(r"error: (.*)", err)
                return seed, "nanoc-fail:" + cls, (m.group(1) if m else clean(err)), prog
            n = sh(["./main.bin"], cwd=d, cpu=10)
            v = sh([plain.nano_virt, "main.nano", "--run"], cwd=d, cpu=10)
            tag = []
            if n.text() != exp["stdout"] or n.status != exp["exit"]:
                tag.append("native!=ref")
            if v.text() != exp["stdout"] or v.status != exp["exit"]:
                tag.append("vm!=ref")
            info = ""
            if tag:
                el = exp["stdout"].splitlines()
                for nm, got in (("N", n), ("V", v)):
                    gl = got.text().splitlines()
                    for i in range(max(len(el), len(gl))):
                        if i >= len(el) or i >= len(gl) or el[i] != gl[i]:
                            info += " %s@%d exp=%r got=%r rc=%s/%s err=%s;" % (nm, i, el[i] if i < len(el) else None, gl[i] if i < len(gl) else None, got.status, exp["exit"], clean(got.errtext()))
                            break
                    else:
                        if got.status != exp["exit"]:
                            info += " %s rc=%s exp=%s err=%s;" % (nm, got.status, exp["exit"], clean(got.errtext()))
            return seed, ",".join(tag) or "ok", info, prog
        res = collections.Counter(); ex = collections.defaultdict(list)
        for seed, tag, info, prog in pmap(one, range(a, b)):
            res[tag] += 1; ex[tag].append((seed, info))
            if keep and tag != "ok" and prog is not None:
                os.makedirs(keep, exist_ok=True)
                for fn, text in prog.files().items():
                    open(os.path.join(keep, "s%d_%s" % (seed, fn)), "w").write(text)
        for k, v in res.most_common():
            print(k, v)
            for s, i in v and ex[k][:6]:
                print("    seed", s, i[:400])
main()
