#!/usr/bin/python3
"""C05 aid: (re)generate findings/C05/known.json, findings/C05/bases/ and findings/C05/cells/ from dumps of the check.

  NLV_C05_ALL=1 NLV_C05_DUMP=all.jsonl ./check C05 --tier quick        every candidate site of the hand-written bases
  NLV_C05_DUMP=tN.jsonl VERIF_SEED=N ./check C05 --tier thorough       (a few seeds: sites in generated bases)
  tools/c05_known.py all.jsonl t1.jsonl ...

Every failing (rule, context, tool, outcome class) becomes one entry; its witness is a unified diff of the
mutant against one of the rendered base programs in findings/C05/bases/.  Look at the table before running
this: an entry is only a finding if the mutant really is ill-formed and the tool really accepts it.
"""
import difflib
import json
import os
import sys

VERIF = os.path.dirname(os.path.dirname(os.path.abspath(__file__)))
sys.path.insert(0, VERIF)
from nlv.checks import c05

BAD = c05.BAD
DROPPED_VARIANTS = {"for variable after loop"}     # catalogue entries removed after the dumps were taken
OUT = os.path.join(VERIF, "findings", "C05")


def main():
    bases = {n: c05.Base(n, t) for n, t in c05.HAND_BASES}
    bases["b6"] = c05.Base("b6", c05.returns_base(False))
    bases["b7"] = c05.Base("b7", c05.returns_base(True))
    bases["b8"] = c05.Base("b8", c05.B8)
    bases["b9"] = c05.Base("b9", c05.B9, tools=["virt-run", "virt-emit"])
    for ib in c05.import_bases(c05.HAND_BASES):
        bases[ib.name] = ib
    import shutil
    shutil.rmtree(os.path.join(OUT, "bases"), ignore_errors=True)
    shutil.rmtree(os.path.join(OUT, "cells"), ignore_errors=True)
    os.makedirs(os.path.join(OUT, "bases"), exist_ok=True)
    os.makedirs(os.path.join(OUT, "cells"), exist_ok=True)
    for n, b in bases.items():
        if b.imp is not None:
            continue            # import-context bases: written only when a finding needs them (see below)
        with open(os.path.join(OUT, "bases", n + ".nano"), "w") as f:
            f.write(b.render())
    found = {}      # key -> (count, total, example mutant record, obs index)
    totals = {}
    for p in sys.argv[1:]:
        for l in open(p):
            m = json.loads(l)
            if m["variant"] in DROPPED_VARIANTS:
                continue
            for i, o in enumerate(m["obs"]):
                # dumps taken before run-time messages of the VM stopped counting as diagnostics
                if o["tool"] == "virt-run" and o["cls"] == "diagnosed-but-built" and o["diag"] and o["diag"][0].startswith("runtime error:"):
                    o["cls"] = "silently-built"
                    o["diag"] = []
                ck = (m["rule"], m["context"], o["tool"])
                totals[ck] = totals.get(ck, 0) + 1
                if o["cls"] not in BAD:
                    continue
                k = ck + (o["cls"],)
                cur = found.get(k)
                better = cur is None or (cur[1]["kind"] != "hand" and m["kind"] == "hand")
                found[k] = [(cur[0] if cur else 0) + 1, m if better else cur[1], i if better else cur[2]]
    # witnesses: one diff per (rule, context), covering the example of the first failing key of that pair
    entries = []
    written = {}
    for k in sorted(found):
        rule, context, tool, cls = k
        n, m, i = found[k]
        o = m["obs"][i]
        wname = None
        if m["kind"] == "hand":
            wkey = (rule, context, m["base"], json.dumps(m["mut"]))
            if wkey not in written:
                b = bases[m["base"]]
                if b.imp is not None:       # multi-file base: keep all its files next to each other
                    bd = os.path.join(OUT, "bases", m["base"].replace("+", "_"))
                    os.makedirs(bd, exist_ok=True)
                    for fn, text in b.files().items():
                        with open(os.path.join(bd, fn), "w") as f:
                            f.write(text)
                mut = m["mut"]
                mut = tuple(mut)
                a = b.render().split("\n")
                c = b.render(mut).split("\n")
                idx = len([w for w in written if w[0] == rule and w[1] == context])
                wname = "cells/%s__%s%s.diff" % (rule, context.replace("@", "_at_"), "" if idx == 0 else "_%d" % idx)
                with open(os.path.join(OUT, wname), "w") as f:
                    f.write("# C05 witness: rule '%s' in context '%s' (catalogue variant: %s)\n" % (rule, context, m["variant"]))
                    f.write("# make the program:  patch -o p.nano findings/C05/bases/%s.nano findings/C05/%s\n" % (m["base"], wname))
                    for oo in m["obs"]:
                        f.write("# %-40s -> %s (exit %s%s%s)%s\n" % (c05.CMD[oo["tool"]], oo["cls"], oo["rc"],
                                ", file written" if oo["art"] else "", ", program ran" if oo["marker"] else "",
                                " diagnostic: " + oo["diag"][0][:100] if oo["diag"] else ""))
                    f.write("\n".join(difflib.unified_diff(a, c, "bases/%s.nano" % m["base"], "p.nano", lineterm="", n=2)) + "\n")
                written[wkey] = wname
            wname = written[wkey]
        elif m.get("files"):
            # only seen in a generated base: keep the whole program
            d = "cells/%s__%s__%s_gen" % (rule, context.replace("@", "_at_"), tool)
            os.makedirs(os.path.join(OUT, d), exist_ok=True)
            for fn, text in m["files"].items():
                with open(os.path.join(OUT, d, fn), "w") as f:
                    f.write(text)
            wname = d + "/p.nano"
        new = " // ".join(m["new"])[:120] if m["new"] else "deleted: " + " // ".join(m["old"])[:100]
        what = "rule '%s' in context '%s': `%s` %s (%s; %s) e.g. `%s` in base %s line %d [%d of %d sites of the full site pool]" % (
            rule, context, c05.CMD[tool], cls,
            "exit %s%s%s" % (o["rc"], ", output file written" if o["art"] else "", ", program output" if o["marker"] else ""),
            "diagnostic '%s'" % o["diag"][0][:70] if o["diag"] else "no diagnostic",
            new, m["base"], m["line"], n, totals[(rule, context, tool)])
        entries.append({"property": "C05", "key": "cell|%s|%s|%s|%s" % k, "what": what,
                        "witness": "findings/C05/" + (wname or "bases")})
    with open(os.path.join(OUT, "known.json"), "w") as f:
        json.dump({"open": entries, "fixed": []}, f, indent=1)
        f.write("\n")
    print("%d open entries, %d witness diffs" % (len(entries), len(written)))


main()
