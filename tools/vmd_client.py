"""Python client for the nano_vmd wire protocol (src/nanovm/vmd_protocol.h), used by C17 and C18.

Wire format: 8-byte header  <version:u8=1> <type:u8> <flags:u16le=0> <payload_len:u32le>  + payload.
client -> server: LOAD_EXEC(0x01, payload = .nvm image)  PING(0x02)  STATUS(0x03)  SHUTDOWN(0x04)
server -> client: OUTPUT(0x10) EXIT_CODE(0x11, i32le) ERROR(0x12) PONG(0x13) STATUS_RSP(0x14, "active_clients=N")

Three groups of helpers:
  * well-behaved sessions: exec_module / ping / status,
  * held sessions: `run_wave` connects N clients, sends everything but the last payload byte, and releases the last
    bytes together (barrier) or with seeded jitter, so that the daemon-side sessions overlap from the first
    instruction on; a sampler thread asks the daemon for STATUS while the wave runs,
  * misbehaving sessions for C18 (`misbehave`): header only, truncated payloads, garbage, wrong version, unknown
    type, oversized / zero length, non-module payload, disconnect after n reply bytes, slow-loris.
Also `Daemon`, a small manager that starts a private foreground daemon in a scratch directory (hook H3:
NLVERIF_VMD_DIR) and always kills it by pid / process group.

Stdlib only.  Nothing here decides a verdict; the checks do.
"""
import ctypes
import errno
import os
import resource
import signal
import socket
import struct
import subprocess
import threading
import time

try:
    _LIBC = ctypes.CDLL(None, use_errno=True)
except OSError:
    _LIBC = None

VERSION = 1
LOAD_EXEC, PING, STATUS, SHUTDOWN = 0x01, 0x02, 0x03, 0x04
OUTPUT, EXIT_CODE, ERROR, PONG, STATUS_RSP = 0x10, 0x11, 0x12, 0x13, 0x14
HEADER_SIZE = 8
MAX_PAYLOAD = 100 * 1024 * 1024          # VMD_MAX_PAYLOAD

TYPE_NAMES = {OUTPUT: "OUTPUT", EXIT_CODE: "EXIT", ERROR: "ERROR", PONG: "PONG", STATUS_RSP: "STATUS_RSP"}


def sock_path(vmd_dir):
    return os.path.join(vmd_dir, "vmd.sock")


def pid_path(vmd_dir):
    return os.path.join(vmd_dir, "vmd.pid")


def header(mtype, length, version=VERSION, flags=0):
    return struct.pack("<BBHI", version & 0xFF, mtype & 0xFF, flags & 0xFFFF, length & 0xFFFFFFFF)


def _daemon_gone(vmd_dir):
    """The pid file is missing or names a process that no longer exists (the socket file may well remain)."""
    try:
        with open(pid_path(vmd_dir)) as f:
            return not pid_alive(int(f.read().strip() or 0))
    except (OSError, ValueError):
        return True


def connect(vmd_dir, timeout=20.0):
    """Connect to the daemon's socket.  EAGAIN (listen backlog of 16 is full) is retried until `timeout`;
    ECONNREFUSED / ENOENT are retried only while the pid file names a living process (fail fast on a dead daemon)."""
    deadline = time.monotonic() + timeout
    delay = 0.002
    refused = 0
    while True:
        s = socket.socket(socket.AF_UNIX, socket.SOCK_STREAM)
        try:
            s.settimeout(max(0.05, deadline - time.monotonic()))
            s.connect(sock_path(vmd_dir))
            return s
        except (ConnectionRefusedError, FileNotFoundError, BlockingIOError, socket.timeout, InterruptedError) as ex:
            s.close()
            if isinstance(ex, (ConnectionRefusedError, FileNotFoundError)):
                refused += 1
                if refused >= 3 and _daemon_gone(vmd_dir):
                    raise ConnectionError("daemon gone (%s): %s" % (sock_path(vmd_dir), ex))
            if time.monotonic() + delay >= deadline:
                raise ConnectionError("cannot connect to %s: %s" % (sock_path(vmd_dir), ex))
            time.sleep(delay)
            delay = min(delay * 2, 0.1)
        except Exception:
            s.close()
            raise


class Reply:
    """Everything one connection received from the daemon."""
    __slots__ = ("out", "errors", "exit_code", "pong", "status", "frames", "nbytes", "eof", "partial", "timeout",
                 "reset", "bad_version", "t_release", "t_first", "t_end", "exc", "kind", "closed_by_us", "after_exit", "lost")

    def __init__(self):
        self.out = b""               # concatenation of all OUTPUT payloads (wherever they appear)
        self.errors = []             # ERROR payloads (bytes)
        self.exit_code = None        # EXIT_CODE value
        self.pong = False
        self.status = None           # STATUS_RSP payload
        self.frames = []             # (type, payload_len)
        self.nbytes = 0              # raw bytes received
        self.eof = False             # peer closed the connection
        self.partial = 0             # bytes of an incomplete frame at EOF / when we stopped
        self.timeout = False         # our wall-clock watchdog fired (inconclusive, never a verdict by itself)
        self.reset = False           # ECONNRESET / EPIPE seen
        self.bad_version = False     # a frame with version != 1 arrived
        self.t_release = None
        self.t_first = None
        self.t_end = None
        self.exc = None              # client-side exception text (connect failure ...)
        self.kind = None
        self.closed_by_us = False
        self.after_exit = 0          # frames received after the EXIT_CODE frame
        self.lost = None             # set by run_wave's monitor: the daemon itself reported that it serves no such session

    def err_text(self):
        """What `nano_vm --daemon` prints on stderr for these ERROR frames (vmd_client.c: "%s\\n" per frame)."""
        return b"".join(e + b"\n" for e in self.errors)

    def ended(self):
        """The session ended from the client's point of view: error reply, exit code, or closed connection."""
        return self.eof or self.reset or bool(self.errors) or self.exit_code is not None

    def active_clients(self):
        if self.status is None:
            return None
        try:
            return int(self.status.decode("ascii", "replace").split("active_clients=")[1].split()[0])
        except (IndexError, ValueError):
            return None

    def brief(self):
        return {"out_bytes": len(self.out), "out_tail": self.out[-200:].decode("utf-8", "replace"),
                "errors": [e.decode("utf-8", "replace")[:300] for e in self.errors], "exit": self.exit_code,
                "frames": len(self.frames), "eof": self.eof, "partial": self.partial, "timeout": self.timeout,
                "reset": self.reset, "exc": self.exc, "kind": self.kind}


def read_reply(s, timeout=60.0, stop_after=None, stop_at_exit=False, rep=None):
    """Read and parse frames until EOF (default), until `stop_after` raw bytes have arrived, or until the EXIT frame."""
    rep = rep or Reply()
    deadline = time.monotonic() + timeout
    buf = bytearray()
    outs = []
    seen_exit = False
    try:
        while True:
            if stop_after is not None and rep.nbytes >= stop_after:
                break
            left = deadline - time.monotonic()
            if left <= 0:
                rep.timeout = True
                break
            s.settimeout(left)
            try:
                want = 65536 if stop_after is None else max(1, min(65536, stop_after - rep.nbytes))
                d = s.recv(want)
            except socket.timeout:
                rep.timeout = True
                break
            except (ConnectionResetError, BrokenPipeError):
                rep.reset = True
                break
            except OSError as ex:
                if ex.errno in (errno.ECONNRESET, errno.EPIPE):
                    rep.reset = True
                    break
                raise
            if not d:
                rep.eof = True
                break
            now = time.monotonic()
            if rep.t_first is None:
                rep.t_first = now
            rep.nbytes += len(d)
            buf += d
            pos = 0
            while len(buf) - pos >= HEADER_SIZE:
                ver, typ, _flags, ln = struct.unpack_from("<BBHI", buf, pos)
                if ver != VERSION:
                    rep.bad_version = True
                if len(buf) - pos - HEADER_SIZE < ln:
                    break
                pl = bytes(buf[pos + HEADER_SIZE: pos + HEADER_SIZE + ln])
                pos += HEADER_SIZE + ln
                rep.frames.append((typ, ln))
                if seen_exit:
                    rep.after_exit += 1
                if typ == OUTPUT:
                    outs.append(pl)
                elif typ == ERROR:
                    rep.errors.append(pl)
                elif typ == EXIT_CODE:
                    if ln == 4:
                        rep.exit_code = struct.unpack("<i", pl)[0]
                    seen_exit = True
                    rep.t_end = now
                elif typ == PONG:
                    rep.pong = True
                elif typ == STATUS_RSP:
                    rep.status = pl
            if pos:
                del buf[:pos]
            if stop_at_exit and seen_exit:
                break
    finally:
        rep.out += b"".join(outs)
        rep.partial = len(buf)
        if rep.t_end is None:
            rep.t_end = time.monotonic()
    return rep


def _send(s, data, rep, timeout=30.0):
    """sendall that records a peer reset instead of raising (a daemon may legitimately close early)."""
    try:
        s.settimeout(timeout)
        s.sendall(data)
        return True
    except (BrokenPipeError, ConnectionResetError):
        rep.reset = True
    except socket.timeout:
        rep.timeout = True
    except OSError as ex:
        if ex.errno in (errno.EPIPE, errno.ECONNRESET):
            rep.reset = True
        else:
            raise
    return False


def _session(vmd_dir, fn, timeout):
    rep = Reply()
    try:
        s = connect(vmd_dir, min(timeout, 20.0))
    except Exception as ex:
        rep.exc = "connect: %s" % ex
        rep.t_end = time.monotonic()
        return rep
    try:
        fn(s, rep)
    except Exception as ex:                      # client-side trouble is reported, never swallowed
        rep.exc = "%s: %s" % (type(ex).__name__, ex)
    finally:
        try:
            s.close()
        except OSError:
            pass
    return rep


# ---- well-behaved sessions ------------------------------------------------------------------------------------

def exec_module(vmd_dir, blob, timeout=60.0):
    """LOAD_EXEC with the complete image; reads OUTPUT / ERROR / EXIT frames until the daemon closes."""
    def fn(s, rep):
        rep.t_release = time.monotonic()
        if _send(s, header(LOAD_EXEC, len(blob)) + blob, rep):
            read_reply(s, timeout, rep=rep)
    r = _session(vmd_dir, fn, timeout)
    r.kind = "exec"
    return r


def ping(vmd_dir, timeout=10.0):
    def fn(s, rep):
        if _send(s, header(PING, 0), rep):
            read_reply(s, timeout, rep=rep)
    r = _session(vmd_dir, fn, timeout)
    r.kind = "ping"
    return r


def status(vmd_dir, timeout=10.0):
    def fn(s, rep):
        if _send(s, header(STATUS, 0), rep):
            read_reply(s, timeout, rep=rep)
    r = _session(vmd_dir, fn, timeout)
    r.kind = "status"
    return r


# ---- held sessions: barrier / jitter release ---------------------------------------------------------------------

class Held:
    """A LOAD_EXEC session whose last payload byte is held back until release()."""

    def __init__(self, vmd_dir, blob, timeout=60.0, sock=None):
        self.blob = blob
        self.rep = Reply()
        self.rep.kind = "held-exec"
        self.timeout = timeout
        self.sock = sock if sock is not None else connect(vmd_dir, min(timeout, 30.0))
        _send(self.sock, header(LOAD_EXEC, len(blob)) + blob[:-1], self.rep, timeout)

    def release(self):
        self.rep.t_release = time.monotonic()
        return _send(self.sock, self.blob[-1:], self.rep, self.timeout)

    def collect(self):
        try:
            read_reply(self.sock, self.timeout, rep=self.rep)
        finally:
            self.close()
        return self.rep

    def close(self):
        try:
            self.sock.close()
        except OSError:
            pass


def run_wave(vmd_dir, blobs, mode="barrier", delays=None, timeout=120.0, extras=(), sample=True, preconnect=False,
             lost_grace=3.0, lost_samples=5):
    """Run len(blobs) held sessions.  mode "barrier": all last bytes are sent as soon as every connection is
    prepared; mode "jitter": session i additionally waits delays[i] seconds after the barrier.
    preconnect: all connections are made by ONE thread in a tight loop before anything is sent (they arrive at the
    daemon in the same instant and queue up in its listen backlog); otherwise every client thread connects itself.
    `extras`: callables started in their own threads at the barrier (e.g. real `nano_vm --daemon` processes).
    Returns (replies, extra_results, stats).

    stats["status_max_executing"] is a LOWER bound of the number of LOAD_EXEC sessions the daemon was serving at
    one instant: the daemon's own `active_clients` answer, minus the STATUS connection itself, minus the number
    of held connections that had not been released when the STATUS request was sent (those are counted by the
    daemon although they are only waiting for their last byte).  The sampler is the only PING/STATUS source.

    Lost sessions (logical verdict, no wall clock involved in the decision): the daemon counts a connection from the
    moment its thread starts until after it closed the socket, and it accepts connections in arrival order.  So when a
    STATUS connection made AFTER all of ours is answered, every unfinished connection of this wave must be among the
    daemon's active clients.  If the daemon reports fewer sessions than this wave still has unfinished connections,
    with the same unfinished set, in `lost_samples` consecutive answers spread over >= `lost_grace` seconds, the
    surplus connections that never received a byte are sessions the daemon has lost: they are marked (Reply.lost) and
    their sockets shut down, instead of waiting for the wall-clock watchdog."""
    n = len(blobs)
    delays = list(delays) if delays is not None else [0.0] * n
    reps = [None] * n
    helds = [None] * n
    finished = [False] * n
    xres = [None] * len(extras)
    barrier = threading.Barrier(n + len(extras) + (1 if sample else 0))
    lock = threading.Lock()
    state = {"unreleased": n, "done": 0, "extra_running": 0}
    stats = {"status_samples": 0, "status_max_active": 0, "status_max_executing": 0, "pings": 0, "pongs": 0,
             "status_failures": 0, "lost": 0, "preconnect": bool(preconnect)}
    socks = [None] * n
    pre_exc = [None] * n
    if preconnect:
        for i in range(n):
            try:
                socks[i] = connect(vmd_dir, 30.0)
            except Exception as ex:
                pre_exc[i] = ex

    def wait_barrier():
        try:
            barrier.wait(timeout=timeout)
        except threading.BrokenBarrierError:
            pass

    def client(i):
        h = None
        rep = None
        try:
            if pre_exc[i] is not None:
                raise pre_exc[i]
            h = Held(vmd_dir, blobs[i], timeout, sock=socks[i])
            helds[i] = h
        except Exception as ex:
            rep = Reply()
            rep.kind = "held-exec"
            rep.exc = "prepare: %s" % ex
        wait_barrier()
        try:
            if h is not None:
                if mode == "jitter" and delays[i] > 0:
                    time.sleep(delays[i])
                h.release()
                with lock:
                    state["unreleased"] -= 1
                rep = h.collect()
            else:
                with lock:
                    state["unreleased"] -= 1
        except Exception as ex:
            rep = h.rep if h is not None else Reply()
            rep.exc = "%s: %s" % (type(ex).__name__, ex)
            if h is not None:
                h.close()
        finally:
            if rep.t_end is None:
                rep.t_end = time.monotonic()
            reps[i] = rep
            with lock:
                finished[i] = True
                state["done"] += 1

    def extra(k):
        wait_barrier()
        with lock:
            state["extra_running"] += 1
        try:
            xres[k] = extras[k]()
        finally:
            with lock:
                state["extra_running"] -= 1
                state["done"] += 1

    def sampler():
        wait_barrier()
        k = 0
        win = None                                     # (pending set, first time, consecutive answers)
        while True:
            with lock:
                if state["done"] >= n + len(extras):
                    break
                unreleased = state["unreleased"]
                pending = frozenset(i for i in range(n) if not finished[i] and helds[i] is not None)
            if k % 4 == 3:
                r = ping(vmd_dir, 10.0)
                stats["pings"] += 1
                stats["pongs"] += 1 if r.pong else 0
            else:
                r = status(vmd_dir, 10.0)
                a = r.active_clients()
                if a is None:
                    stats["status_failures"] += 1
                    win = None
                else:
                    stats["status_samples"] += 1
                    stats["status_max_active"] = max(stats["status_max_active"], a)
                    stats["status_max_executing"] = max(stats["status_max_executing"], a - 1 - unreleased)
                    now = time.monotonic()
                    if pending and a - 1 < len(pending):
                        if win is None or win[0] != pending:
                            win = (pending, now, 1)
                        else:
                            win = (pending, win[1], win[2] + 1)
                        if win[2] >= lost_samples and now - win[1] >= lost_grace:
                            with lock:
                                still = [i for i in sorted(pending) if not finished[i]]
                            if len(still) == len(pending):
                                deficit = len(pending) - (a - 1)
                                cand = [i for i in still if helds[i].rep.nbytes == 0 and helds[i].rep.t_release is not None]
                                for i in cand[:deficit]:
                                    helds[i].rep.lost = ("daemon reported active_clients=%d (incl. the STATUS connection) in %d consecutive "
                                                         "answers over %.1f s while %d connections of this wave were unfinished"
                                                         % (a, win[2], now - win[1], len(pending)))
                                    stats["lost"] += 1
                                    try:
                                        helds[i].sock.shutdown(socket.SHUT_RDWR)
                                    except OSError:
                                        pass
                            win = None
                    else:
                        win = None
            k += 1
            time.sleep(0.001)

    threads = [threading.Thread(target=client, args=(i,), daemon=True) for i in range(n)]
    threads += [threading.Thread(target=extra, args=(k,), daemon=True) for k in range(len(extras))]
    if sample:
        threads.append(threading.Thread(target=sampler, daemon=True))
    for t in threads:
        t.start()
    for t in threads:
        t.join(timeout * 2 + 60)
    for i in range(n):
        if reps[i] is None:                       # a client thread that never came back: watchdog, not a verdict
            reps[i] = Reply()
            reps[i].kind = "held-exec"
            reps[i].timeout = True
            reps[i].exc = "client thread did not finish"
    return reps, xres, stats


def nothing_in_service(vmd_dir, samples=3, spread=1.0):
    """The daemon answers PING and, in `samples` STATUS answers spread over `spread` seconds, reports no client but the
    STATUS connection itself.  Used after a client-side watchdog fired: a client that still waits although the daemon
    says it serves nobody has been lost by the daemon (connections are accepted in arrival order)."""
    if not ping(vmd_dir, 10.0).pong:
        return False
    for k in range(samples):
        if status(vmd_dir, 10.0).active_clients() != 1:
            return False
        if k + 1 < samples:
            time.sleep(spread / max(1, samples - 1))
    return True


def overlap_pattern(reps):
    """Order type of the sessions' (release, end) events as seen by the client: a string over S/E.  Client-side
    timestamps, so this describes how the replies interleaved, not the exact daemon-side schedule."""
    ev = []
    for r in reps:
        if r is not None and r.t_release is not None and r.t_end is not None:
            ev.append((r.t_release, 0, "S"))
            ev.append((r.t_end, 1, "E"))
    ev.sort()
    return "".join(e[2] for e in ev)


def max_overlap(reps):
    """Maximum number of sessions whose client-side [release, end] intervals contain a common instant."""
    ev = []
    for r in reps:
        if r is not None and r.t_release is not None and r.t_end is not None:
            ev.append((r.t_release, 1))
            ev.append((r.t_end, -1))
    ev.sort(key=lambda e: (e[0], -e[1]))
    cur = best = 0
    for _, d in ev:
        cur += d
        best = max(best, cur)
    return best


# ---- misbehaving sessions (C18) ----------------------------------------------------------------------------------

MISBEHAVIOURS = (
    "connect_close",        # connect, send nothing, close
    "header_only",          # LOAD_EXEC header announcing len(blob), then close
    "short_header",         # 3 bytes of a header, then close
    "trunc_0", "trunc_1", "trunc_half", "trunc_len1",   # header + payload cut at 0 / 1 / half / len-1, then close
    "trunc_half_shutwr",    # same as trunc_half but only the write side is shut down; the reply is read
    "garbage",              # 4 KiB of seeded garbage as the whole conversation
    "garbage_v1",           # garbage whose first byte is a valid version (so type / length are the garbage)
    "wrong_version",        # version 9, otherwise a correct LOAD_EXEC with payload
    "unknown_type",         # type 0x77, no payload
    "unknown_type_payload",  # type 0x77 with a payload that is never read by the server
    "len_over_max",         # LOAD_EXEC announcing VMD_MAX_PAYLOAD+1
    "len_huge",             # LOAD_EXEC announcing 0xFFFFFFF0
    "len_over_max_hold",    # header announcing VMD_MAX_PAYLOAD+1, nothing more, write side left open: must be refused at once
    "len_huge_hold",        # header announcing 0xFFFFFFF0, nothing more, write side left open
    "len_zero",             # LOAD_EXEC with length 0
    "ping_with_payload",    # PING announcing (and sending) 16 payload bytes
    "non_module",           # valid header + payload that is not a module (text / random bytes)
    "flags_nonzero",        # reserved flags set, otherwise well-formed exec
    "disc_before",          # complete exec request, close without reading anything
    "disc_while",           # complete exec request, close after n reply bytes
    "disc_after",           # complete exec request, read up to the EXIT frame, close without waiting for EOF
    "slow_loris",           # complete exec request dribbled in small chunks with pauses, reply read normally
    "slow_loris_abandon",   # dribble part of the request, then close
)


def misbehave(vmd_dir, kind, blob, rng, timeout=30.0, n_bytes=None):
    """Run one ill-behaved session of the given kind.  `blob` is a valid module image (used as the payload or as
    the thing that gets truncated); `rng` drives garbage / cut positions; returns a Reply (kind set)."""
    def fn(s, rep):
        full = header(LOAD_EXEC, len(blob)) + blob
        if kind == "connect_close":
            rep.closed_by_us = True
        elif kind == "header_only":
            _send(s, header(LOAD_EXEC, len(blob)), rep)
            rep.closed_by_us = True
        elif kind == "short_header":
            _send(s, header(LOAD_EXEC, len(blob))[:3], rep)
            rep.closed_by_us = True
        elif kind in ("trunc_0", "trunc_1", "trunc_half", "trunc_len1", "trunc_half_shutwr"):
            cut = {"trunc_0": 0, "trunc_1": 1, "trunc_half": len(blob) // 2, "trunc_len1": len(blob) - 1,
                   "trunc_half_shutwr": len(blob) // 2}[kind]
            _send(s, header(LOAD_EXEC, len(blob)) + blob[:cut], rep)
            if kind == "trunc_half_shutwr":
                try:
                    s.shutdown(socket.SHUT_WR)
                except OSError:
                    pass
                read_reply(s, timeout, rep=rep)
            else:
                rep.closed_by_us = True
        elif kind in ("garbage", "garbage_v1"):
            g = bytearray(rng.getrandbits(8) for _ in range(4096))
            if kind == "garbage_v1":
                g[0] = VERSION
            else:
                while g[0] == VERSION:
                    g[0] = rng.getrandbits(8)
            _send(s, bytes(g), rep)
            try:
                s.shutdown(socket.SHUT_WR)
            except OSError:
                pass
            read_reply(s, timeout, rep=rep)
        elif kind == "wrong_version":
            if _send(s, header(LOAD_EXEC, len(blob), version=9) + blob, rep):
                read_reply(s, timeout, rep=rep)
        elif kind == "unknown_type":
            if _send(s, header(0x77, 0), rep):
                read_reply(s, timeout, rep=rep)
        elif kind == "unknown_type_payload":
            if _send(s, header(0x77, 64) + bytes(64), rep):
                read_reply(s, timeout, rep=rep)
        elif kind in ("len_over_max", "len_huge"):
            # announce more than the server accepts, send a little / nothing, finish our side, listen
            n = MAX_PAYLOAD + 1 if kind == "len_over_max" else 0xFFFFFFF0
            if _send(s, header(LOAD_EXEC, n) + (blob[:64] if kind == "len_huge" else b""), rep):
                try:
                    s.shutdown(socket.SHUT_WR)
                except OSError:
                    pass
                read_reply(s, timeout, rep=rep)
        elif kind in ("len_over_max_hold", "len_huge_hold"):
            # Yardstick: how long this daemon takes to refuse another malformed header (wrong version) right now.
            y0 = time.monotonic()
            y = _session(vmd_dir, lambda s2, r2: _send(s2, header(LOAD_EXEC, 16, version=9) + bytes(16), r2) and read_reply(s2, timeout, rep=r2), timeout)
            yard = time.monotonic() - y0 if y.ended() and not y.exc else None
            n = MAX_PAYLOAD + 1 if kind == "len_over_max_hold" else 0xFFFFFFF0
            t0 = time.monotonic()
            if _send(s, header(LOAD_EXEC, n), rep) and yard is not None:
                need_s = max(3.0, 50.0 * yard)
                served_later = 0
                while True:
                    read_reply(s, 0.25, rep=rep)
                    if rep.ended():
                        rep.timeout = False
                        break
                    rep.timeout = False                      # the 0.25 s slices are polling, not the watchdog
                    # sessions that arrive AFTER our header and are served completely (connections are accepted in order)
                    if ping(vmd_dir, 10.0).pong and (status(vmd_dir, 10.0).active_clients() or 0) >= 2:
                        served_later += 2
                    el = time.monotonic() - t0
                    if served_later >= 16 and el >= need_s:
                        rep.lost = ("no ERROR frame and no EOF %.1f s after the oversize header was delivered (a wrong-version header was "
                                    "refused in %.3f s on this daemon just before), while %d later PING/STATUS sessions were served and STATUS "
                                    "still counts this connection" % (el, yard, served_later))
                        rep.closed_by_us = True
                        break
                    if el >= timeout:
                        rep.timeout = True                   # watchdog: inconclusive material
                        break
            elif yard is None:
                rep.exc = "yardstick session (wrong version) did not end: %s" % y.brief()
        elif kind == "len_zero":
            if _send(s, header(LOAD_EXEC, 0), rep):
                read_reply(s, timeout, rep=rep)
        elif kind == "ping_with_payload":
            if _send(s, header(PING, 16) + bytes(16), rep):
                read_reply(s, timeout, rep=rep)
        elif kind == "non_module":
            which = rng.randrange(3)
            if which == 0:
                pl = b"fn main() -> int { return 0 }\n" * rng.randrange(1, 40)
            elif which == 1:
                pl = bytes(rng.getrandbits(8) for _ in range(rng.choice((1, 31, 32, 33, 500, 5000))))
            else:
                pl = blob[:32] + bytes(rng.getrandbits(8) for _ in range(max(1, len(blob) - 32)))   # good header, bad body
            if _send(s, header(LOAD_EXEC, len(pl)) + pl, rep):
                read_reply(s, timeout, rep=rep)
        elif kind == "flags_nonzero":
            if _send(s, header(LOAD_EXEC, len(blob), flags=0xBEEF) + blob, rep):
                read_reply(s, timeout, rep=rep)
        elif kind == "disc_before":
            _send(s, full, rep)
            rep.closed_by_us = True
        elif kind == "disc_while":
            if _send(s, full, rep):
                read_reply(s, timeout, stop_after=(n_bytes if n_bytes is not None else rng.randrange(1, 4096)), rep=rep)
            rep.closed_by_us = not rep.eof
        elif kind == "disc_after":
            if _send(s, full, rep):
                read_reply(s, timeout, stop_at_exit=True, rep=rep)
            rep.closed_by_us = not rep.eof
        elif kind in ("slow_loris", "slow_loris_abandon"):
            data = full
            if kind == "slow_loris_abandon":
                data = full[: rng.randrange(1, len(full))]
            pos = 0
            steps = 0
            ok = True
            while pos < len(data) and ok:
                # byte-by-byte through the header, then chunks such that the whole request takes <= ~40 sends
                step = 1 if pos < HEADER_SIZE + 4 else max(1, len(data) // 24)
                ok = _send(s, data[pos:pos + step], rep)
                pos += step
                steps += 1
                time.sleep(rng.uniform(0.0005, 0.004))
            if kind == "slow_loris" and ok:
                read_reply(s, timeout, rep=rep)
            else:
                rep.closed_by_us = True
        else:
            raise ValueError("unknown misbehaviour %r" % kind)
    r = _session(vmd_dir, fn, timeout)
    r.kind = kind
    return r


# ---- daemon management -----------------------------------------------------------------------------------------

def _comm(pid):
    try:
        with open("/proc/%d/comm" % pid) as f:
            return f.read().strip()
    except OSError:
        return None


def _serves(pid, vmd_dir):
    """The process was started with NLVERIF_VMD_DIR=<vmd_dir> (guards against a recycled pid in a stale pid file)."""
    try:
        with open("/proc/%d/environ" % pid, "rb") as f:
            return ("NLVERIF_VMD_DIR=" + vmd_dir).encode() in f.read().split(b"\0")
    except OSError:
        return False


def pid_alive(pid):
    """True while the process exists and is not a zombie."""
    try:
        with open("/proc/%d/stat" % pid) as f:
            st = f.read()
        return st[st.rindex(")") + 2] not in ("Z", "X")
    except (OSError, ValueError, IndexError):
        return False


def _group_alive(pgid):
    try:
        os.killpg(pgid, 0)
        return True
    except OSError:
        return False


def proc_cpu_and_states(pid):
    """(utime+stime clock ticks summed over all threads, string of thread states) or None if the process is gone."""
    total = 0
    states = ""
    try:
        tids = os.listdir("/proc/%d/task" % pid)
    except OSError:
        return None
    for t in tids:
        try:
            with open("/proc/%d/task/%s/stat" % (pid, t)) as f:
                st = f.read()
            rest = st[st.rindex(")") + 2:].split()
            states += rest[0]
            total += int(rest[11]) + int(rest[12])
        except (OSError, ValueError, IndexError):
            pass
    return total, states


def group_pids(pgid):
    """Processes whose process group is `pgid` (a daemon started by `Daemon` leads its own group; its forked
    co-processes stay in it)."""
    out = []
    for d in os.listdir("/proc"):
        if d.isdigit():
            try:
                with open("/proc/%s/stat" % d) as f:
                    st = f.read()
                if int(st[st.rindex(")") + 2:].split()[2]) == pgid:
                    out.append(int(d))
            except (OSError, ValueError, IndexError):
                pass
    return out


def proc_idle(pid, interval=6.0, samples=12):
    """True if during `interval` seconds neither the process nor any process of its group (co-processes) consumed any
    CPU time and every thread of all of them was sleeping (state S) in every sample: they wait for input; they are
    not slow and not starved of CPU (a starved thread is runnable, R; one stuck in the kernel is D)."""
    def snap():
        tot, states, n = 0, "", 0
        for p in sorted(set([pid] + group_pids(pid))):
            c = proc_cpu_and_states(p)
            if c is not None:
                tot += c[0]
                states += c[1]
                n += 1
        return tot, states, n
    first = snap()
    if first[2] == 0 or proc_cpu_and_states(pid) is None:
        return False
    for _ in range(samples):
        time.sleep(interval / samples)
        cur = snap()
        if proc_cpu_and_states(pid) is None or cur[0] != first[0] or cur[2] != first[2] \
                or set(cur[1]) - {"S"} or set(first[1]) - {"S"}:
            return False
    return True


def proc_report(pid):
    """Where the threads of the process (and of its group) are waiting - diagnostic text for a stuck-session report."""
    lines = []
    for p in sorted(set([pid] + group_pids(pid))):
        try:
            with open("/proc/%d/cmdline" % p, "rb") as f:
                cmd = f.read().replace(b"\0", b" ").decode("utf-8", "replace").strip()
            lines.append("pid %d: %s (open fds: %d)" % (p, cmd[-120:], len(os.listdir("/proc/%d/fd" % p))))
            for t in sorted(os.listdir("/proc/%d/task" % p)):
                w = st = ""
                try:
                    with open("/proc/%d/task/%s/wchan" % (p, t)) as f:
                        w = f.read().strip()
                    with open("/proc/%d/task/%s/stat" % (p, t)) as f:
                        x = f.read()
                    st = x[x.rindex(")") + 2]
                    with open("/proc/%d/task/%s/syscall" % (p, t)) as f:
                        w += " syscall=" + " ".join(f.read().split()[:2])
                except OSError:
                    pass
                lines.append("   thread %s state=%s wchan=%s" % (t, st, w))
        except OSError:
            pass
    return "\n".join(lines)


class Daemon:
    """A private nano_vmd in the foreground.  Socket and pid file live in `vmd_dir` (NLVERIF_VMD_DIR, hook H3).
    Started in its own session / process group; stop() kills the group and whatever pid the pid file names
    (if that process is a nano_vmd), so no daemon survives the check whatever happened in between."""

    def __init__(self, binary, vmd_dir, env=None, log=None, args=("--foreground", "--no-timeout"), prefix=(), nofile=None):
        """prefix: command wrapper (e.g. strace ... --); nofile: RLIMIT_NOFILE (soft = hard) for the daemon process."""
        self.prefix = list(prefix)
        self.nofile = nofile
        self.binary = binary
        self.vmd_dir = vmd_dir
        self.extra_env = dict(env or {})
        self.log = log or os.path.join(vmd_dir, "vmd.stderr")
        self.args = list(args)
        self.proc = None
        self.pids = set()
        self.starts = 0

    def env(self):
        e = dict(os.environ)
        for k in ("VERIF_SEED", "VERIF_TIER"):
            e.pop(k, None)
        e["NLVERIF_VMD_DIR"] = self.vmd_dir
        e.update(self.extra_env)
        return e

    def start(self, wait=30.0):
        os.makedirs(self.vmd_dir, exist_ok=True)
        self.stop()
        for p in (sock_path(self.vmd_dir), pid_path(self.vmd_dir)):
            try:
                os.unlink(p)
            except OSError:
                pass
        lf = open(self.log, "ab")
        self.log_start = lf.tell()                 # this instance's part of the (appended) stderr file starts here
        try:
            n = int(self.nofile) if self.nofile else 0

            def pre():
                # the daemon must not outlive a check process that is killed outright (no finally blocks run then):
                # PR_SET_PDEATHSIG = 1 -> SIGKILL when the starting thread of the parent goes away
                try:
                    _LIBC.prctl(1, signal.SIGKILL, 0, 0, 0)
                except Exception:
                    pass
                if n:
                    resource.setrlimit(resource.RLIMIT_NOFILE, (n, n))
            self.proc = subprocess.Popen(self.prefix + [self.binary] + self.args, env=self.env(), stdin=subprocess.DEVNULL,
                                         stdout=lf, stderr=lf, start_new_session=True, cwd=self.vmd_dir, preexec_fn=pre)
        finally:
            lf.close()
        self.pids.add(self.proc.pid)
        self.starts += 1
        # dead-man's switch: a tiny shell blocked on a pipe only this process holds; if the check process is killed
        # outright (no finally blocks run) the pipe closes and the shell kills the daemon's process group
        try:
            self._watch = subprocess.Popen(["/bin/sh", "-c", "read x; kill -9 -%d 2>/dev/null; kill -9 %d 2>/dev/null" % (self.proc.pid, self.proc.pid)],
                                           stdin=subprocess.PIPE, stdout=subprocess.DEVNULL, stderr=subprocess.DEVNULL,
                                           start_new_session=True)
        except OSError:
            self._watch = None
        deadline = time.monotonic() + wait
        while time.monotonic() < deadline:
            if self.proc.poll() is not None:
                return False
            if os.path.exists(sock_path(self.vmd_dir)) and os.path.exists(pid_path(self.vmd_dir)):
                r = ping(self.vmd_dir, 5.0)
                if r.pong:
                    return True
            time.sleep(0.01)
        return False

    def stderr_text(self, limit=4000):
        """stderr/stdout of the current (or last) daemon instance only."""
        try:
            with open(self.log, "rb") as f:
                f.seek(getattr(self, "log_start", 0))
                return f.read()[-limit:].decode("utf-8", "replace")
        except OSError:
            return ""

    @property
    def pid(self):
        return self.proc.pid if self.proc else None

    def daemon_pid(self):
        """pid written by the daemon itself (differs from .pid when a wrapper such as strace was used)."""
        try:
            with open(pid_path(self.vmd_dir)) as f:
                return int(f.read().strip() or 0)
        except (OSError, ValueError):
            return 0

    def alive(self):
        return self.proc is not None and self.proc.poll() is None and pid_alive(self.proc.pid)

    def returncode(self):
        return self.proc.poll() if self.proc else None

    def wait_dead(self, timeout=5.0):
        if not self.proc:
            return True
        try:
            self.proc.wait(timeout)
            return True
        except subprocess.TimeoutExpired:
            return False

    def _drop_watch(self):
        w = getattr(self, "_watch", None)
        self._watch = None
        if w is not None:
            try:
                w.kill()                           # first kill the switch, then let go of its pipe
                w.wait(5)
            except (OSError, subprocess.TimeoutExpired):
                pass
            try:
                w.stdin.close()
            except OSError:
                pass

    def stop(self, grace=3.0):
        """SIGTERM (clean shutdown path, flushes sanitizer logs), then SIGKILL the process group."""
        victims = set()
        if self.proc is not None:
            victims.add(self.proc.pid)
        try:
            with open(pid_path(self.vmd_dir)) as f:
                p = int(f.read().strip() or 0)
            if p > 1 and p != os.getpid() and _comm(p) == "nano_vmd" and _serves(p, self.vmd_dir):
                victims.add(p)                     # e.g. a daemon lazily launched by a `nano_vm --daemon` client
        except (OSError, ValueError):
            pass
        for p in victims:
            try:
                os.kill(p, signal.SIGTERM)
            except OSError:
                pass
        if self.proc is not None:
            try:
                self.proc.wait(grace)
            except subprocess.TimeoutExpired:
                pass
        for p in victims:
            for killer in (lambda: os.killpg(p, signal.SIGKILL), lambda: os.kill(p, signal.SIGKILL)):
                try:
                    killer()
                except OSError:
                    pass
        if self.proc is not None:
            try:
                self.proc.wait(10)
            except subprocess.TimeoutExpired:
                pass
            self.proc = None
        self._drop_watch()
        # wait until nothing of the daemon's process group is left (forked co-process launchers included)
        deadline = time.monotonic() + 10
        while time.monotonic() < deadline and (any(pid_alive(p) for p in victims) or any(_group_alive(p) for p in victims)):
            time.sleep(0.01)

    def __enter__(self):
        return self

    def __exit__(self, *a):
        self.stop()


if __name__ == "__main__":
    import sys
    if len(sys.argv) < 3:
        print("usage: vmd_client.py <vmd-dir> ping|status|exec <file.nvm>")
        sys.exit(2)
    d, cmd = sys.argv[1], sys.argv[2]
    if cmd == "ping":
        print(ping(d).pong)
    elif cmd == "status":
        print(status(d).status)
    else:
        r = exec_module(d, open(sys.argv[3], "rb").read())
        sys.stdout.buffer.write(r.out)
        sys.stderr.buffer.write(r.err_text())
        sys.exit(r.exit_code if r.exit_code is not None else 1)
