#!/bin/bash
# usage: redall.sh "<seed> <N|V|C>" ...   reduces in parallel, prints reduced programs
for x in "$@"; do
  set -- $x
  ( python3 /verif/tools/redseed.py $1 $2 > /var/tmp/nlverif/scratch/red_$1_$2.txt 2>&1 ) &
done
wait
for f in /var/tmp/nlverif/scratch/red_*.txt; do echo "################ $f"; grep -v "^$\|^shadow .* {$\|^}$\|^    assert true$" $f | head -${LINES_MAX:-45} | cut -c1-260; done
rm -f /var/tmp/nlverif/scratch/red_*.txt
