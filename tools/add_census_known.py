#!/usr/bin/python3
"""Development aid: run C01/C02/C03 quick, and add every UNLISTED census violation to findings/<ID>/known.json
(after the lead has looked at the cell and judged it a genuine defect - never run blindly)."""
import json, os, re, subprocess, sys
V = os.path.dirname(os.path.dirname(os.path.abspath(__file__)))
only = sys.argv[1:]
for pid in ("C01", "C02", "C03"):
    r = subprocess.run([os.path.join(V, "check"), pid, "--tier", "quick"], cwd=V, capture_output=True, text=True)
    p = os.path.join(V, "findings", pid, "known.json")
    k = json.load(open(p))
    for m in re.finditer(r"^  key: (census\|(\w+)[^ ]*) \(x\d+\)\n  \| (.*)$", r.stdout, re.M):
        key, name, what = m.groups()
        if only and name not in only:
            print("NOT ADDED (not named on the command line):", pid, key); continue
        k["open"].append({"property": pid, "key": key, "what": what[:400], "witness": "findings/census/%s.nano" % name})
        print("added", pid, key)
    json.dump(k, open(p, "w"), indent=1)
