#!/usr/bin/python3
"""Regenerates the fix table (D.4) and the seeded-change table (D.6) of DESIGN.md from /repo's git log,
findings/*/known.json and seeded/*/meta.json.  The tables live between marker comments."""
import glob, json, os, re, subprocess
V = os.path.dirname(os.path.dirname(os.path.abspath(__file__)))
log = subprocess.run("git -C /repo log --reverse --format='%h\t%s' 7722118..HEAD", shell=True, capture_output=True, text=True).stdout.splitlines()
props = {}
files = glob.glob(os.path.join(V, "findings", "*", "known.json")) + [os.path.join(V, "known_findings.json")]
for f in files:
    for line in json.load(open(f)).get("fixed", []):
        m = re.match(r"fixed: property=(C\d+) ([0-9a-f]{7,})", line)
        if m:
            props.setdefault(m.group(2)[:7], set()).add(m.group(1))
rows = ["| commit | properties | defect |", "|---|---|---|"]
n = 0
for l in log:
    h, s = l.split("\t", 1)
    if s.startswith("fix:"):
        n += 1
        rows.append("| %s | %s | %s |" % (h, ", ".join(sorted(props.get(h[:7], []))) or "–", s[5:]))
fix = "%d repairs:\n\n" % n + "\n".join(rows)
srows = ["| seeded change | what it does (needs) | suite | demo changed/clean | result of our checks |", "|---|---|---|---|---|"]
for mp in sorted(glob.glob(os.path.join(V, "seeded", "*", "meta.json"))):
    m = json.load(open(mp))
    name = os.path.basename(os.path.dirname(mp))
    notes = m.get("needs_to_manifest", "")
    first = ""
    for ln in notes.splitlines():
        ln = ln.strip("# *-").strip()
        if len(ln) > 30:
            first = ln[:170]
            break
    res = "; ".join("%s %s: **%s**%s" % (c, v.get("tier", "quick"), v["result"], (" (" + v["keys"][0][:60] + ")") if v.get("keys") else "") for c, v in sorted(m.get("checks", {}).items()))
    earlier = []
    for h in m.get("history", []):
        for hv in h.values():
            for c, v in sorted(hv.items()):
                if v.get("result") != m.get("checks", {}).get(c, {}).get("result"):
                    earlier.append("%s first: %s" % (c, v.get("result")))
    if earlier:
        res += " — before the check was extended: " + ", ".join(sorted(set(earlier)))
    srows.append("| %s | %s | %s | %s/%s | %s |" % (name, first.replace("|", "/"), m.get("suite", "?"), m.get("demo_changed_exit"), m.get("demo_clean_exit"), res))
seed = "\n".join(srows)
# open findings per property
orows = ["| property | open keys | what (first entries; full list with witnesses in findings/<ID>/known.json) |", "|---|---|---|"]
for f in sorted(files):
    k = json.load(open(f))
    byp = {}
    for e in k.get("open", []):
        byp.setdefault(e["property"], []).append(e)
    for pid, es in sorted(byp.items()):
        whats = []
        for e in es:
            w = re.sub(r"\s+", " ", e["what"])[:150]
            if w not in whats:
                whats.append(w)
        orows.append("| %s | %d | %s |" % (pid, len(es), " // ".join(whats[:5]).replace("|", "/") + (" // …" if len(whats) > 5 else "")))
openf = "\n".join(orows)
p = os.path.join(V, "DESIGN.md")
s = open(p).read()
def put(s, tag, body):
    a, b = "<!-- %s:begin -->" % tag, "<!-- %s:end -->" % tag
    if a in s:
        return s[:s.index(a) + len(a)] + "\n" + body + "\n" + s[s.index(b):]
    return s.replace(tag, a + "\n" + body + "\n" + b, 1)
s = put(s, "FIXTABLE", fix)
s = put(s, "SEEDTABLE", seed)
s = put(s, "OPENTABLE", openf)
open(p, "w").write(s)
print(n, "fixes,", len(srows) - 2, "seeded changes")
