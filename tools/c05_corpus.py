#!/usr/bin/python3
"""C05 aid: which programs of the repository's own corpus (tests/*.nano, examples/language/*.nano) do the two
compilers accept?  Used to show that a proposed type-checker fix does not newly reject anything.

  NLVERIF_REPO=<tree> tools/c05_corpus.py out.json      (tree defaults to /repo; it is only read)
  tools/c05_corpus.py --compare before.json after.json

The programs are compiled inside a scratch copy of /repo (imports and module builds are relative to the
working directory), nanoc with NANO_CC=/bin/true (front end + shadow tests, no C compiler), nano_virt with
--emit-nvm.  'accepted' = exit status 0.
"""
import json
import os
import shutil
import subprocess
import sys

sys.path.insert(0, os.path.dirname(os.path.dirname(os.path.abspath(__file__))))


def compare(a, b):
    A, B = json.load(open(a)), json.load(open(b))
    newly_rejected, newly_accepted = [], []
    for f in sorted(A):
        for tool in ("nanoc", "virt"):
            x, y = A[f][tool], B.get(f, {}).get(tool)
            if x["ok"] and y is not None and not y["ok"]:
                newly_rejected.append((f, tool, y["diag"]))
            if not x["ok"] and y is not None and y["ok"]:
                newly_accepted.append((f, tool))
    na = sum(1 for f in A for t in ("nanoc", "virt") if A[f][t]["ok"])
    nb = sum(1 for f in B for t in ("nanoc", "virt") if B[f][t]["ok"])
    print("programs: %d; accepted (program,tool) pairs before: %d, after: %d" % (len(A), na, nb))
    print("newly rejected: %d" % len(newly_rejected))
    for f, t, d in newly_rejected:
        print("   %-60s %-5s %s" % (f, t, d[:150]))
    print("newly accepted: %d" % len(newly_accepted))
    for f, t in newly_accepted:
        print("   %-60s %s" % (f, t))
    return 1 if newly_rejected else 0


def main():
    if sys.argv[1] == "--compare":
        sys.exit(compare(sys.argv[2], sys.argv[3]))
    from nlv import build
    from nlv.run import run as sh, pmap, Scratch
    fl = build.get("plain")
    # the corpus (and the prebuilt module artifacts that live untracked in /repo) always comes from /repo; only the
    # compilers come from NLVERIF_REPO (patches under test touch src/ only)
    repo = "/repo"
    with Scratch("c05corpus") as sc:
        work = os.path.join(sc.path, "tree")
        subprocess.check_call(["rsync", "-a", "--exclude=/.git", "--exclude=/obj", "--exclude=/bin", "--exclude=/build",
                               "--exclude=/docs", "--exclude=/userguide", repo + "/", work + "/"])
        files = []
        for sub in ("tests", "examples/language"):
            d = os.path.join(work, sub)
            files += [os.path.join(sub, f) for f in sorted(os.listdir(d)) if f.endswith(".nano")]
        outd = os.path.join(sc.path, "out")
        os.makedirs(outd)

        def diag(r):
            ls = [l.strip() for l in (r.errtext() + r.text()).splitlines() if l.strip() and not l.startswith("Warning")]
            for l in ls:
                if "rror" in l or l.startswith("--"):
                    return l
            return ls[-1] if ls else ""

        def one(item):
            i, f = item
            env = {"NANO_CC": "/bin/true", "TMPDIR": outd}
            r1 = sh([fl.nanoc, f, "-o", os.path.join(outd, "n%d.bin" % i)], cwd=work, env=env, cpu=60, wall=900)
            r2 = sh([fl.nano_virt, f, "--emit-nvm", "-o", os.path.join(outd, "v%d.nvm" % i)], cwd=work, cpu=60, wall=900)
            return f, {"nanoc": {"ok": r1.status == 0 and not r1.timeout, "rc": r1.status, "diag": diag(r1)},
                       "virt": {"ok": r2.status == 0 and not r2.timeout, "rc": r2.status, "diag": diag(r2)}}

        res = dict(pmap(one, list(enumerate(files))))
    with open(sys.argv[1], "w") as f:
        json.dump(res, f, indent=0, sort_keys=True)
    print("%d programs; nanoc accepts %d, nano_virt accepts %d" % (
        len(res), sum(1 for v in res.values() if v["nanoc"]["ok"]), sum(1 for v in res.values() if v["virt"]["ok"])))


main()
