#!/usr/bin/python3
"""Development aid: reduce the program of a trygen seed w.r.t. an engine mismatch. usage: redseed.py <seed> N|V|C [feat=1 ...]
N: native output != ref; V: vm output != ref; C: nanoc fails"""
import os, sys, random
sys.path.insert(0, os.path.dirname(os.path.dirname(os.path.abspath(__file__))))
from nlv import build
from nlv.run import run as sh, Scratch
from nlv.gen import gen, reduce

seed = int(sys.argv[1]); which = sys.argv[2]
feats = {}
for kv in sys.argv[3:]:
    k, v = kv.split("="); feats[k] = v == "1"
plain = build.get("plain")
prog, exp = gen.make_program(random.Random(seed), feats)
with Scratch("red") as sc:
    cnt = [0]; first = [None]
    def fails(p, e):
        cnt[0] += 1
        d = sc.sub("r%d" % cnt[0])
        for fn, text in p.files().items():
            open(os.path.join(d, fn), "w").write(text)
        if which in "NC":
            c = sh([plain.nanoc, "main.nano", "-o", "main.bin"], cwd=d, env=plain.fastcc_env(), cpu=60)
            if which == "C":
                import re
                m = re.search(r"error: (.{0,30})", c.errtext() + c.text())
                sig = m.group(1) if m else (c.errtext()[-60:] if c.rc != 0 else None)
                if c.rc != 0 and "double free" in c.errtext() or "invalid pointer" in c.errtext():
                    sig = "free"
                if first[0] is None:
                    first[0] = sig
                return c.rc != 0 and sig == first[0]
            if c.rc != 0:
                return False
            n = sh(["./main.bin"], cwd=d, cpu=10)
            return n.text() != e["stdout"] or n.status != e["exit"]
        v = sh([plain.nano_virt, "main.nano", "--run"], cwd=d, cpu=10)
        return v.text() != e["stdout"] or v.status != e["exit"]
    assert fails(prog, exp), "does not fail"
    small = reduce.reduce(prog, fails, budget=300)
    for fn, text in small.files().items():
        print("=====", fn); print(text)
    e = gen.evaluate(small)
    print("===== expected stdout"); print(e["stdout"])
    d = sc.sub("final")
    for fn, text in small.files().items():
        open(os.path.join(d, fn), "w").write(text)
    os.system("cd %s && /verif/tools/try3 main.nano 2>&1 | tail -30" % d)
