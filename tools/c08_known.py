#!/usr/bin/python3
"""Regenerate findings/C08/known.json from the `not_stopped_by_key` table of evidence/C08.json (run
`./check C08 --tier thorough` first; the thorough tier visits every cell class on every engine).

Every key is a cell CLASS (engine | op | [element kind / construction] | index class | observed), never a length or a
seed.  Review the output before handing it to the lead: only classes that were reproduced by hand belong here."""
import json
import os
import sys

VERIF = os.path.dirname(os.path.dirname(os.path.abspath(__file__)))

ENG = {"wrap": "stand-alone executable from nano_virt -o", "vm": "nano_virt --run", "nano_vm": "nano_vm (.nvm emitted by nano_virt)", "native": "compiled binary",
       "eval": "nanoc evaluator (shadow block)"}
CLS = {"neg": "index -1", "len": "index == length", "len+1": "index == length+1", "2^31": "index 2^31",
       "2^32+k": "index 2^32+k, k < length (2^32 for the empty array)", "int64max": "index 2^63-1",
       "int64min": "index -2^63", "empty": "no element left", "ord>=len": "enum-typed index, ordinal >= length",
       "in-cap": "length < index < capacity of the store", "cap": "index == capacity", "cap+1": "index == capacity+1",
       "in-2cap": "capacity < index < 2*capacity (full store)", "2cap": "index == 2*capacity", "2cap+1": "index == 2*capacity+1"}
OBS = {"continued": "the program continues (value/marker and AFTER printed)",
       "value": "a void value is handed to the program, which goes on to use it (VALUE printed; the run only ends at the next field access)",
       "exit0": "exit status 0"}


def witness(engine, op, extra, obs):
    if op == "array_pop":
        return "findings/C08/array_pop_empty.nano"
    if engine in ("vm", "nano_vm", "wrap"):
        if op == "at" and obs == "value":
            return "findings/C08/vm_at_struct.nano"
        return "findings/C08/vm_%s.nano" % op
    if engine == "native":
        return "findings/C08/native_struct_array.nano"
    return "findings/C08/eval_remove_at_empty.nano"


def main():
    ev = json.load(open(os.path.join(VERIF, "evidence", "C08.json")))
    if ev["tier"] != "thorough":
        sys.exit("evidence/C08.json is not from the thorough tier")
    table = ev["coverage"]["not_stopped_by_key"]
    out = []
    for key in table:
        p = key.split("|")
        if p[0] == "asm":
            sys.exit("assembler-level finding %s: not expected, look at it by hand" % key)
        engine, op = p[0], p[1]
        place = None
        if "@" in engine:                 # "<engine>@<placement>" (placement grid)
            engine, place = engine.split("@", 1)
        extra = p[2] if len(p) == 5 else None       # native: "<kind>[:<construction>]", eval: "<construction>"
        cls, obs = p[-2], p[-1]
        o = OBS.get(obs)
        if o is None and obs.startswith("sanitizer:"):
            o = "UBSan/ASan report (%s)" % obs.split(":", 1)[1]
        what = "%s: `%s`%s (%s) is not stopped - %s" % (
            ENG[engine], op,
            (" on array<%s>" % extra) if engine == "native" else (" on a %s array" % extra) if engine == "eval" else "",
            CLS[cls], o)
        if place:
            what += " [access placed: %s]" % place
        out.append({"property": "C08", "key": key, "what": what, "witness": witness(engine, op, extra, obs)})
    path = os.path.join(VERIF, "findings", "C08", "known.json")
    with open(path, "w") as f:
        json.dump({"open": out, "fixed": []}, f, indent=1)
        f.write("\n")
    print("%d open findings written to %s" % (len(out), path))


if __name__ == "__main__":
    main()
