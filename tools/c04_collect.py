#!/usr/bin/python3
"""Development aid of C04: turn the violations of the last `./check C04` run (evidence/replay/C04/*) into witnesses under
findings/C04/ and entries of findings/C04/known.json.  Every witness is re-run and must reproduce its key.
usage: NLV_C04_SHRINK_MAX=999 NLV_C04_SHRINK_BUDGET=120 ./check C04 --tier quick ; tools/c04_collect.py"""
import json, os, re, sys
V = os.path.dirname(os.path.dirname(os.path.abspath(__file__)))
sys.path.insert(0, V)
from nlv import build
from nlv.checks import c04
from nlv.run import Scratch

FD = os.path.join(V, "findings", "C04")
KJ = os.path.join(FD, "known.json")


def slug(key):
    s = re.sub(r"[^A-Za-z0-9]+", "_", key.replace("{}", "")).strip("_").lower()
    return s[:70]


def main():
    os.makedirs(FD, exist_ok=True)
    kj = json.load(open(KJ)) if os.path.exists(KJ) else {"open": [], "fixed": []}
    known = {e["key"] for e in kj["open"]}
    plain = build.get("plain")
    root = os.path.join(V, "evidence", "replay", "C04")
    added = 0
    with Scratch("c04col") as sc:
        for d in sorted(os.listdir(root)) if os.path.isdir(root) else []:
            p = os.path.join(root, d)
            txt = open(os.path.join(p, "VIOLATION.txt")).read()
            key = re.search(r"^key=(.*)$", txt, re.M).group(1)
            if key in known or key.startswith("wellformed|"):
                continue
            if key.startswith("family|"):
                # a member of a well-formed family (nlv/checks/c04_families.py): the generated program is stored as witness
                os.makedirs(os.path.join(FD, "families"), exist_ok=True)
                name = slug("|".join(key.split("|")[1:4]))
                open(os.path.join(FD, "families", name + ".nano"), "w").write(open(os.path.join(p, "main.nano")).read())
                what = re.search(r"\n\n(.*?)\n", txt, re.S).group(1)
                kj["open"].append({"property": "C04", "key": key, "what": what[:300], "witness": "findings/C04/families/%s.nano" % name})
                known.add(key)
                added += 1
                print("added", key)
                continue
            if key.startswith("cell|"):
                cell = key.split("|")[1]
                wit = "findings/census/%s.nano" % cell[7:] if cell.startswith("census/") else "findings/C04/cell_%s.nano" % cell
                what = re.search(r"\n\n(.*?)\n", txt, re.S).group(1)
                kj["open"].append({"property": "C04", "key": key, "what": what[:300], "witness": wit})
                known.add(key)
                added += 1
                print("added", key)
                continue
            src = os.path.join(p, "reduced") if os.path.isdir(os.path.join(p, "reduced")) else p
            files = {f: open(os.path.join(src, f)).read() for f in os.listdir(src) if f.endswith(".nano")}
            side = "vm" if "vm backend)" in txt else "native"
            m = re.search(r"\|via:([a-z-]+)$", key)
            family = m.group(1) if m else None
            got = c04._key_of(plain, sc.sub("w" + d), files, side, family)
            if got != key:
                # a diagnosed key is reported on whichever backend got stuck first; try the other one
                other = "native" if side == "vm" else "vm"
                got2 = c04._key_of(plain, sc.sub("x" + d), files, other, family)
                if got2 != key:
                    print("witness of %r does not reproduce (%r / %r): skipped" % (key, got, got2))
                    continue
                side = other
            name = ("diag-" if key.startswith("diagnosed-not-rejected|") else "w-") + slug(key.replace("diagnosed-not-rejected|", ""))
            for f, t in files.items():
                fn = name + ".nano" if f == "main.nano" else "%s__%s" % (name, f)
                open(os.path.join(FD, fn), "w").write(t)
            what = re.search(r"\n\n(.*?)\n", txt, re.S).group(1)
            what = re.sub(r"^(mutant \d+ \(mutation: ([^;]*);|cell (\S+) \()", lambda m: "e.g. mutation '%s' (" % m.group(2) if m.group(2) else "cell %s (" % m.group(3), what)
            kj["open"].append({"property": "C04", "key": key, "what": what[:300], "witness": "findings/C04/%s.nano" % name, "backend": side})
            known.add(key)
            added += 1
            print("added", key)
    json.dump(kj, open(KJ, "w"), indent=1)
    print("added %d; %d open" % (added, len(kj["open"])))


main()
