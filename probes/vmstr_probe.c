/* vmstr_probe: prints the hash the VM's string heap assigns to each input line (one string per line on stdin).
 * Used to find pairs of different strings that the VM's intern table / string equality treat as hash-equal, so
 * that hostile programs can keep two colliding strings alive at the same time (C01/C02 hostile string family). */
#include "nanovm/heap.h"
#include "nanovm/value.h"
#include <stdio.h>
#include <stdlib.h>
#include <string.h>
int g_argc = 0; char **g_argv = NULL;
int main(void) {
    static VmHeap heap;
    vm_heap_init(&heap);
    char line[4096];
    while (fgets(line, sizeof line, stdin)) {
        size_t n = strcspn(line, "\n");
        VmString *s = vm_string_new(&heap, line, (uint32_t)n);
        if (!s) { puts("ERR"); continue; }
        printf("%08x\n", s->hash);
        vm_release(&heap, val_string(s));
    }
    vm_heap_destroy(&heap);
    return 0;
}
