/* isa_probe: the repository's instruction codec against an independent byte-layout oracle (property C11).
 *
 *   isa_probe --dump
 *       one line per defined opcode, read through isa_get_info:   OP <hex> <name> <n> <kind>...
 *       kinds: U8 U16 U32 I32 I64 F64.  (Python mutators of other checks parse this.)
 *
 *   isa_probe --codec [seed [random_per_opcode [encode-first|decode-first|interleaved]]]
 *       ORDER (each invocation is a fresh process; the driver runs all three): the codec must not depend on hidden
 *       state left behind by earlier calls.  encode-first = per cell encode, then decode (the natural test order);
 *       decode-first = a complete decode-only pass (truncations, exact decode, trailing bytes, undefined bytes, random
 *       operand bytes) before isa_encode has been called even once in the process - the situation of nano_vm, the
 *       verifier and the disassembler - then an encode-only pass, then decode again; interleaved = shuffled opcode
 *       order, per opcode a seeded choice of decode-before-encode or encode-before-decode.  The SUMMARY line proves the
 *       cold pass (encodes_before_decode_pass=0).  FAIL classes of the cold passes carry the suffix @cold / @cold-op.
 *       exhaustive table: 256 opcode bytes x cartesian product of boundary patterns over the operand slots.
 *       For every cell: isa_encode into an exact-size malloc block == independently computed little-endian
 *       layout; isa_encode refuses every smaller buffer; isa_decode of the exact-size block gives back every
 *       field bit-exactly (floats compared as bit patterns); isa_decode refuses every truncation 0..len-1;
 *       decode(encode(i)) == i and encode(decode(b)) == b; trailing bytes are ignored; a too-large buffer is
 *       not written beyond the instruction.  Undefined opcode bytes must be refused by encode and decode.
 *       Then <random_per_opcode> random operand byte strings per defined opcode: decode, compare with an
 *       independent little-endian read, re-encode, compare bytes.
 *       Operand sizes are hard-coded here (never taken from isa_operand_size).
 *
 *   isa_probe --text
 *       the same cells through the TEXT form: a one-function module holding the single instruction is
 *       disassembled (disasm_module) and re-assembled (asm_assemble); the code bytes must come back.
 *       Cells whose i32 operand points strictly inside the instruction itself are skipped (not a
 *       meaningful jump target).
 *
 * Output: "FAIL <class> <detail>" per failing cell (first 400 printed, all counted), then one SUMMARY line.
 */
#include "nanoisa/isa.h"
#include "nanoisa/nvm_format.h"
#include "nanoisa/assembler.h"
#include "nanoisa/disassembler.h"
#include <stdio.h>
#include <stdlib.h>
#include <string.h>
#include <stdint.h>

int g_argc = 0; char **g_argv = NULL;

/* ---- independent knowledge of the encoding: kind -> size in bytes, all little-endian ---- */
enum { K_NONE = 0, K_U8 = 1, K_U16 = 2, K_U32 = 3, K_I32 = 4, K_I64 = 5, K_F64 = 6 };
static const unsigned KSIZE[7] = {0, 1, 2, 4, 4, 8, 8};
static const char *KNAME[7] = {"NONE", "U8", "U16", "U32", "I32", "I64", "F64"};

/* boundary patterns, stored as the raw 64-bit little-endian image of the operand (low KSIZE bytes used) */
static const uint64_t P_U8[]  = {0, 1, 0x7F, 0x80, 0xFF, 0x5A};
static const uint64_t P_U16[] = {0, 1, 0x7F, 0x80, 0xFF, 0x100, 0x7FFF, 0x8000, 0xFFFF, 0x0102};
static const uint64_t P_U32[] = {0, 1, 0x7F, 0x80, 0xFF, 0x7FFF, 0x8000, 0xFFFF, 0x10000, 0x7FFFFFFFu, 0x80000000u,
                                 0xFFFFFFFFu, 0x01020304u};
static const uint64_t P_I32[] = {0, 1, 0xFFFFFFFFu /* -1 */, 0x7F, 0x80, 0xFF, 0xFFFFFF80u /* -128 */, 0xFFFFFF7Fu /* -129 */,
                                 0x7FFF, 0x8000, 0xFFFF, 0xFFFF8000u, 0xFFFF7FFFu, 0x7FFFFFFFu, 0x80000000u /* INT32_MIN */,
                                 0x80000001u, 0x01020304u, 0xFEFDFCFBu};
static const uint64_t P_I64[] = {0, 1, 0xFFFFFFFFFFFFFFFFull, 0x7F, 0x80, 0xFF, 0x7FFF, 0x8000, 0xFFFF, 0x7FFFFFFFull,
                                 0x80000000ull, 0xFFFFFFFFull, 0x100000000ull, 0xFFFFFFFF80000000ull /* INT32_MIN */,
                                 0xFFFFFFFF7FFFFFFFull, 0x7FFFFFFFFFFFFFFFull, 0x8000000000000000ull, 0x8000000000000001ull,
                                 0x0102030405060708ull, 0xFEFDFCFBFAF9F8F7ull};
static const uint64_t P_F64[] = {0x0000000000000000ull /* +0.0 */, 0x8000000000000000ull /* -0.0 */,
                                 0x3FF0000000000000ull /* 1.0 */, 0xBFF0000000000000ull /* -1.0 */,
                                 0x7FF0000000000000ull /* +inf */, 0xFFF0000000000000ull /* -inf */,
                                 0x7FF8000000000000ull /* default quiet NaN */, 0xFFF8000000000000ull,
                                 0x7FF8000000000001ull /* quiet NaN, payload */, 0x7FFDEADBEEFCAFE1ull,
                                 0xFFFFFFFFFFFFFFFFull, 0x7FF0000000000001ull /* signalling NaN */,
                                 0x7FF4000000000000ull, 0xFFF0000000000001ull, 0x7FF7FFFFFFFFFFFFull,
                                 0x0000000000000001ull /* denormal min */, 0x8000000000000001ull,
                                 0x000FFFFFFFFFFFFFull /* denormal max */, 0x0010000000000000ull /* DBL_MIN */,
                                 0x7FEFFFFFFFFFFFFFull /* DBL_MAX */, 0xFFEFFFFFFFFFFFFFull,
                                 0x400921FB54442D18ull /* pi */, 0x3FB999999999999Aull /* 0.1 */,
                                 0x0102030405060708ull};
#define NEL(a) ((int)(sizeof(a) / sizeof((a)[0])))
static const uint64_t *PATS[7] = {NULL, P_U8, P_U16, P_U32, P_I32, P_I64, P_F64};
static const int NPATS[7] = {0, NEL(P_U8), NEL(P_U16), NEL(P_U32), NEL(P_I32), NEL(P_I64), NEL(P_F64)};

static unsigned long n_cells, n_fail, n_tuples, n_truncs, n_random, n_undef_cells, n_text, n_text_skipped;
static int n_defined, n_undefined;
#define MAX_PRINT 400

static void fail(const char *cls, const char *fmt, ...) __attribute__((format(printf, 2, 3)));
#include <stdarg.h>
static void fail(const char *cls, const char *fmt, ...) {
    n_fail++;
    if (n_fail > MAX_PRINT) return;
    va_list ap; va_start(ap, fmt);
    printf("FAIL %s ", cls); vprintf(fmt, ap); printf("\n");
    va_end(ap);
    fflush(stdout);
}

static uint64_t rng_state = 88172645463325252ull;
static uint64_t rnd64(void) { rng_state ^= rng_state << 13; rng_state ^= rng_state >> 7; rng_state ^= rng_state << 17; return rng_state; }

static int kind_of(OperandType t) {
    switch (t) {
        case OPERAND_U8: return K_U8; case OPERAND_U16: return K_U16; case OPERAND_U32: return K_U32;
        case OPERAND_I32: return K_I32; case OPERAND_I64: return K_I64; case OPERAND_F64: return K_F64;
        default: return K_NONE;
    }
}

static const char *hex(const uint8_t *b, unsigned n) {
    static char bufs[4][3 * 40 + 1]; static int which;
    char *s = bufs[which++ & 3]; unsigned p = 0;
    if (n > 40) n = 40;
    for (unsigned i = 0; i < n; i++) p += (unsigned)sprintf(s + p, "%02x", b[i]);
    s[p] = 0; return s;
}

/* ---- one instruction described independently of the repository's structs ---- */
typedef struct { uint8_t op; int n; int kind[MAX_OPERANDS]; uint64_t val[MAX_OPERANDS]; } Cell;

static unsigned cell_len(const Cell *c) { unsigned l = 1; for (int i = 0; i < c->n; i++) l += KSIZE[c->kind[i]]; return l; }

static unsigned cell_bytes(const Cell *c, uint8_t *out) {
    unsigned p = 0; out[p++] = c->op;
    for (int i = 0; i < c->n; i++) for (unsigned k = 0; k < KSIZE[c->kind[i]]; k++) out[p++] = (uint8_t)(c->val[i] >> (8 * k));
    return p;
}

static const char *cell_str(const Cell *c) {
    static char s[256]; unsigned p = 0;
    const InstructionInfo *info = isa_get_info(c->op);
    p += (unsigned)sprintf(s + p, "op=0x%02x %s", c->op, info && info->name ? info->name : "?");
    for (int i = 0; i < c->n; i++) p += (unsigned)sprintf(s + p, " %s:0x%llx", KNAME[c->kind[i]], (unsigned long long)c->val[i]);
    return s;
}

static void cell_to_instr(const Cell *c, DecodedInstruction *ins) {
    memset(ins, 0, sizeof *ins);
    ins->opcode = c->op; ins->operand_count = (uint8_t)c->n;
    for (int i = 0; i < c->n; i++) {
        switch (c->kind[i]) {
            case K_U8:  ins->operands[i].u8 = (uint8_t)c->val[i]; ins->operand_types[i] = OPERAND_U8; break;
            case K_U16: ins->operands[i].u16 = (uint16_t)c->val[i]; ins->operand_types[i] = OPERAND_U16; break;
            case K_U32: ins->operands[i].u32 = (uint32_t)c->val[i]; ins->operand_types[i] = OPERAND_U32; break;
            case K_I32: { uint32_t u = (uint32_t)c->val[i]; int32_t v; memcpy(&v, &u, 4); ins->operands[i].i32 = v; ins->operand_types[i] = OPERAND_I32; break; }
            case K_I64: { int64_t v; memcpy(&v, &c->val[i], 8); ins->operands[i].i64 = v; ins->operand_types[i] = OPERAND_I64; break; }
            case K_F64: memcpy(&ins->operands[i], &c->val[i], 8); ins->operand_types[i] = OPERAND_F64; break;   /* bit copy: keeps NaN payloads */
        }
    }
}

/* bit image of operand i of a decoded instruction, read through the member that belongs to its kind */
static uint64_t instr_bits(const DecodedInstruction *d, int i, int kind) {
    switch (kind) {
        case K_U8:  return d->operands[i].u8;
        case K_U16: return d->operands[i].u16;
        case K_U32: return d->operands[i].u32;
        case K_I32: { int32_t v = d->operands[i].i32; uint32_t u; memcpy(&u, &v, 4); return u; }
        case K_I64: { int64_t v = d->operands[i].i64; uint64_t u; memcpy(&u, &v, 8); return u; }
        case K_F64: { uint64_t u; memcpy(&u, &d->operands[i], 8); return u; }
    }
    return 0;
}

/* compare a decoded instruction with the cell it must denote; returns 0 when equal */
static int check_decoded(const char *cls, const Cell *c, const DecodedInstruction *d, unsigned len) {
    int bad = 0;
    if (d->opcode != c->op) { fail(cls, "%s: decoded opcode 0x%02x", cell_str(c), d->opcode); bad = 1; }
    if (d->operand_count != c->n) { fail(cls, "%s: decoded operand_count %u, want %d", cell_str(c), d->operand_count, c->n); bad = 1; }
    if (d->byte_length != len) { fail(cls, "%s: decoded byte_length %u, want %u", cell_str(c), d->byte_length, len); bad = 1; }
    for (int i = 0; i < c->n; i++) {
        if (kind_of(d->operand_types[i]) != c->kind[i]) { fail(cls, "%s: slot %d decoded type %d, want %s", cell_str(c), i, (int)d->operand_types[i], KNAME[c->kind[i]]); bad = 1; continue; }
        uint64_t got = instr_bits(d, i, c->kind[i]);
        if (got != c->val[i]) { fail(cls, "%s: slot %d decoded 0x%llx", cell_str(c), i, (unsigned long long)got); bad = 1; }
    }
    return bad;
}

/* exact-size heap copy (ASan places the redzone right behind it) */
static uint8_t *exact(const uint8_t *src, unsigned n) { uint8_t *b = malloc(n); if (n && !b) abort(); if (n) memcpy(b, src, n); return b; }

/* every call of isa_encode goes through ENC so that the probe can PROVE that a decode pass ran in a process
 * (or for an opcode) that has never encoded anything: hidden state shared by the two functions must not matter */
static unsigned long n_encode_calls;
static unsigned long enc_calls_by_op[256];
static uint32_t ENC(const DecodedInstruction *ins, uint8_t *buf, size_t n) { n_encode_calls++; enc_calls_by_op[ins->opcode]++; return isa_encode(ins, buf, n); }

/* ---- encode side of one cell ---- */
static void enc_checks(const Cell *c) {
    uint8_t exp[40]; unsigned L = cell_bytes(c, exp);
    DecodedInstruction ins; cell_to_instr(c, &ins);

    /* encode into an exact-size block */
    uint8_t *eb = malloc(L); memset(eb, 0xCC, L);
    uint32_t w = ENC(&ins, eb, L); n_cells++;
    if (w != L) fail("enc-len", "%s: isa_encode returned %u, want %u", cell_str(c), w, L);
    else if (memcmp(eb, exp, L) != 0) fail("enc-bytes", "%s: encoded %s, want %s", cell_str(c), hex(eb, L), hex(exp, L));
    /* decode(encode(i)) == i on whatever encode produced */
    if (w > 0 && w <= L) {
        DecodedInstruction d; memset(&d, 0x5A, sizeof d);
        uint8_t *cb = exact(eb, w);
        uint32_t r = isa_decode(cb, w, &d); n_cells++;
        if (r != w) fail("dec-of-enc", "%s: isa_decode(isa_encode(i)) consumed %u of %u", cell_str(c), r, w);
        else check_decoded("dec-of-enc", c, &d, w);
        free(cb);
    }
    free(eb);

    /* every smaller buffer must be refused and left alone (exact-size block: an attempt to write trips ASan) */
    for (unsigned n = 0; n < L; n++) {
        uint8_t *sb = malloc(n); if (n) memset(sb, 0xCC, n);
        uint32_t r = ENC(&ins, sb, n); n_cells++; n_truncs++;
        if (r != 0) fail("enc-small", "%s: isa_encode accepted a %u-byte buffer (needs %u), returned %u", cell_str(c), n, L, r);
        else for (unsigned k = 0; k < n; k++) if (sb[k] != 0xCC) { fail("enc-small", "%s: refused %u-byte buffer was written at %u", cell_str(c), n, k); break; }
        free(sb);
    }
    /* a larger buffer is not written beyond the instruction */
    {
        uint8_t big[ISA_MAX_INSTRUCTION_SIZE + 8]; memset(big, 0xCC, sizeof big);
        uint32_t r = ENC(&ins, big, ISA_MAX_INSTRUCTION_SIZE); n_cells++;
        if (r != L || memcmp(big, exp, L) != 0) fail("enc-big", "%s: with a 32-byte buffer returned %u bytes %s", cell_str(c), r, hex(big, L));
        for (unsigned k = L; k < sizeof big; k++) if (big[k] != 0xCC) { fail("enc-overrun", "%s: byte %u behind the instruction was written", cell_str(c), k); break; }
    }
}

/* ---- decode side of one cell: uses only the independently built bytes.  reenc=0: no isa_encode call at all ---- */
static int g_reenc = 1;
static const char *g_phase = "";      /* appended to the FAIL class so that the order that exposed a failure is visible */
static const char *cls(const char *base) { static char b[4][64]; static int w; char *s = b[w++ & 3]; snprintf(s, 64, "%s%s", base, g_phase); return s; }

static void dec_checks(const Cell *c) {
    uint8_t exp[40]; unsigned L = cell_bytes(c, exp);
    /* every truncation must be refused (first: nothing has touched this opcode yet in a decode-first pass) */
    for (unsigned n = 0; n < L; n++) {
        uint8_t *cb = exact(exp, n);
        DecodedInstruction d; memset(&d, 0x5A, sizeof d);
        uint32_t r = isa_decode(cb, n, &d); n_cells++; n_truncs++;
        if (r != 0) fail(cls("dec-trunc"), "%s: truncated instruction decoded: %u of %u bytes given, returned %u", cell_str(c), n, L, r);
        free(cb);
    }
    /* decode the independently built bytes from an exact-size block */
    {
        uint8_t *cb = exact(exp, L);
        DecodedInstruction d; memset(&d, 0x5A, sizeof d);
        uint32_t r = isa_decode(cb, L, &d); n_cells++;
        if (r != L) fail(cls("dec-len"), "%s: isa_decode(%s) returned %u, want %u", cell_str(c), hex(exp, L), r, L);
        else if (check_decoded(cls("dec-value"), c, &d, L) == 0 && g_reenc) {
            /* encode(decode(b)) == b */
            uint8_t *rb = malloc(L); memset(rb, 0xCC, L);
            uint32_t w2 = ENC(&d, rb, L); n_cells++;
            if (w2 != L || memcmp(rb, exp, L) != 0) fail("reenc", "%s: encode(decode(%s)) = %u bytes %s", cell_str(c), hex(exp, L), w2, hex(rb, w2 <= L ? w2 : L));
            free(rb);
        }
        free(cb);
    }
    /* trailing bytes are not part of the instruction */
    {
        uint8_t tb[48]; memcpy(tb, exp, L); memset(tb + L, 0xEE, 5);
        uint8_t *cb = exact(tb, L + 5);
        DecodedInstruction d; memset(&d, 0x5A, sizeof d);
        uint32_t r = isa_decode(cb, L + 5, &d); n_cells++;
        if (r != L) fail(cls("dec-trail"), "%s: with 5 trailing bytes returned %u, want %u", cell_str(c), r, L);
        else check_decoded(cls("dec-trail"), c, &d, L);
        free(cb);
    }
    /* truncations once more, now that this opcode has been decoded completely (state left behind by a full decode) */
    for (unsigned n = 0; n < L; n++) {
        uint8_t *cb = exact(exp, n);
        DecodedInstruction d; memset(&d, 0x5A, sizeof d);
        uint32_t r = isa_decode(cb, n, &d); n_cells++; n_truncs++;
        if (r != 0) fail(cls("dec-trunc2"), "%s: truncated instruction decoded after a complete decode: %u of %u bytes, returned %u", cell_str(c), n, L, r);
        free(cb);
    }
}

static void count_cell(const Cell *c) { (void)c; n_tuples++; }
static void enc_then_dec(const Cell *c) { enc_checks(c); dec_checks(c); }
static void dec_then_enc(const Cell *c) { dec_checks(c); enc_checks(c); dec_checks(c); }

/* ---- text form of one cell ---- */
static void text_cell(const Cell *c) {
    uint8_t exp[40]; unsigned L = cell_bytes(c, exp);
    for (int i = 0; i < c->n; i++) if (c->kind[i] == K_I32) {
        int32_t rel; uint32_t u = (uint32_t)c->val[i]; memcpy(&rel, &u, 4);
        if (rel > 0 && (uint32_t)rel < L) { n_text_skipped++; return; }
    }
    NvmModule *m = nvm_module_new(); if (!m) abort();
    NvmFunctionEntry fe; memset(&fe, 0, sizeof fe);
    fe.name_idx = nvm_add_string(m, "f", 1);
    fe.code_offset = nvm_append_code(m, exp, L); fe.code_length = L;
    nvm_add_function(m, &fe);
    char *txt = disasm_module(m);
    n_text++; n_cells++;
    if (!txt) { fail("text-disasm", "%s: disasm_module returned NULL", cell_str(c)); nvm_module_free(m); return; }
    AsmResult ar; NvmModule *m2 = asm_assemble(txt, &ar);
    /* the instruction line is the 3rd..: find the line starting with two blanks */
    char linebuf[160] = ""; { const char *p = strstr(txt, "\n  "); if (p) { p += 1; const char *e = strchr(p, '\n'); size_t n = e ? (size_t)(e - p) : strlen(p); if (n > 150) n = 150; memcpy(linebuf, p, n); linebuf[n] = 0; } }
    if (!m2) fail("text-asmfail", "%s: text \"%s\" refused: %s (line %u)", cell_str(c), linebuf, ar.message, ar.line);
    else {
        if (m2->code_size != L || memcmp(m2->code, exp, L) != 0)
            fail("text-bytes", "%s: text \"%s\" assembled to %s, want %s", cell_str(c), linebuf, hex(m2->code, m2->code_size), hex(exp, L));
        else if (m2->function_count != 1 || m2->functions[0].code_offset != 0 || m2->functions[0].code_length != L)
            fail("text-fn", "%s: function entry differs after the text round trip", cell_str(c));
        nvm_module_free(m2);
    }
    free(txt); nvm_module_free(m);
}

static void product(uint8_t op, const InstructionInfo *info, void (*fn)(const Cell *)) {
    Cell c; memset(&c, 0, sizeof c); c.op = op; c.n = info->operand_count;
    int idx[MAX_OPERANDS] = {0};
    for (int i = 0; i < c.n; i++) c.kind[i] = kind_of(info->operands[i]);
    for (;;) {
        for (int i = 0; i < c.n; i++) c.val[i] = PATS[c.kind[i]][idx[i]];
        fn(&c);
        int k = c.n - 1;
        while (k >= 0) { if (++idx[k] < NPATS[c.kind[k]]) break; idx[k] = 0; k--; }
        if (k < 0) break;
    }
}

static int table_entry_ok(int op, const InstructionInfo *info) {
    int ok = 1;
    n_cells++;
    if (info->opcode != op) { fail("table", "op=0x%02x: table entry carries opcode 0x%02x", op, info->opcode); ok = 0; }
    if (info->operand_count > MAX_OPERANDS) { fail("table", "op=0x%02x %s: operand_count %u", op, info->name, info->operand_count); return 0; }
    for (int i = 0; i < info->operand_count; i++) if (kind_of(info->operands[i]) == K_NONE) { fail("table", "op=0x%02x %s: slot %d has no valid kind (%d)", op, info->name, i, (int)info->operands[i]); ok = 0; }
    if (isa_opcode_by_name(info->name) != op) { fail("table", "op=0x%02x %s: isa_opcode_by_name gives %d", op, info->name, isa_opcode_by_name(info->name)); ok = 0; }
    return ok;
}

static void undef_dec(int op) {
    /* decode must refuse: alone, and followed by 1..31 bytes of several fillings */
    static const uint8_t fills[] = {0x00, 0xFF, 0x01, 0x3D /* RET */};
    for (unsigned n = 1; n <= 32; n++) for (unsigned f = 0; f < sizeof fills + 1; f++) {
        uint8_t b[32]; b[0] = (uint8_t)op;
        for (unsigned k = 1; k < n; k++) b[k] = f < sizeof fills ? fills[f] : (uint8_t)rnd64();
        uint8_t *cb = exact(b, n);
        DecodedInstruction d; memset(&d, 0x5A, sizeof d);
        uint32_t r = isa_decode(cb, n, &d); n_cells++; n_undef_cells++;
        if (r != 0) fail(cls("undef-dec"), "op=0x%02x: undefined opcode byte decoded from %u bytes (returned %u)", op, n, r);
        free(cb);
        if (n == 1) break;
    }
}

static void undef_enc(int op) {
    /* encode must refuse whatever the operand fields say, and must not touch the buffer */
    for (int cnt = 0; cnt <= MAX_OPERANDS; cnt++) for (int ty = 0; ty <= 6; ty++) {
        DecodedInstruction ins; memset(&ins, 0, sizeof ins);
        ins.opcode = (uint8_t)op; ins.operand_count = (uint8_t)cnt;
        for (int i = 0; i < MAX_OPERANDS; i++) { ins.operand_types[i] = (OperandType)ty; ins.operands[i].i64 = (int64_t)rnd64(); }
        uint8_t *eb = malloc(ISA_MAX_INSTRUCTION_SIZE); memset(eb, 0xCC, ISA_MAX_INSTRUCTION_SIZE);
        uint32_t r = ENC(&ins, eb, ISA_MAX_INSTRUCTION_SIZE); n_cells++; n_undef_cells++;
        if (r != 0) fail("undef-enc", "op=0x%02x: undefined opcode byte encoded (returned %u)", op, r);
        else for (unsigned k = 0; k < ISA_MAX_INSTRUCTION_SIZE; k++) if (eb[k] != 0xCC) { fail("undef-enc", "op=0x%02x: refused, but buffer written at %u", op, k); break; }
        free(eb);
    }
}

/* random operand bytes: decode, compare with an independent little-endian read, refuse a random truncation,
 * re-encode (only when g_reenc) */
static void rand_cells(int op, const InstructionInfo *info, unsigned long nrand) {
    Cell c; memset(&c, 0, sizeof c); c.op = (uint8_t)op; c.n = info->operand_count;
    for (int i = 0; i < c.n; i++) c.kind[i] = kind_of(info->operands[i]);
    unsigned L = cell_len(&c);
    unsigned long reps = (c.n == 0) ? 1 : nrand;
    for (unsigned long t = 0; t < reps; t++) {
        uint8_t b[40]; b[0] = (uint8_t)op; unsigned p = 1;
        for (int i = 0; i < c.n; i++) {
            uint64_t v = rnd64();
            if (c.kind[i] == K_F64 && (t & 3) == 0) v |= 0x7FF0000000000000ull;       /* a quarter are NaN/inf images */
            if (KSIZE[c.kind[i]] < 8) v &= (1ull << (8 * KSIZE[c.kind[i]])) - 1;
            c.val[i] = v;
            for (unsigned k = 0; k < KSIZE[c.kind[i]]; k++) b[p++] = (uint8_t)(v >> (8 * k));
        }
        if (L > 1) {
            unsigned n = (unsigned)(rnd64() % L);
            uint8_t *tb = exact(b, n);
            DecodedInstruction d; memset(&d, 0x5A, sizeof d);
            uint32_t r = isa_decode(tb, n, &d); n_cells++; n_truncs++;
            if (r != 0) fail(cls("rand-trunc"), "%s: truncated instruction decoded: %u of %u bytes given, returned %u", cell_str(&c), n, L, r);
            free(tb);
        }
        uint8_t *cb = exact(b, L);
        DecodedInstruction d; memset(&d, 0x5A, sizeof d);
        uint32_t r = isa_decode(cb, L, &d); n_cells++; n_random++;
        if (r != L) fail(cls("rand-dec"), "%s: isa_decode(%s) returned %u, want %u", cell_str(&c), hex(b, L), r, L);
        else if (check_decoded(cls("rand-dec"), &c, &d, L) == 0 && g_reenc) {
            uint8_t *rb = malloc(L); memset(rb, 0xCC, L);
            uint32_t w = ENC(&d, rb, L); n_cells++;
            if (w != L || memcmp(rb, b, L) != 0) fail("rand-reenc", "%s: encode(decode(%s)) = %u bytes %s", cell_str(&c), hex(b, L), w, hex(rb, w <= L ? w : L));
            free(rb);
        }
        free(cb);
    }
}

int main(int argc, char **argv) {
    if (argc >= 2 && strcmp(argv[1], "--dump") == 0) {
        for (int op = 0; op < 256; op++) {
            const InstructionInfo *info = isa_get_info((uint8_t)op);
            if (!info) continue;
            printf("OP %02x %s %u", op, info->name, info->operand_count);
            for (int i = 0; i < info->operand_count && i < MAX_OPERANDS; i++) printf(" %s", KNAME[kind_of(info->operands[i])]);
            printf("\n");
        }
        return 0;
    }
    int text = (argc >= 2 && strcmp(argv[1], "--text") == 0);
    if (!(argc >= 2 && (strcmp(argv[1], "--codec") == 0 || text))) { fprintf(stderr, "usage: isa_probe --dump | --codec [seed [random_per_opcode [encode-first|decode-first|interleaved]]] | --text\n"); return 2; }
    unsigned long seed = argc >= 3 ? strtoul(argv[2], NULL, 10) : 1;
    unsigned long nrand = argc >= 4 ? strtoul(argv[3], NULL, 10) : 500;
    const char *order = argc >= 5 ? argv[4] : "encode-first";
    int ord = strcmp(order, "decode-first") == 0 ? 1 : strcmp(order, "interleaved") == 0 ? 2 : strcmp(order, "encode-first") == 0 ? 0 : -1;
    if (ord < 0) { fprintf(stderr, "unknown order %s\n", order); return 2; }
    rng_state ^= seed * 0x9E3779B97F4A7C15ull; for (int i = 0; i < 8; i++) rnd64();

    if (text) {
        for (int op = 0; op < 256; op++) {
            const InstructionInfo *info = isa_get_info((uint8_t)op);
            if (!info) { n_undefined++; continue; }
            n_defined++;
            if (table_entry_ok(op, info)) product((uint8_t)op, info, text_cell);
        }
        printf("SUMMARY mode=text cells=%lu defined=%d undefined=%d text_cells=%lu skipped=%lu fails=%lu\n",
               n_cells, n_defined, n_undefined, n_text, n_text_skipped, n_fail);
        return 0;
    }

    /* opcode visiting order: ascending for encode-first, seeded shuffle otherwise (state left by one opcode's
     * calls must not matter for another opcode) */
    int ops[256]; for (int i = 0; i < 256; i++) ops[i] = i;
    if (ord != 0) for (int i = 255; i > 0; i--) { int j = (int)(rnd64() % (unsigned)(i + 1)); int t = ops[i]; ops[i] = ops[j]; ops[j] = t; }
    int ok_entry[256] = {0};
    for (int op = 0; op < 256; op++) {
        const InstructionInfo *info = isa_get_info((uint8_t)op);
        if (!info) { n_undefined++; continue; }
        n_defined++;
        ok_entry[op] = table_entry_ok(op, info);
        if (ok_entry[op]) product((uint8_t)op, info, count_cell);
    }
    unsigned long enc_before_decode_pass = 0, cold_decode_ops = 0;

    if (ord == 0) {
        /* ---- the natural test order: per opcode, per cell: encode, then decode ---- */
        for (int k = 0; k < 256; k++) {
            int op = ops[k]; const InstructionInfo *info = isa_get_info((uint8_t)op);
            if (!info) { undef_dec(op); undef_enc(op); continue; }
            if (!ok_entry[op]) continue;
            g_reenc = 1; g_phase = "";
            product((uint8_t)op, info, enc_then_dec);
            rand_cells(op, info, nrand);
        }
    } else if (ord == 1) {
        /* ---- pass 1: decode ONLY, in a process that has never called isa_encode (the situation of nano_vm,
         *      the verifier and the disassembler): truncations, exact decode, trailing bytes, undefined bytes,
         *      random operand bytes - all from independently built byte strings ---- */
        g_reenc = 0; g_phase = "@cold";
        for (int k = 0; k < 256; k++) {
            int op = ops[k]; const InstructionInfo *info = isa_get_info((uint8_t)op);
            if (!info) { undef_dec(op); continue; }
            if (!ok_entry[op]) continue;
            product((uint8_t)op, info, dec_checks);
            rand_cells(op, info, nrand);
            cold_decode_ops++;
        }
        enc_before_decode_pass = n_encode_calls;
        /* ---- pass 2: encode only (every opcode, every cell), undefined bytes refused by encode ---- */
        g_phase = "";
        for (int k = 255; k >= 0; k--) {
            int op = ops[k]; const InstructionInfo *info = isa_get_info((uint8_t)op);
            if (!info) { undef_enc(op); continue; }
            if (ok_entry[op]) product((uint8_t)op, info, enc_checks);
        }
        /* ---- pass 3: decode again, now with re-encoding, after everything has been encoded ---- */
        g_reenc = 1; g_phase = "@warm";
        for (int k = 0; k < 256; k++) {
            int op = ops[k]; const InstructionInfo *info = isa_get_info((uint8_t)op);
            if (!info) { undef_dec(op); continue; }
            if (!ok_entry[op]) continue;
            product((uint8_t)op, info, dec_checks);
            rand_cells(op, info, nrand / 4 + 1);
        }
    } else {
        /* ---- interleaved: per opcode a seeded choice of decode-before-encode or encode-before-decode; the opcodes
         *      themselves come in shuffled order, undefined bytes in between ---- */
        for (int k = 0; k < 256; k++) {
            int op = ops[k]; const InstructionInfo *info = isa_get_info((uint8_t)op);
            if (!info) { if (rnd64() & 1) { undef_dec(op); undef_enc(op); } else { undef_enc(op); undef_dec(op); } continue; }
            if (!ok_entry[op]) continue;
            if (rnd64() & 1) {
                unsigned long before = enc_calls_by_op[op];
                g_reenc = 0; g_phase = "@cold-op";
                product((uint8_t)op, info, dec_checks);
                rand_cells(op, info, nrand / 2 + 1);
                if (enc_calls_by_op[op] == before) cold_decode_ops++;
                g_reenc = 1; g_phase = "";
                product((uint8_t)op, info, dec_then_enc);
            } else {
                g_reenc = 1; g_phase = "";
                product((uint8_t)op, info, enc_then_dec);
                rand_cells(op, info, nrand / 2 + 1);
            }
        }
    }
    printf("SUMMARY mode=codec order=%s cells=%lu defined=%d undefined=%d tuples=%lu truncs=%lu random=%lu undef_cells=%lu "
           "encodes_before_decode_pass=%lu cold_decode_opcodes=%lu fails=%lu\n",
           order, n_cells, n_defined, n_undefined, n_tuples, n_truncs, n_random, n_undef_cells,
           enc_before_decode_pass, cold_decode_ops, n_fail);
    return 0;
}
