/* rt_probe: text round trip of whole modules (property C11).
 *
 *   rt_probe [file.nvm ...]          (no file arguments: one path per line on stdin)
 *   rt_probe --text file.nvm         print disasm_module(nvm_deserialize(file)) (for witnesses / replay)
 *
 * For each file: nvm_deserialize -> disasm_module -> asm_assemble, then compare
 *   code bytes, the function table (every field) and the string pool (length + bytes).
 * One record per file, flushed immediately (tab separated, free text C-escaped):
 *
 *   MOD <path> <outcome> <stats> <detail>
 *
 * outcome: same | layout | content | asmfail | noload
 *   layout  = function count, names, arity, locals, upvalues, code lengths and every function's own bytes
 *             (function i of the original vs function i of the result) and all strings are equal; only the
 *             placement of the functions inside the code section (code_offset / total code size) differs.
 *   content = anything else differs; <detail> names the first difference of each part.
 *   asmfail = the assembler refused the disassembler's text; <detail> has the error code, message,
 *             line number and the offending line.
 * stats (k=v, comma separated) describe the ORIGINAL module so that the driver can measure what was
 * exercised and decide the cause class of a difference:
 *   code,fns,strs   sizes;  inorder=1 when the functions lie in table order, back to back, from offset 0 and
 *   cover the code section;  zero=<functions of length 0>;  jf/jb/je/js = jumps forward/backward/to the function
 *   end/to itself;  jo = i32 operands whose target lies outside the function;  jm = targets inside the function that
 *   are not an instruction boundary;  lab=<sum over functions of distinct in-range targets>;  maxlab=<max per function>;
 *   labdef=<label definitions the disassembler will print: per function the first 512 distinct in-range targets that are
 *   instruction boundaries>;  nal=<functions in which an i32 operand that is printed as a NUMBER (target outside the function
 *   or beyond the 512 names) follows one that is printed as a label>;  maxpatch=<max label references in one function>;
 *   pnl=<PUSH_STR instructions whose string contains a newline>;  fden / fnan = f64 operands that are denormal / NaN with a
 *   non-default payload;
 *   sc/sn/sr/st/sq/sb/sh/sz/se = strings containing ; or # / newline / CR / tab / quote / backslash / byte>=0x80 /
 *   NUL byte / empty strings;  maxstr=<longest string>;  undec=<functions whose code does not decode to its end>.
 */
#include "nanoisa/nvm_format.h"
#include "nanoisa/assembler.h"
#include "nanoisa/disassembler.h"
#include "nanoisa/isa.h"
#include <stdio.h>
#include <stdlib.h>
#include <string.h>

int g_argc = 0; char **g_argv = NULL;

static void put_escaped(const char *s, size_t n) {
    for (size_t i = 0; i < n; i++) {
        unsigned char c = (unsigned char)s[i];
        if (c == '\\') fputs("\\\\", stdout);
        else if (c == '\n') fputs("\\n", stdout);
        else if (c == '\t') fputs("\\t", stdout);
        else if (c == '\r') fputs("\\r", stdout);
        else if (c < 0x20 || c >= 0x7F) printf("\\x%02x", c);
        else fputc(c, stdout);
    }
}

static uint8_t *slurp(const char *path, long *sz) {
    FILE *f = fopen(path, "rb"); if (!f) return NULL;
    fseek(f, 0, SEEK_END); *sz = ftell(f); fseek(f, 0, SEEK_SET);
    uint8_t *buf = malloc(*sz > 0 ? (size_t)*sz : 1);
    if (!buf || fread(buf, 1, (size_t)*sz, f) != (size_t)*sz) { fclose(f); free(buf); return NULL; }
    fclose(f); return buf;
}

static int cmp_u32(const void *a, const void *b) { uint32_t x = *(const uint32_t *)a, y = *(const uint32_t *)b; return x < y ? -1 : x > y; }

static int has_nl(const NvmModule *m, uint32_t idx) {
    if (idx >= m->string_count) return 0;
    return memchr(m->strings[idx], '\n', strlen(m->strings[idx])) != NULL;   /* the disassembler prints up to the first NUL */
}

#define DIS_MAX_LABELS 512   /* what the disassembler can name per function; further targets are printed as numbers */

static void stats(const NvmModule *m) {
    unsigned long jf = 0, jb = 0, je = 0, js = 0, jo = 0, jm = 0, lab = 0, maxlab = 0, zero = 0, undec = 0;
    unsigned long labdef = 0, nal = 0, maxpatch = 0, pnl = 0, fden = 0, fnan = 0;
    unsigned long sc = 0, sn = 0, sr = 0, st = 0, sq = 0, sb = 0, sh = 0, sz = 0, se = 0, maxstr = 0;
    int inorder = 1; uint32_t expect_off = 0;
    for (uint32_t i = 0; i < m->function_count; i++) {
        const NvmFunctionEntry *fn = &m->functions[i];
        if (fn->code_offset != expect_off) inorder = 0;
        expect_off = fn->code_offset + fn->code_length;
        if (fn->code_length == 0) { zero++; continue; }
        if ((uint64_t)fn->code_offset + fn->code_length > m->code_size) { inorder = 0; continue; }
        const uint8_t *code = m->code + fn->code_offset; uint32_t n = fn->code_length;
        /* instruction boundaries */
        uint8_t *boundary = calloc(n + 1, 1); uint32_t *targets = malloc(sizeof(uint32_t) * (n + 1)); uint32_t nt = 0;
        uint32_t named[DIS_MAX_LABELS]; uint32_t nnamed = 0;
        uint32_t pos = 0;
        while (pos < n) {
            DecodedInstruction d; uint32_t c = isa_decode(code + pos, n - pos, &d);
            if (!c) { undec++; break; }
            boundary[pos] = 1;
            pos += c;
        }
        if (pos == n) boundary[n] = 1;
        /* pass 1: targets, and which of them get a name (first 512 distinct in-range targets in scan order) */
        pos = 0;
        while (pos < n) {
            DecodedInstruction d; uint32_t c = isa_decode(code + pos, n - pos, &d);
            if (!c) break;
            for (int k = 0; k < d.operand_count; k++) {
                if (d.operand_types[k] == OPERAND_I32) {
                    int64_t t = (int64_t)pos + d.operands[k].i32;
                    if (t < 0 || t > (int64_t)n) { jo++; continue; }
                    if (!boundary[t]) jm++;
                    if (t == (int64_t)n) je++; else if (t == (int64_t)pos) js++; else if (t > (int64_t)pos) jf++; else jb++;
                    if (nt <= n) targets[nt++] = (uint32_t)t;
                    int known = 0; for (uint32_t q = 0; q < nnamed; q++) if (named[q] == (uint32_t)t) { known = 1; break; }
                    if (!known && nnamed < DIS_MAX_LABELS) named[nnamed++] = (uint32_t)t;
                } else if (d.operand_types[k] == OPERAND_F64) {
                    uint64_t bits; memcpy(&bits, &d.operands[k], 8);
                    uint64_t e = (bits >> 52) & 0x7FF, mant = bits & 0xFFFFFFFFFFFFFull;
                    if (e == 0 && mant != 0) fden++;
                    if (e == 0x7FF && mant != 0 && mant != 0x8000000000000ull) fnan++;
                }
            }
            if (d.opcode == OP_PUSH_STR && has_nl(m, d.operands[0].u32)) pnl++;
            pos += c;
        }
        /* pass 2: is a numerically printed i32 operand preceded by a named one?  how many named operands? */
        unsigned long patches = 0; int seen_named = 0, numeric_after = 0;
        pos = 0;
        while (pos < n) {
            DecodedInstruction d; uint32_t c = isa_decode(code + pos, n - pos, &d);
            if (!c) break;
            for (int k = 0; k < d.operand_count; k++) if (d.operand_types[k] == OPERAND_I32) {
                int64_t t = (int64_t)pos + d.operands[k].i32;
                int is_named = 0;
                if (t >= 0 && t <= (int64_t)n) for (uint32_t q = 0; q < nnamed; q++) if (named[q] == (uint32_t)t) { is_named = 1; break; }
                if (is_named) { patches++; seen_named = 1; } else if (seen_named) numeric_after = 1;
            }
            pos += c;
        }
        if (numeric_after) nal++;
        if (patches > maxpatch) maxpatch = patches;
        for (uint32_t q = 0; q < nnamed; q++) if (boundary[named[q]]) labdef++;
        qsort(targets, nt, sizeof(uint32_t), cmp_u32);
        unsigned long distinct = 0;
        for (uint32_t k = 0; k < nt; k++) if (k == 0 || targets[k] != targets[k - 1]) distinct++;
        lab += distinct; if (distinct > maxlab) maxlab = distinct;
        free(boundary); free(targets);
    }
    if (expect_off != m->code_size) inorder = 0;
    for (uint32_t i = 0; i < m->string_count; i++) {
        const char *s = m->strings[i]; uint32_t n = m->string_lengths[i];
        int c = 0, nl = 0, r = 0, t = 0, q = 0, b = 0, h = 0, z = 0;
        for (uint32_t k = 0; k < n; k++) {
            unsigned char ch = (unsigned char)s[k];
            if (ch == ';' || ch == '#') c = 1; else if (ch == '\n') nl = 1; else if (ch == '\r') r = 1; else if (ch == '\t') t = 1;
            else if (ch == '"') q = 1; else if (ch == '\\') b = 1; else if (ch >= 0x80) h = 1; else if (ch == 0) z = 1;
        }
        sc += c; sn += nl; sr += r; st += t; sq += q; sb += b; sh += h; sz += z; if (n == 0) se++;
        if (n > maxstr) maxstr = n;
    }
    printf("code=%u,fns=%u,strs=%u,inorder=%d,zero=%lu,jf=%lu,jb=%lu,je=%lu,js=%lu,jo=%lu,jm=%lu,lab=%lu,maxlab=%lu,"
           "labdef=%lu,nal=%lu,maxpatch=%lu,pnl=%lu,fden=%lu,fnan=%lu,"
           "sc=%lu,sn=%lu,sr=%lu,st=%lu,sq=%lu,sb=%lu,sh=%lu,sz=%lu,se=%lu,maxstr=%lu,undec=%lu",
           m->code_size, m->function_count, m->string_count, inorder, zero, jf, jb, je, js, jo, jm, lab, maxlab,
           labdef, nal, maxpatch, pnl, fden, fnan,
           sc, sn, sr, st, sq, sb, sh, sz, se, maxstr, undec);
}

static int str_eq(const NvmModule *a, uint32_t ia, const NvmModule *b, uint32_t ib) {
    if (ia >= a->string_count || ib >= b->string_count) return ia >= a->string_count && ib >= b->string_count && ia == ib;
    return a->string_lengths[ia] == b->string_lengths[ib] && memcmp(a->strings[ia], b->strings[ib], a->string_lengths[ia]) == 0;
}

static void one(const char *path) {
    long sz; uint8_t *buf = slurp(path, &sz);
    printf("MOD\t%s\t", path);
    if (!buf) { printf("noload\t-\tcannot read\n"); fflush(stdout); return; }
    uint8_t *exact = malloc(sz > 0 ? (size_t)sz : 1); memcpy(exact, buf, (size_t)sz); free(buf);
    NvmModule *m = nvm_deserialize(exact, (uint32_t)sz); free(exact);
    if (!m) { printf("noload\t-\tnvm_deserialize returned NULL\n"); fflush(stdout); return; }
    char *txt = disasm_module(m);
    if (!txt) { printf("content\t"); stats(m); printf("\tdisasm_module returned NULL\n"); fflush(stdout); nvm_module_free(m); return; }
    AsmResult ar; NvmModule *m2 = asm_assemble(txt, &ar);
    if (!m2) {
        printf("asmfail\t"); stats(m);
        printf("\terr=%d line=%u msg=", (int)ar.error, ar.line); put_escaped(ar.message, strlen(ar.message));
        const char *p = txt; for (uint32_t l = 1; l < ar.line && p; l++) { p = strchr(p, '\n'); if (p) p++; }
        printf(" prev=");
        if (p && p > txt + 1) { const char *b = p - 1; while (b > txt && b[-1] != '\n') b--; size_t n = (size_t)(p - 1 - b); if (n > 400) n = 400; put_escaped(b, n); }
        printf(" src=");
        if (p) { const char *e = strchr(p, '\n'); size_t n = e ? (size_t)(e - p) : strlen(p); if (n > 20000) n = 20000; put_escaped(p, n); }
        /* number of label definitions that precede the failing line (cause class of the label-table limit) */
        unsigned long labels_before = 0; { const char *q = txt; uint32_t l = 1;
            while (q && *q && l < ar.line) { if (q[0] == 'L' && q[1] >= '0' && q[1] <= '9') { const char *e = q + 1; while (*e >= '0' && *e <= '9') e++; if (*e == ':') labels_before++; }
                q = strchr(q, '\n'); if (q) q++; l++; } }
        printf(" labels_before=%lu\n", labels_before);
        fflush(stdout); free(txt); nvm_module_free(m); return;
    }
    /* ---- compare ---- */
    char detail[1024]; size_t dp = 0; detail[0] = 0;
#define DET(...) do { if (dp < sizeof detail - 200) dp += (size_t)snprintf(detail + dp, sizeof detail - dp, __VA_ARGS__); } while (0)
    int code_same = (m->code_size == m2->code_size) && memcmp(m->code, m2->code, m->code_size) == 0;
    int strs_same = (m->string_count == m2->string_count);
    if (!strs_same) DET("strings %u->%u; ", m->string_count, m2->string_count);
    for (uint32_t i = 0; i < m->string_count && i < m2->string_count; i++) if (!str_eq(m, i, m2, i)) {
        if (strs_same || 1) { DET("str[%u] len %u->%u; ", i, m->string_lengths[i], m2->string_lengths[i]); }
        strs_same = 0; break;
    }
    int fn_meta_same = (m->function_count == m2->function_count), fn_off_same = 1, fn_bytes_same = 1;
    if (!fn_meta_same) DET("functions %u->%u; ", m->function_count, m2->function_count);
    else for (uint32_t i = 0; i < m->function_count; i++) {
        const NvmFunctionEntry *x = &m->functions[i], *y = &m2->functions[i];
        if (x->name_idx != y->name_idx || !str_eq(m, x->name_idx, m2, y->name_idx)) { if (fn_meta_same) DET("fn[%u].name_idx %u->%u; ", i, x->name_idx, y->name_idx); fn_meta_same = 0; }
        if (x->arity != y->arity) { if (fn_meta_same) DET("fn[%u].arity %u->%u; ", i, x->arity, y->arity); fn_meta_same = 0; }
        if (x->local_count != y->local_count) { if (fn_meta_same) DET("fn[%u].local_count %u->%u; ", i, x->local_count, y->local_count); fn_meta_same = 0; }
        if (x->upvalue_count != y->upvalue_count) { if (fn_meta_same) DET("fn[%u].upvalue_count %u->%u; ", i, x->upvalue_count, y->upvalue_count); fn_meta_same = 0; }
        if (x->code_length != y->code_length) { if (fn_meta_same) DET("fn[%u].code_length %u->%u; ", i, x->code_length, y->code_length); fn_meta_same = 0; continue; }
        if (x->code_offset != y->code_offset) { if (fn_off_same) DET("fn[%u].code_offset %u->%u; ", i, x->code_offset, y->code_offset); fn_off_same = 0; }
        if ((uint64_t)x->code_offset + x->code_length > m->code_size || (uint64_t)y->code_offset + y->code_length > m2->code_size) {
            if (fn_bytes_same) DET("fn[%u] code range outside the code section; ", i); fn_bytes_same = 0; continue; }
        if (memcmp(m->code + x->code_offset, m2->code + y->code_offset, x->code_length) != 0) {
            if (fn_bytes_same) { uint32_t k = 0; while (m->code[x->code_offset + k] == m2->code[y->code_offset + k]) k++;
                DET("fn[%u] own bytes differ at +%u (%02x->%02x); ", i, k, m->code[x->code_offset + k], m2->code[y->code_offset + k]); }
            fn_bytes_same = 0;
        }
    }
    if (!code_same) { if (m->code_size != m2->code_size) DET("code_size %u->%u; ", m->code_size, m2->code_size);
        else { uint32_t k = 0; while (m->code[k] == m2->code[k]) k++; DET("code differs at %u; ", k); } }
    /* is the result the packed table-order layout? */
    int packed = 1; { uint32_t off = 0; for (uint32_t i = 0; i < m2->function_count; i++) { if (m2->functions[i].code_offset != off) packed = 0; off += m2->functions[i].code_length; } if (off != m2->code_size) packed = 0; }
    const char *outcome;
    if (code_same && strs_same && fn_meta_same && fn_off_same) outcome = "same";
    else if (strs_same && fn_meta_same && fn_bytes_same) { outcome = "layout"; DET("result_packed=%d; ", packed); }
    else outcome = "content";
    printf("%s\t", outcome); stats(m); printf("\t"); put_escaped(detail, strlen(detail)); printf("\n");
    fflush(stdout);
    free(txt); nvm_module_free(m); nvm_module_free(m2);
}

int main(int argc, char **argv) {
    if (argc >= 3 && strcmp(argv[1], "--text") == 0) {
        long sz; uint8_t *buf = slurp(argv[2], &sz); if (!buf) { fprintf(stderr, "cannot read %s\n", argv[2]); return 2; }
        NvmModule *m = nvm_deserialize(buf, (uint32_t)sz); free(buf);
        if (!m) { fprintf(stderr, "nvm_deserialize returned NULL\n"); return 3; }
        char *txt = disasm_module(m); if (!txt) return 4;
        fputs(txt, stdout); free(txt); nvm_module_free(m);
        return 0;
    }
    if (argc > 1) { for (int a = 1; a < argc; a++) one(argv[a]); return 0; }
    char line[4096];
    while (fgets(line, sizeof line, stdin)) {
        size_t n = strlen(line); while (n && (line[n - 1] == '\n' || line[n - 1] == '\r')) line[--n] = 0;
        if (n) one(line);
    }
    return 0;
}
