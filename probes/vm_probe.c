/* vm_probe: hostile-bytecode driver for property C13.
 *
 *   vm_probe [--fuel N] [--cpu-load S] [--cpu-run S]      cases on stdin, one per line:
 *       <path>            one case = the whole file                      (also:  F <path>)
 *       P <path> [first]  a pack of cases: "NLVPACK1" u32 count, then count x (u32 len, bytes); start at #first
 *   vm_probe --dump-isa   the repository's opcode table, read through isa_get_info:
 *                         OP <hex> <name> <n> <kind>...     kinds: U8 U16 U32 I32 I64 F64
 *
 * For every case the REAL code is run on an exact-size malloc copy of the bytes (an over-read trips ASan):
 *   nvm_deserialize -> nvm_verify -> (accepted and import_count == 0) vm_init, verif_fuel = N (hook H1),
 *   output to /dev/null, vm_execute, vm_destroy, nvm_module_free.
 * Records, one per line, flushed immediately (a crash therefore identifies the case: last S without R):
 *   S <line> <k>                                     case started (input line number, index inside the pack)
 *   V <line> <k>                                     loader and verifier are done, vm_execute starts
 *   R <line> <k> load=0
 *   R <line> <k> load=1 verify=0 verr=<text>
 *   R <line> <k> load=1 verify=1 imports=<n>         (n > 0: not executed)
 *   R <line> <k> load=1 verify=1 imports=0 run=<VmResult> rname=<name> ip=<u> fn=<u> steps=<n> inv=<ok|...>
 *                 off=<failing offset|-1> onwalk=<0|1|-1> anywalk=<0|1|-1> msg=<vm.error_msg>
 *       onwalk: only for VM_ERR_DECODE / VM_ERR_INVALID_OPCODE: 1 = the failing offset is an instruction boundary
 *       of the verifier's linear walk (recomputed here with isa_decode) of the function that was executing
 *       -> the verifier accepted exactly this decode and the VM refused it (the last clause of C13).
 *       anywalk: the same against the walks of all functions.
 *   T <line> <k> phase=<load|verify|run|cleanup>     per-case CPU budget used up (ITIMER_PROF); exit status 99
 *   (the R record is printed after vm_destroy / nvm_module_free: a crash during cleanup belongs to the case)
 *   O <hex>:<count> ...                              executed-opcode histogram (vm.verif_opcount) since the last O
 *   E <cases>                                        normal end of input
 */
#include "nanovm/vm.h"
#include "nanoisa/verifier.h"
#include "nanoisa/nvm_format.h"
#include "nanoisa/isa.h"
#include <stdio.h>
#include <stdlib.h>
#include <string.h>
#include <signal.h>
#include <unistd.h>
#include <sys/time.h>

int g_argc = 0; char **g_argv = NULL;

#ifndef NANOLANG_VERIF
#error "vm_probe needs hook H1 (build with -DNANOLANG_VERIF)"
#endif

static const char *KIND[] = { "NONE", "U8", "U16", "U32", "I32", "I64", "F64" };

static int dump_isa(void) {
    for (int op = 0; op < 256; op++) {
        const InstructionInfo *info = isa_get_info((uint8_t)op);
        if (!info) continue;
        printf("OP %02x %s %u", op, info->name, info->operand_count);
        for (int i = 0; i < info->operand_count && i < MAX_OPERANDS; i++) {
            int k = (int)info->operands[i];
            printf(" %s", (k >= 0 && k <= 6) ? KIND[k] : "NONE");
        }
        printf("\n");
    }
    return 0;
}

/* ---- per-case CPU budget ------------------------------------------------------------------- */
static volatile long cur_line, cur_k;
static volatile int cur_phase;             /* 0 load, 1 verify, 2 run */
static char *put_num(char *p, long v) {
    char tmp[24]; int n = 0;
    if (v < 0) { *p++ = '-'; v = -v; }
    do { tmp[n++] = (char)('0' + v % 10); v /= 10; } while (v);
    while (n) *p++ = tmp[--n];
    return p;
}
static void on_prof(int sig) {
    (void)sig;
    char buf[96], *p = buf;
    *p++ = 'T'; *p++ = ' ';
    p = put_num(p, cur_line); *p++ = ' '; p = put_num(p, cur_k);
    const char *ph = cur_phase == 0 ? " phase=load\n" : cur_phase == 1 ? " phase=verify\n" : cur_phase == 2 ? " phase=run\n" : " phase=cleanup\n";
    while (*ph) *p++ = *ph++;
    ssize_t r = write(1, buf, (size_t)(p - buf)); (void)r;
    _exit(99);
}
static void arm(long seconds) {
    struct itimerval it; memset(&it, 0, sizeof it);
    it.it_value.tv_sec = seconds;
    setitimer(ITIMER_PROF, &it, NULL);
}

/* ---- the verifier's linear walk, recomputed ------------------------------------------------- */
static int on_walk(const NvmModule *m, uint32_t fn_idx, uint32_t abs_off) {
    if (fn_idx >= m->function_count) return 0;
    const NvmFunctionEntry *fn = &m->functions[fn_idx];
    if (abs_off < fn->code_offset) return 0;
    uint32_t rel = abs_off - fn->code_offset, pos = 0;
    while (pos < fn->code_length) {
        if (pos == rel) return 1;
        if (pos > rel) return 0;
        DecodedInstruction di;
        uint32_t n = isa_decode(m->code + fn->code_offset + pos, fn->code_length - pos, &di);
        if (n == 0) return 0;              /* not reached for a module the verifier accepted */
        pos += n;
    }
    return 0;
}

static uint64_t opsum[256];
static void flush_ops(void) {
    int any = 0;
    for (int i = 0; i < 256; i++) if (opsum[i]) {
        if (!any) { printf("O"); any = 1; }
        printf(" %02x:%llu", i, (unsigned long long)opsum[i]);
        opsum[i] = 0;
    }
    if (any) { printf("\n"); fflush(stdout); }
}

static uint64_t fuel = 200000;
static long cpu_load = 10, cpu_run = 20;
static FILE *devnull;
static VmState vm;
static unsigned long n_cases;

static char recbuf[1400];

static void one_case(long line, long k, const uint8_t *src, size_t n) {
    cur_line = line; cur_k = k; cur_phase = 0;
    printf("S %ld %ld\n", line, k); fflush(stdout);
    uint8_t *buf = malloc(n > 0 ? n : 1);
    if (!buf) { printf("R %ld %ld nomem\n", line, k); fflush(stdout); return; }
    if (n > 0) memcpy(buf, src, n);
    arm(cpu_load);
    NvmModule *m = nvm_deserialize(buf, (uint32_t)n);
    free(buf);
    n_cases++;
    /* the R record is printed only after all cleanup, so that a crash in vm_destroy / nvm_module_free
     * still belongs to this case (last S without R) */
    if (!m) { arm(0); printf("R %ld %ld load=0\n", line, k); fflush(stdout); return; }
    cur_phase = 1;
    NvmVerifyResult vr = nvm_verify(m);
    if (!vr.ok) {
        vr.error_msg[NVM_VERIFY_ERROR_SIZE - 1] = 0;
        for (char *c = vr.error_msg; *c; c++) if (*c == '\n' || *c == '\r') *c = ' ';
        snprintf(recbuf, sizeof recbuf, "R %ld %ld load=1 verify=0 verr=%s\n", line, k, vr.error_msg);
        nvm_module_free(m);
        arm(0);
        fputs(recbuf, stdout); fflush(stdout);
        return;
    }
    if (m->import_count > 0) {
        snprintf(recbuf, sizeof recbuf, "R %ld %ld load=1 verify=1 imports=%u\n", line, k, m->import_count);
        nvm_module_free(m);
        arm(0);
        fputs(recbuf, stdout); fflush(stdout);
        return;
    }
    cur_phase = 2;
    printf("V %ld %ld\n", line, k); fflush(stdout);
    arm(cpu_run);
    vm_init(&vm, m);
    vm.output = devnull;
    vm.verif_fuel = fuel;
    VmResult r = vm_execute(&vm);
    uint64_t steps = 0;
    for (int i = 0; i < 256; i++) { steps += vm.verif_opcount[i]; opsum[i] += vm.verif_opcount[i]; }
    /* state bounds named by the property's anchors */
    const char *inv = "ok";
    if (vm.stack_size > vm.stack_capacity) inv = "stack_size>capacity";
    else if (vm.frame_count > VM_MAX_FRAMES) inv = "frame_count>max";
    else if (vm.global_count > VM_MAX_GLOBALS) inv = "global_count>max";
    long off = -1; int onw = -1, anyw = -1;
    if (r == VM_ERR_DECODE || r == VM_ERR_INVALID_OPCODE) {
        uint32_t o = vm.ip;
        if (r == VM_ERR_INVALID_OPCODE) {
            /* ip already points behind the instruction; its length follows from the opcode in the message */
            unsigned opc = 0; const char *x = strstr(vm.error_msg, "0x");
            if (x) opc = (unsigned)strtoul(x, NULL, 16);
            const InstructionInfo *info = isa_get_info((uint8_t)opc);
            uint32_t len = 1;
            if (info) for (int i = 0; i < info->operand_count; i++) len += isa_operand_size(info->operands[i]);
            o = vm.ip - len;
        }
        off = (long)o;
        const NvmModule *em = vm.module ? vm.module : m;
        onw = on_walk(em, vm.current_fn, o);
        anyw = 0;
        for (uint32_t f = 0; f < em->function_count && !anyw; f++) anyw = on_walk(em, f, o);
    }
    vm.error_msg[sizeof vm.error_msg - 1] = 0;
    for (char *c = vm.error_msg; *c; c++) if (*c == '\n' || *c == '\r') *c = ' ';
    char rname[64]; snprintf(rname, sizeof rname, "%s", vm_error_string(r));
    for (char *c = rname; *c; c++) if (*c == ' ') *c = '_';
    snprintf(recbuf, sizeof recbuf,
             "R %ld %ld load=1 verify=1 imports=0 run=%d rname=%s ip=%u fn=%u steps=%llu inv=%s off=%ld onwalk=%d anywalk=%d msg=%s",
             line, k, (int)r, rname, vm.ip, vm.current_fn, (unsigned long long)steps, inv, off, onw, anyw,
             r == VM_OK ? "" : vm.error_msg);
    cur_phase = 3;
    vm_destroy(&vm);
    nvm_module_free(m);
    arm(0);
    fputs(recbuf, stdout); fputc('\n', stdout); fflush(stdout);
}

static uint8_t *slurp(const char *path, size_t *out) {
    FILE *f = fopen(path, "rb"); if (!f) return NULL;
    fseek(f, 0, SEEK_END); long sz = ftell(f); fseek(f, 0, SEEK_SET);
    if (sz < 0) { fclose(f); return NULL; }
    uint8_t *b = malloc(sz > 0 ? (size_t)sz : 1);
    if (!b || fread(b, 1, (size_t)sz, f) != (size_t)sz) { fclose(f); free(b); return NULL; }
    fclose(f); *out = (size_t)sz; return b;
}

static uint32_t rd32(const uint8_t *p) { return (uint32_t)p[0] | ((uint32_t)p[1] << 8) | ((uint32_t)p[2] << 16) | ((uint32_t)p[3] << 24); }

int main(int argc, char **argv) {
    for (int i = 1; i < argc; i++) {
        if (!strcmp(argv[i], "--dump-isa")) return dump_isa();
        else if (!strcmp(argv[i], "--fuel") && i + 1 < argc) fuel = strtoull(argv[++i], NULL, 10);
        else if (!strcmp(argv[i], "--cpu-load") && i + 1 < argc) cpu_load = atol(argv[++i]);
        else if (!strcmp(argv[i], "--cpu-run") && i + 1 < argc) cpu_run = atol(argv[++i]);
        else { fprintf(stderr, "usage: vm_probe [--fuel N] [--cpu-load S] [--cpu-run S] < cases | --dump-isa\n"); return 2; }
    }
    devnull = fopen("/dev/null", "w");
    if (!devnull) { perror("/dev/null"); return 2; }
    struct sigaction sa; memset(&sa, 0, sizeof sa); sa.sa_handler = on_prof; sigaction(SIGPROF, &sa, NULL);
    static char line[8192];
    long lineno = -1;
    while (fgets(line, sizeof line, stdin)) {
        lineno++;
        line[strcspn(line, "\r\n")] = 0;
        if (!line[0]) continue;
        if (line[0] == 'P' && line[1] == ' ') {
            char *path = line + 2; long first = 0;
            char *sp = strrchr(path, ' ');
            if (sp && sp[1] >= '0' && sp[1] <= '9') { first = atol(sp + 1); *sp = 0; }
            size_t sz = 0; uint8_t *pk = slurp(path, &sz);
            if (!pk || sz < 12 || memcmp(pk, "NLVPACK1", 8) != 0) { printf("X %ld badpack\n", lineno); fflush(stdout); free(pk); continue; }
            uint32_t cnt = rd32(pk + 8); size_t pos = 12;
            for (uint32_t k = 0; k < cnt; k++) {
                if (pos + 4 > sz) { printf("X %ld shortpack\n", lineno); fflush(stdout); break; }
                uint32_t ln = rd32(pk + pos); pos += 4;
                if (pos + ln > sz) { printf("X %ld shortpack\n", lineno); fflush(stdout); break; }
                if ((long)k >= first) {
                    one_case(lineno, (long)k, pk + pos, ln);
                    if ((n_cases & 255) == 0) flush_ops();
                }
                pos += ln;
            }
            free(pk);
            continue;
        }
        const char *path = line;
        if (line[0] == 'F' && line[1] == ' ') path = line + 2;
        size_t sz = 0; uint8_t *b = slurp(path, &sz);
        if (!b) { printf("X %ld noread\n", lineno); fflush(stdout); continue; }
        one_case(lineno, 0, b, sz);
        free(b);
        if ((n_cases & 255) == 0) flush_ops();
    }
    flush_ops();
    printf("E %lu\n", n_cases); fflush(stdout);
    return 0;
}
