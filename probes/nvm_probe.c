/* nvm_probe: fault injection against nvm_deserialize (property C12).
 *
 *   nvm_probe faults <file.nvm> <seed> <burst_patterns>
 *
 * Applies, in memory, every single-bit flip of every byte after the 32-byte header, bursts of 2..32
 * bits at every byte offset (burst_patterns seeded patterns per (offset,length)), every truncation
 * length 0..|f|-1, appended tails, and every bit of the magic and version words, and calls the real
 * nvm_deserialize on each.  The faulted buffer is an exact-size malloc block, so an over-read trips ASan.
 * Output: one "ACCEPT <class> <detail>" line per fault that was NOT refused, then a SUMMARY line.
 */
#include "nanoisa/nvm_format.h"
#include <stdio.h>
#include <stdlib.h>
#include <string.h>

int g_argc = 0; char **g_argv = NULL;

static uint64_t rng_state;
static uint32_t rnd(void) { rng_state = rng_state * 6364136223846793005ULL + 1442695040888963407ULL; return (uint32_t)(rng_state >> 33); }

static unsigned long n_flip, a_flip, n_trunc, a_trunc, n_burst, a_burst, n_hdr, a_hdr, n_tail, a_tail, n_ctrl, a_ctrl;
static unsigned long n_byte, a_byte, n_solid, a_solid;

static int try_load(const uint8_t *buf, long n) {
    uint8_t *c = malloc(n > 0 ? (size_t)n : 1);
    if (n > 0) memcpy(c, buf, (size_t)n);
    NvmModule *m = nvm_deserialize(c, (uint32_t)n);
    free(c);
    if (m) { nvm_module_free(m); return 1; }
    return 0;
}

int main(int argc, char **argv) {
    if (argc < 5 || strcmp(argv[1], "faults") != 0) { fprintf(stderr, "usage: nvm_probe faults file seed patterns\n"); return 2; }
    FILE *f = fopen(argv[2], "rb"); if (!f) { perror("open"); return 2; }
    fseek(f, 0, SEEK_END); long sz = ftell(f); fseek(f, 0, SEEK_SET);
    uint8_t *buf = malloc((size_t)sz); if (fread(buf, 1, (size_t)sz, f) != (size_t)sz) return 2; fclose(f);
    rng_state = strtoull(argv[3], NULL, 10) * 2654435761ULL + 12345;
    int patterns = atoi(argv[4]);
    uint8_t *c = malloc((size_t)sz + 8192);

    /* control: the unfaulted file must load (guards the oracle against vacuity) */
    n_ctrl++; if (try_load(buf, sz)) a_ctrl++;

    /* every single-bit flip after the header */
    for (long i = NVM_HEADER_SIZE; i < sz; i++) for (int b = 0; b < 8; b++) {
        memcpy(c, buf, (size_t)sz); c[i] ^= (uint8_t)(1u << b); n_flip++;
        if (try_load(c, sz)) { a_flip++; printf("ACCEPT flip byte=%ld bit=%d\n", i, b); }
    }
    /* every truncation length */
    for (long n = 0; n < sz; n++) { n_trunc++; if (try_load(buf, n)) { a_trunc++; printf("ACCEPT trunc len=%ld\n", n); } }
    /* bursts: first and last bit of the burst flipped, the bits in between random */
    for (long i = NVM_HEADER_SIZE; i < sz; i++) for (int len = 2; len <= 32; len++) for (int p = 0; p < patterns; p++) {
        if ((len > 9) && ((len + i + p) % 3 != 0)) continue;   /* sample long bursts 1:3, all short ones */
        int startbit = (int)(rnd() & 7);
        memcpy(c, buf, (size_t)sz);
        int changed = 0;
        for (int k = 0; k < len; k++) {
            long bit = i * 8 + startbit + k; if (bit / 8 >= sz) break;
            int fl = (k == 0 || k == len - 1) ? 1 : (int)(rnd() & 1);
            if (fl) { c[bit / 8] ^= (uint8_t)(1u << (bit % 8)); changed = 1; }
        }
        if (!changed) continue;
        n_burst++;
        if (try_load(c, sz)) { a_burst++; printf("ACCEPT burst at=%ld start=%d len=%d\n", i, startbit, len); }
    }
    /* every error pattern confined to one byte: each body byte replaced by each of the 255 other values
     * (all bursts of length <= 8 that do not straddle a byte boundary) */
    memcpy(c, buf, (size_t)sz);
    for (long i = NVM_HEADER_SIZE; i < sz; i++) {
        for (int x = 1; x < 256; x++) {
            if ((x & (x - 1)) == 0) continue;          /* single-bit patterns are counted under flips */
            c[i] = buf[i] ^ (uint8_t)x; n_byte++;
            if (try_load(c, sz)) { a_byte++; printf("ACCEPT bytexor byte=%ld xor=0x%02x\n", i, x); }
        }
        c[i] = buf[i];
    }
    /* solid bursts: every bit of a window of 2..32 bits inverted, at every bit offset */
    for (long bit = NVM_HEADER_SIZE * 8L; bit < sz * 8L; bit++) for (int len = 2; len <= 32; len++) {
        if (bit + len > sz * 8L) break;
        if ((bit % 8) == 0 && len <= 8) continue;      /* covered by the byte substitutions */
        memcpy(c, buf, (size_t)sz);
        for (int k = 0; k < len; k++) c[(bit + k) / 8] ^= (uint8_t)(1u << ((bit + k) % 8));
        n_solid++;
        if (try_load(c, sz)) { a_solid++; printf("ACCEPT solidburst bit=%ld len=%d\n", bit, len); }
    }
    /* magic and version words: every bit */
    for (long i = 0; i < 8; i++) for (int b = 0; b < 8; b++) {
        memcpy(c, buf, (size_t)sz); c[i] ^= (uint8_t)(1u << b); n_hdr++;
        if (try_load(c, sz)) { a_hdr++; printf("ACCEPT header byte=%ld bit=%d\n", i, b); }
    }
    /* appended tails */
    static const int tails[] = {1, 2, 3, 4, 7, 8, 12, 16, 31, 32, 33, 64, 255, 256, 1024, 4096};
    for (unsigned t = 0; t < sizeof tails / sizeof tails[0]; t++) for (int kind = 0; kind < 4; kind++) {
        int n = tails[t];
        memcpy(c, buf, (size_t)sz);
        for (int k = 0; k < n; k++) {
            uint8_t v = 0;
            if (kind == 1) v = 0xFF; else if (kind == 2) v = (uint8_t)rnd(); else if (kind == 3) v = buf[NVM_HEADER_SIZE + (k % (sz - NVM_HEADER_SIZE))];
            c[sz + k] = v;
        }
        n_tail++;
        if (try_load(c, sz + n)) { a_tail++; printf("ACCEPT tail n=%d kind=%d\n", n, kind); }
    }
    printf("SUMMARY size=%ld ctrl=%lu/%lu flips=%lu/%lu truncs=%lu/%lu bursts=%lu/%lu header=%lu/%lu tails=%lu/%lu bytexor=%lu/%lu solid=%lu/%lu\n",
           sz, a_ctrl, n_ctrl, a_flip, n_flip, a_trunc, n_trunc, a_burst, n_burst, a_hdr, n_hdr, a_tail, n_tail, a_byte, n_byte, a_solid, n_solid);
    free(c); free(buf);
    return 0;
}
