/* rt_hist_probe: executes operation histories against the real native runtime (property C20).
 *
 *   rt_hist_probe < history          one operation per line; one record per operation on stdout
 *
 * Two ways of building it:
 *   (a) by the framework (probes/<name>.c linked against the flavor's objects): runtime API only;
 *   (b) by nlv/checks/c20.py through the fastcc wrapper with exactly the command line nanoc uses for a program: a tiny
 *       wrapper file includes the C text nanoc generated for a trivial program (so the `static` helpers every native
 *       program carries - nl_array_slice, nl_str_substring, nl_str_concat ... - are callable) and then this file with
 *       NLV_HAVE_PRELUDE defined.  Generated helpers and runtime are then the very objects a program links, with
 *       -fsanitize=address,undefined -fno-sanitize-recover=all (signed overflow and shifts included).
 *
 * Record format:  <the input line> = <result> | <state>      (strings are hex, "-" is the empty string)
 * The driver (c20.py) holds the abstract model and compares every record.  The probe never decides anything.
 *
 * Families (first letter of the op):
 *   a  dyn_array    slots 0..31; kind i=int u=u8 f=float(bits as hex) b=bool s=string a=nested array t=inline struct
 *   l  list_int     m  list_string      g  gc objects (structs with child references, strings, arrays)
 *   s  nl_string_t  c  nl_cstr_* helpers   p  helpers of the generated prelude (only in build (b))
 *   f  the string builder behind to_string (nl_fmt_sb_*, only in build (b))
 *   h  the HashMap<K,V> runtime nanoc generates per instantiation (only in build (b) with NLV_HAVE_HASHMAPS: the
 *      trivial program instantiates string/string, string/int, int/string, int/int); "hold" slots keep what
 *      get / keys / values handed out so that it can be read again after later operations on the map
 *   H <id>          start of a history: forget all slots (objects the history did not release are leaked on purpose)
 */
#ifndef NLV_HAVE_PRELUDE
#ifndef _POSIX_C_SOURCE
#define _POSIX_C_SOURCE 200809L
#endif
#include <stdio.h>
#include <stdint.h>
#include <stdbool.h>
#include <string.h>
#include <stdlib.h>
#include "runtime/gc.h"
#include "runtime/dyn_array.h"
#include "runtime/nl_string.h"
#include "runtime/list_int.h"
#include "runtime/list_string.h"
int g_argc = 0; char **g_argv = NULL;
#endif
#include "runtime/gc_struct.h"
#include <inttypes.h>

#define NSLOT 32
#define MAXTOK 8

static char *hp_line;          /* the current input line (echoed in the record) */

/* every record is flushed: a sanitizer that ends the process (libubsan does not run libasan's death callback) must not
 * take earlier records with it */
static void hp_end(void) {
    fputc('\n', stdout);
    fflush(stdout);
}

/* ---- hex strings ----------------------------------------------------------------------------------------- */
static int hp_hexval(int c) {
    if (c >= '0' && c <= '9') return c - '0';
    if (c >= 'a' && c <= 'f') return c - 'a' + 10;
    return -1;
}

/* decode a hex token into a fresh malloc'd NUL terminated buffer; "-" is the empty string */
static char *hp_unhex(const char *tok, size_t *len_out) {
    size_t n = strlen(tok);
    if (n == 1 && tok[0] == '-') n = 0;
    size_t len = n / 2;
    char *buf = malloc(len + 1);
    if (!buf) { fprintf(stderr, "probe: out of memory\n"); exit(3); }
    for (size_t i = 0; i < len; i++) {
        buf[i] = (char)((hp_hexval(tok[2 * i]) << 4) | hp_hexval(tok[2 * i + 1]));
    }
    buf[len] = '\0';
    if (len_out) *len_out = len;
    return buf;
}

static void hp_puthex(const void *p, size_t len) {
    const unsigned char *b = (const unsigned char *)p;
    if (len == 0) { fputc('-', stdout); return; }
    for (size_t i = 0; i < len; i++) printf("%02x", b[i]);
}

static void hp_putcstr(const char *s) {
    if (!s) { fputs("NULL", stdout); return; }
    hp_puthex(s, strlen(s));
}

static int64_t hp_int(const char *tok) { return (int64_t)strtoll(tok, NULL, 10); }

static uint64_t hp_bits(const char *tok) { return (uint64_t)strtoull(tok, NULL, 16); }

/* ---- dyn_array ------------------------------------------------------------------------------------------- */
static DynArray *A[NSLOT];
static char AK[NSLOT];        /* kind letter of the slot */

static ElementType hp_kind(char k) {
    switch (k) {
        case 'i': return ELEM_INT;
        case 'u': return ELEM_U8;
        case 'f': return ELEM_FLOAT;
        case 'b': return ELEM_BOOL;
        case 's': return ELEM_STRING;
        case 'a': return ELEM_ARRAY;
        default:  return ELEM_STRUCT;
    }
}

static int hp_slot_of(DynArray *p) {
    for (int i = 0; i < NSLOT; i++) if (A[i] == p) return i;
    return -1;
}

/* state of an array: length, capacity; the claimed capacity must be addressable (ASan decides) */
static void hp_astate(int s) {
    DynArray *a = A[s];
    int64_t len = dyn_array_length(a), cap = dyn_array_capacity(a);
    if (a->data && cap > 0 && a->elem_size > 0) {
        volatile unsigned char *d = (volatile unsigned char *)a->data;
        unsigned char first = d[0], last = d[(size_t)cap * a->elem_size - 1];
        (void)first; (void)last;
    }
    printf(" | len=%" PRId64 " cap=%" PRId64, len, cap);
}

static void hp_aelem(int s, int64_t i) {
    DynArray *a = A[s];
    switch (AK[s]) {
        case 'i': printf("%" PRId64, dyn_array_get_int(a, i)); break;
        case 'u': printf("%u", (unsigned)dyn_array_get_u8(a, i)); break;
        case 'f': { double d = dyn_array_get_float(a, i); uint64_t u; memcpy(&u, &d, 8); printf("%016" PRIx64, u); break; }
        case 'b': printf("%d", dyn_array_get_bool(a, i) ? 1 : 0); break;
        case 's': hp_putcstr(dyn_array_get_string(a, i)); break;
        case 'a': printf("@%d", hp_slot_of(dyn_array_get_array(a, i))); break;
        default: {
            void *p = dyn_array_get_struct(a, i);
            if (!p) fputs("NULL", stdout); else hp_puthex(p, a->elem_size);
        }
    }
}

static void hp_array_op(char **t, int nt) {
    const char *op = t[0];
    int s = nt > 1 ? atoi(t[1]) : 0;
    if (s < 0 || s >= NSLOT) { fputs(" = badslot", stdout); return; }
    if (!strcmp(op, "an") || !strcmp(op, "ac")) {
        AK[s] = t[2][0];
        A[s] = !strcmp(op, "an") ? dyn_array_new(hp_kind(AK[s])) : dyn_array_new_with_capacity(hp_kind(AK[s]), hp_int(t[3]));
        fputs(A[s] ? " = ok" : " = NULL", stdout);
        if (A[s]) hp_astate(s);
        return;
    }
    DynArray *a = A[s];
    if (!strcmp(op, "ap")) {            /* push */
        DynArray *r = a;
        switch (AK[s]) {
            case 'i': r = dyn_array_push_int(a, hp_int(t[2])); break;
            case 'u': r = dyn_array_push_u8(a, (uint8_t)hp_int(t[2])); break;
            case 'f': { uint64_t u = hp_bits(t[2]); double d; memcpy(&d, &u, 8); r = dyn_array_push_float(a, d); break; }
            case 'b': r = dyn_array_push_bool(a, hp_int(t[2]) != 0); break;
            case 's': r = dyn_array_push_string(a, hp_unhex(t[2], NULL)); break;   /* the array borrows; the probe leaks it */
            case 'a': r = dyn_array_push_array(a, A[atoi(t[2])]); break;
            default: { size_t n; char *b = hp_unhex(t[2], &n); r = dyn_array_push_struct(a, b, n); free(b); }
        }
        fputs(r == a ? " = same" : " = moved", stdout);
        A[s] = r;
    } else if (!strcmp(op, "apA") || !strcmp(op, "apcA")) {   /* push an element of the array itself: the source aliases the store */
        int64_t i = hp_int(t[2]);
        DynArray *r = a;
        switch (AK[s]) {
            case 'i': r = dyn_array_push_int(a, dyn_array_get_int(a, i)); break;
            case 'u': r = dyn_array_push_u8(a, dyn_array_get_u8(a, i)); break;
            case 'f': r = dyn_array_push_float(a, dyn_array_get_float(a, i)); break;
            case 'b': r = dyn_array_push_bool(a, dyn_array_get_bool(a, i)); break;
            case 's': r = !strcmp(op, "apA") ? dyn_array_push_string(a, dyn_array_get_string(a, i))
                                             : dyn_array_push_string_copy(a, dyn_array_get_string(a, i)); break;
            case 'a': r = dyn_array_push_array(a, dyn_array_get_array(a, i)); break;
            default:  r = dyn_array_push_struct(a, dyn_array_get_struct(a, i), a->elem_size);   /* pointer into the store */
        }
        fputs(r == a ? " = same" : " = moved", stdout);
        A[s] = r;
    } else if (!strcmp(op, "asA")) {    /* asA <s> <i> <j>: element i := element j of the same array */
        int64_t i = hp_int(t[2]), j = hp_int(t[3]);
        switch (AK[s]) {
            case 'i': dyn_array_set_int(a, i, dyn_array_get_int(a, j)); break;
            case 'u': dyn_array_set_u8(a, i, dyn_array_get_u8(a, j)); break;
            case 'f': dyn_array_set_float(a, i, dyn_array_get_float(a, j)); break;
            case 'b': dyn_array_set_bool(a, i, dyn_array_get_bool(a, j)); break;
            case 's': dyn_array_set_string(a, i, dyn_array_get_string(a, j)); break;
            case 'a': dyn_array_set_array(a, i, dyn_array_get_array(a, j)); break;
            default:  dyn_array_set_struct(a, i, dyn_array_get_struct(a, j), a->elem_size);
        }
        fputs(" = ok", stdout);
    } else if (!strcmp(op, "aT")) {     /* to_string of the array: the formatter every program carries */
#ifdef NLV_HAVE_PRELUDE
        fputs(" = ", stdout);
        hp_putcstr(nl_to_string_array(a));
#else
        fputs(" = unsupported", stdout);
#endif
    } else if (!strcmp(op, "apc")) {    /* push_string_copy: the argument buffer is freed right after the call */
        char *b = hp_unhex(t[2], NULL);
        DynArray *r = dyn_array_push_string_copy(a, b);
        memset(b, 'X', strlen(b));
        free(b);
        fputs(r == a ? " = same" : " = moved", stdout);
        A[s] = r;
    } else if (!strcmp(op, "ao")) {     /* pop */
        bool ok = false;
        fputs(" = ", stdout);
        switch (AK[s]) {
            case 'i': { int64_t v = dyn_array_pop_int(a, &ok); printf("%s %" PRId64, ok ? "ok" : "empty", v); break; }
            case 'u': { unsigned v = dyn_array_pop_u8(a, &ok); printf("%s %u", ok ? "ok" : "empty", v); break; }
            case 'f': { double d = dyn_array_pop_float(a, &ok); uint64_t u; memcpy(&u, &d, 8); printf("%s %016" PRIx64, ok ? "ok" : "empty", u); break; }
            case 'b': { bool v = dyn_array_pop_bool(a, &ok); printf("%s %d", ok ? "ok" : "empty", v ? 1 : 0); break; }
            case 's': { const char *v = dyn_array_pop_string(a, &ok); fputs(ok ? "ok " : "empty ", stdout); hp_putcstr(v); break; }
            case 'a': { DynArray *v = dyn_array_pop_array(a, &ok); printf("%s @%d", ok ? "ok" : "empty", v ? hp_slot_of(v) : -1); break; }
            default: {
                size_t n = a->elem_size;
                unsigned char *b = calloc(n ? n : 1, 1);
                dyn_array_pop_struct(a, b, n, &ok);
                fputs(ok ? "ok " : "empty ", stdout);
                hp_puthex(b, ok ? n : 0);
                free(b);
            }
        }
    } else if (!strcmp(op, "ag")) {
        fputs(" = ", stdout);
        hp_aelem(s, hp_int(t[2]));
    } else if (!strcmp(op, "as")) {
        int64_t i = hp_int(t[2]);
        switch (AK[s]) {
            case 'i': dyn_array_set_int(a, i, hp_int(t[3])); break;
            case 'u': dyn_array_set_u8(a, i, (uint8_t)hp_int(t[3])); break;
            case 'f': { uint64_t u = hp_bits(t[3]); double d; memcpy(&d, &u, 8); dyn_array_set_float(a, i, d); break; }
            case 'b': dyn_array_set_bool(a, i, hp_int(t[3]) != 0); break;
            case 's': dyn_array_set_string(a, i, hp_unhex(t[3], NULL)); break;
            case 'a': dyn_array_set_array(a, i, A[atoi(t[3])]); break;
            default: { size_t n; char *b = hp_unhex(t[3], &n); dyn_array_set_struct(a, i, b, n); free(b); }
        }
        fputs(" = ok", stdout);
    } else if (!strcmp(op, "ar")) {
        DynArray *r = dyn_array_remove_at(a, hp_int(t[2]));
        fputs(r == a ? " = same" : " = moved", stdout);
        A[s] = r;
    } else if (!strcmp(op, "ax")) {
        dyn_array_clear(a);
        fputs(" = ok", stdout);
    } else if (!strcmp(op, "av")) {
        dyn_array_reserve(a, hp_int(t[2]));
        fputs(" = ok", stdout);
    } else if (!strcmp(op, "ak")) {     /* ak <dst> <src> */
        int src = atoi(t[2]);
        A[s] = dyn_array_clone(A[src]);
        AK[s] = AK[src];
        fputs(A[s] ? " = ok" : " = NULL", stdout);
        if (!A[s]) return;
    } else if (!strcmp(op, "al")) {     /* al <dst> <src> <start> <length>: the helper every program carries */
#ifdef NLV_HAVE_PRELUDE
        int src = atoi(t[2]);
        A[s] = nl_array_slice(A[src], hp_int(t[3]), hp_int(t[4]));
        AK[s] = AK[src];
        fputs(A[s] ? " = ok" : " = NULL", stdout);
        if (!A[s]) return;
#else
        fputs(" = unsupported", stdout);
        return;
#endif
    } else if (!strcmp(op, "aq")) {
        printf(" = type %d", (int)dyn_array_get_elem_type(a));
    } else if (!strcmp(op, "ad")) {     /* dump */
        int64_t n = dyn_array_length(a);
        fputs(" = [", stdout);
        for (int64_t i = 0; i < n; i++) { if (i) fputc(' ', stdout); hp_aelem(s, i); }
        fputc(']', stdout);
    } else if (!strcmp(op, "af")) {     /* drop the reference: the array and its store are freed */
        gc_release(a);
        A[s] = NULL;
        fputs(" = ok", stdout);
        return;
    } else {
        fputs(" = badop", stdout);
        return;
    }
    hp_astate(s);
}

/* ---- list_int / list_string ------------------------------------------------------------------------------ */
static List_int *LI[NSLOT];
static List_string *LS[NSLOT];

static void hp_list_int_op(char **t, int nt) {
    const char *op = t[0];
    int s = nt > 1 ? atoi(t[1]) : 0;
    if (s < 0 || s >= NSLOT) { fputs(" = badslot", stdout); return; }
    List_int *l = LI[s];
    if (!strcmp(op, "ln")) { l = LI[s] = list_int_new(); fputs(" = ok", stdout); }
    else if (!strcmp(op, "lc")) { l = LI[s] = list_int_with_capacity((int)hp_int(t[2])); fputs(" = ok", stdout); }
    else if (!strcmp(op, "lp")) { list_int_push(l, hp_int(t[2])); fputs(" = ok", stdout); }
    else if (!strcmp(op, "lo")) { printf(" = %" PRId64, list_int_pop(l)); }
    else if (!strcmp(op, "li")) { list_int_insert(l, (int)hp_int(t[2]), hp_int(t[3])); fputs(" = ok", stdout); }
    else if (!strcmp(op, "lr")) { printf(" = %" PRId64, list_int_remove(l, (int)hp_int(t[2]))); }
    else if (!strcmp(op, "ls")) { list_int_set(l, (int)hp_int(t[2]), hp_int(t[3])); fputs(" = ok", stdout); }
    else if (!strcmp(op, "lpA")) { list_int_push(l, list_int_get(l, (int)hp_int(t[2]))); fputs(" = ok", stdout); }
    else if (!strcmp(op, "liA")) { list_int_insert(l, (int)hp_int(t[2]), list_int_get(l, (int)hp_int(t[3]))); fputs(" = ok", stdout); }
    else if (!strcmp(op, "lg")) { printf(" = %" PRId64, list_int_get(l, (int)hp_int(t[2]))); }
    else if (!strcmp(op, "lx")) { list_int_clear(l); fputs(" = ok", stdout); }
    else if (!strcmp(op, "lq")) { printf(" = empty %d", list_int_is_empty(l) ? 1 : 0); }
    else if (!strcmp(op, "ld")) {
        int n = list_int_length(l);
        fputs(" = [", stdout);
        for (int i = 0; i < n; i++) printf(i ? " %" PRId64 : "%" PRId64, list_int_get(l, i));
        fputc(']', stdout);
    }
    else if (!strcmp(op, "lf")) { list_int_free(l); LI[s] = NULL; fputs(" = ok", stdout); return; }
    else { fputs(" = badop", stdout); return; }
    {
        int len = list_int_length(l), cap = list_int_capacity(l);
        if (l->data && cap > 0) { volatile int64_t *d = l->data; int64_t x = d[cap - 1]; (void)x; }
        printf(" | len=%d cap=%d", len, cap);
    }
}

static void hp_list_string_op(char **t, int nt) {
    const char *op = t[0];
    int s = nt > 1 ? atoi(t[1]) : 0;
    if (s < 0 || s >= NSLOT) { fputs(" = badslot", stdout); return; }
    List_string *l = LS[s];
    if (!strcmp(op, "mn")) { l = LS[s] = list_string_new(); fputs(" = ok", stdout); }
    else if (!strcmp(op, "mc")) { l = LS[s] = list_string_with_capacity((int)hp_int(t[2])); fputs(" = ok", stdout); }
    else if (!strcmp(op, "mp")) {       /* the list copies: the argument is scribbled over and freed after the call */
        char *b = hp_unhex(t[2], NULL);
        list_string_push(l, b);
        memset(b, 'X', strlen(b)); free(b);
        fputs(" = ok", stdout);
    }
    else if (!strcmp(op, "mo")) { char *v = list_string_pop(l); fputs(" = ", stdout); hp_putcstr(v); free(v); }   /* ownership moves to the caller */
    else if (!strcmp(op, "mi")) {
        char *b = hp_unhex(t[3], NULL);
        list_string_insert(l, (int)hp_int(t[2]), b);
        memset(b, 'X', strlen(b)); free(b);
        fputs(" = ok", stdout);
    }
    else if (!strcmp(op, "mr")) { char *v = list_string_remove(l, (int)hp_int(t[2])); fputs(" = ", stdout); hp_putcstr(v); free(v); }
    else if (!strcmp(op, "ms")) {
        char *b = hp_unhex(t[3], NULL);
        list_string_set(l, (int)hp_int(t[2]), b);
        memset(b, 'X', strlen(b)); free(b);
        fputs(" = ok", stdout);
    }
    else if (!strcmp(op, "mpA")) { list_string_push(l, list_string_get(l, (int)hp_int(t[2]))); fputs(" = ok", stdout); }   /* own element as source */
    else if (!strcmp(op, "miA")) { list_string_insert(l, (int)hp_int(t[2]), list_string_get(l, (int)hp_int(t[3]))); fputs(" = ok", stdout); }
    else if (!strcmp(op, "msA")) { list_string_set(l, (int)hp_int(t[2]), list_string_get(l, (int)hp_int(t[3]))); fputs(" = ok", stdout); }
    else if (!strcmp(op, "mg")) { char *v = list_string_get(l, (int)hp_int(t[2])); fputs(" = ", stdout); hp_putcstr(v); }
    else if (!strcmp(op, "mx")) { list_string_clear(l); fputs(" = ok", stdout); }
    else if (!strcmp(op, "mq")) { printf(" = empty %d", list_string_is_empty(l) ? 1 : 0); }
    else if (!strcmp(op, "md")) {
        int n = list_string_length(l);
        fputs(" = [", stdout);
        for (int i = 0; i < n; i++) { if (i) fputc(' ', stdout); hp_putcstr(list_string_get(l, i)); }
        fputc(']', stdout);
    }
    else if (!strcmp(op, "mf")) { list_string_free(l); LS[s] = NULL; fputs(" = ok", stdout); return; }
    else { fputs(" = badop", stdout); return; }
    {
        int len = list_string_length(l), cap = list_string_capacity(l);
        if (l->data && cap > 0) { char * volatile *d = l->data; char *x = d[cap - 1]; (void)x; }
        printf(" | len=%d cap=%d", len, cap);
    }
}

/* ---- gc objects ------------------------------------------------------------------------------------------ */
static void *G[NSLOT];        /* pointers are kept after the object died: `gq` asks the runtime whether it is managed */
static char GK[NSLOT];        /* 'S' struct, 's' string, 'a' array */
static size_t hp_gc_base;     /* live objects at the start of the history */

static int hp_gslot_of(void *p) {
    for (int i = 0; i < NSLOT; i++) if (G[i] == p) return i;
    return -1;
}

static void hp_gc_op(char **t, int nt) {
    const char *op = t[0];
    int s = nt > 1 ? atoi(t[1]) : 0;
    if (s < 0 || s >= NSLOT) { fputs(" = badslot", stdout); return; }
    if (!strcmp(op, "gn")) {
        char name[16];
        snprintf(name, sizeof name, "S%d", s);
        G[s] = gc_struct_new(name, (int)hp_int(t[2])); GK[s] = 'S';
        fputs(G[s] ? " = ok" : " = NULL", stdout);
    } else if (!strcmp(op, "gs")) {
        size_t n = (size_t)hp_int(t[2]);
        char *p = gc_alloc_string(n);
        if (p) { memset(p, 'a' + (s % 26), n); }
        G[s] = p; GK[s] = 's';
        printf(" = %s", p ? "ok" : "NULL");
    } else if (!strcmp(op, "ga")) {
        G[s] = dyn_array_new(ELEM_INT); GK[s] = 'a';
        fputs(G[s] ? " = ok" : " = NULL", stdout);
    } else if (!strcmp(op, "gf")) {     /* gf <s> <field> <child>: reference field */
        char fname[16];
        int f = (int)hp_int(t[2]), c = atoi(t[3]);
        snprintf(fname, sizeof fname, "f%d", f);
        gc_struct_set_field((GCStruct *)G[s], f, fname, G[c], GK[c] == 'S' ? FIELD_STRUCT : GK[c] == 's' ? FIELD_STRING : FIELD_ARRAY, true);
        fputs(" = ok", stdout);
    } else if (!strcmp(op, "gi")) {     /* gi <s> <field> <int>: primitive field */
        char fname[16];
        int f = (int)hp_int(t[2]);
        snprintf(fname, sizeof fname, "f%d", f);
        gc_struct_set_field((GCStruct *)G[s], f, fname, (void *)(intptr_t)hp_int(t[3]), FIELD_INT, false);
        fputs(" = ok", stdout);
    } else if (!strcmp(op, "gg")) {     /* gg <s> <field> */
        GCStruct *st = (GCStruct *)G[s];
        int f = (int)hp_int(t[2]);
        void *v = gc_struct_get_field(st, f);
        if (f >= 0 && f < st->field_count && st->field_gc_flags[f]) printf(" = ref @%d", hp_gslot_of(v));
        else printf(" = int %" PRId64, (int64_t)(intptr_t)v);
    } else if (!strcmp(op, "gx")) {     /* gx <s> <field>: look the field up by its name */
        char fname[16];
        snprintf(fname, sizeof fname, "f%d", (int)hp_int(t[2]));
        printf(" = index %d", gc_struct_get_field_index((GCStruct *)G[s], fname));
    } else if (!strcmp(op, "gr")) {
        gc_retain(G[s]);
        fputs(" = ok", stdout);
    } else if (!strcmp(op, "gl")) {
        gc_release(G[s]);
        fputs(" = ok", stdout);
    } else if (!strcmp(op, "gc")) {
        gc_collect_cycles();
        fputs(" = ok", stdout);
    } else if (!strcmp(op, "gk")) {     /* gk <dst> <src> */
        G[s] = gc_struct_clone((GCStruct *)G[atoi(t[2])]); GK[s] = 'S';
        fputs(G[s] ? " = ok" : " = NULL", stdout);
    } else if (!strcmp(op, "gq")) {     /* gq <s>: is the pointer managed, and with which count */
        bool m = gc_is_managed(G[s]);
        if (m) printf(" = live rc=%u", (unsigned)gc_get_header(G[s])->ref_count);
        else fputs(" = dead", stdout);
        return;
    } else if (!strcmp(op, "gw")) {     /* gw <s>: touch the payload of a live object (ASan decides) */
        if (GK[s] == 's') { char *p = G[s]; size_t n = strlen(p); printf(" = str %zu %c", n, n ? p[n - 1] : '-'); }
        else if (GK[s] == 'a') { DynArray *a = G[s]; dyn_array_push_int(a, 7); printf(" = arr %" PRId64, dyn_array_length(a)); }
        else { GCStruct *st = G[s]; printf(" = struct %s %d", st->struct_name, st->field_count); }
    } else {
        fputs(" = badop", stdout);
        return;
    }
    printf(" | live=%" PRId64, (int64_t)gc_get_stats().num_objects - (int64_t)hp_gc_base);
}

/* ---- nl_string_t ----------------------------------------------------------------------------------------- */
static nl_string_t *S[NSLOT];

static void hp_sstate(int s) {
    nl_string_t *x = S[s];
    if (!x) { fputs(" | null", stdout); return; }
    /* the claimed capacity must be addressable (not asked of an empty, unterminated string: nothing of it is in use) */
    if (x->capacity > 0 && (x->length > 0 || x->null_terminated)) { volatile char *d = x->data; char c = d[x->capacity - 1]; (void)c; }
    fputs(" | ", stdout);
    hp_puthex(x->data, x->length);
    printf(" len=%zu capok=%d nt=%d", nl_string_length(x), x->capacity >= x->length + (x->null_terminated ? 1u : 0u) ? 1 : 0,
           x->null_terminated ? 1 : 0);
    if (x->null_terminated) printf(" z=%d", x->data[x->length] == '\0' ? 1 : 0);
}

static void hp_str_op(char **t, int nt) {
    const char *op = t[0];
    int s = nt > 1 ? atoi(t[1]) : 0;
    if (s < 0 || s >= NSLOT) { fputs(" = badslot", stdout); return; }
    if (!strcmp(op, "sn")) { char *b = hp_unhex(t[2], NULL); S[s] = nl_string_new(b); memset(b, 'X', strlen(b)); free(b); fputs(S[s] ? " = ok" : " = NULL", stdout); }
    else if (!strcmp(op, "sb")) { size_t n; char *b = hp_unhex(t[2], &n); S[s] = nl_string_new_binary(b, n); memset(b, 'X', n); free(b); fputs(S[s] ? " = ok" : " = NULL", stdout); }
    else if (!strcmp(op, "su")) { size_t n; char *b = hp_unhex(t[2], &n); S[s] = nl_string_from_utf8(b, n); free(b); fputs(S[s] ? " = ok" : " = NULL", stdout); }
    else if (!strcmp(op, "sw")) { S[s] = nl_string_with_capacity((size_t)hp_int(t[2])); fputs(S[s] ? " = ok" : " = NULL", stdout); }
    else if (!strcmp(op, "sc")) { S[s] = nl_string_concat(S[atoi(t[2])], S[atoi(t[3])]); fputs(S[s] ? " = ok" : " = NULL", stdout); }
    else if (!strcmp(op, "ss")) { S[s] = nl_string_substring(S[atoi(t[2])], (size_t)strtoull(t[3], NULL, 10), (size_t)strtoull(t[4], NULL, 10)); fputs(S[s] ? " = ok" : " = NULL", stdout); }
    else if (!strcmp(op, "sU")) { S[s] = nl_string_utf8_substring(S[atoi(t[2])], (size_t)strtoull(t[3], NULL, 10), (size_t)strtoull(t[4], NULL, 10)); fputs(S[s] ? " = ok" : " = NULL", stdout); }
    else if (!strcmp(op, "sk")) { S[s] = nl_string_clone(S[atoi(t[2])]); fputs(S[s] ? " = ok" : " = NULL", stdout); }
    else if (!strcmp(op, "sl")) { printf(" = utf8len %" PRId64, nl_string_utf8_length(S[s])); }
    else if (!strcmp(op, "sv")) { printf(" = valid %d", nl_string_validate_utf8(S[s]) ? 1 : 0); }
    else if (!strcmp(op, "sa")) { printf(" = cp %d", (int)nl_string_utf8_char_at(S[s], (size_t)strtoull(t[2], NULL, 10))); }
    else if (!strcmp(op, "sy")) { char c = 0; bool ok = nl_string_byte_at_safe(S[s], (size_t)strtoull(t[2], NULL, 10), &c); printf(" = %s %u", ok ? "ok" : "oob", (unsigned)(unsigned char)c); }
    else if (!strcmp(op, "sY")) { printf(" = byte %u", (unsigned)(unsigned char)nl_string_byte_at(S[s], (size_t)strtoull(t[2], NULL, 10))); }
    else if (!strcmp(op, "sr")) { nl_string_reserve(S[s], (size_t)hp_int(t[2])); printf(" = capge %d", S[s]->capacity >= (size_t)hp_int(t[2]) ? 1 : 0); }
    else if (!strcmp(op, "sh")) { nl_string_shrink_to_fit(S[s]); fputs(" = ok", stdout); }
    else if (!strcmp(op, "sz")) { const char *c = nl_string_to_cstr(S[s]); fputs(" = ", stdout); hp_putcstr(c); }
    else if (!strcmp(op, "sZ")) { nl_string_ensure_null_terminated(S[s]); fputs(" = ok", stdout); }
    else if (!strcmp(op, "sB")) { size_t n = 77; const void *p = nl_string_to_binary(S[s], &n); fputs(" = ", stdout); hp_puthex(p, n); }
    else if (!strcmp(op, "se")) { printf(" = eq %d", nl_string_equals(S[s], S[atoi(t[2])]) ? 1 : 0); }
    else if (!strcmp(op, "sE")) { char *b = hp_unhex(t[2], NULL); printf(" = eq %d", nl_string_equals_cstr(S[s], b) ? 1 : 0); free(b); }
    else if (!strcmp(op, "sf")) { nl_string_free(S[s]); S[s] = NULL; fputs(" = ok", stdout); return; }
    else if (!strcmp(op, "sd")) { fputs(" = ok", stdout); }
    else { fputs(" = badop", stdout); return; }
    hp_sstate(s);
}

/* ---- nl_cstr_* and the string helpers of the generated prelude ------------------------------------------- */
static void hp_cstr_op(char **t, int nt) {
    const char *op = t[0];
    bool int_arg = !strcmp(op, "cf") || !strcmp(op, "pi") || !strcmp(op, "pf");
    char *a = (nt > 1 && !int_arg) ? hp_unhex(t[1], NULL) : NULL;
    char *b = NULL;
    fputs(" = ", stdout);
    if (!strcmp(op, "cc")) { b = hp_unhex(t[2], NULL); char *r = nl_cstr_concat(a, b); hp_putcstr(r); free(r); }
    else if (!strcmp(op, "cs")) { char *r = nl_cstr_substring(a, hp_int(t[2]), hp_int(t[3])); hp_putcstr(r); free(r); }
    else if (!strcmp(op, "cn")) { b = hp_unhex(t[2], NULL); printf("%d", nl_cstr_contains(a, b) ? 1 : 0); }
    else if (!strcmp(op, "ci")) { b = hp_unhex(t[2], NULL); printf("%" PRId64, nl_cstr_index_of(a, b)); }
    else if (!strcmp(op, "ch")) { printf("%" PRId64, nl_cstr_char_at(a, hp_int(t[2]))); }
    else if (!strcmp(op, "cl")) { printf("%" PRId64, nl_cstr_length(a)); }
    else if (!strcmp(op, "cf")) { char *r = nl_cstr_from_char(hp_int(t[1])); hp_putcstr(r); free(r); }
#ifdef NLV_HAVE_PRELUDE
    else if (!strcmp(op, "pc")) { b = hp_unhex(t[2], NULL); hp_putcstr(nl_str_concat(a, b)); }
    else if (!strcmp(op, "ps")) { hp_putcstr(nl_str_substring(a, hp_int(t[2]), hp_int(t[3]))); }
    else if (!strcmp(op, "pn")) { b = hp_unhex(t[2], NULL); printf("%d", nl_str_contains(a, b) ? 1 : 0); }
    else if (!strcmp(op, "pe")) { b = hp_unhex(t[2], NULL); printf("%d", nl_str_equals(a, b) ? 1 : 0); }
    else if (!strcmp(op, "pi")) { hp_putcstr(int_to_string(hp_int(t[1]))); }
    else if (!strcmp(op, "pt")) { printf("%" PRId64, string_to_int(a)); }
    else if (!strcmp(op, "ph")) { printf("%" PRId64, char_at(a, hp_int(t[2]))); }
    else if (!strcmp(op, "pf")) { hp_putcstr(string_from_char(hp_int(t[1]))); }
#else
    else if (op[0] == 'p') { fputs("unsupported", stdout); }
#endif
    else fputs("badop", stdout);
    free(a);
    free(b);
}

/* ---- the string builder behind to_string (generated into every program) --------------------------------- */
#ifdef NLV_HAVE_PRELUDE
static nl_fmt_sb_t FB[NSLOT];

static void hp_fmt_op(char **t, int nt) {
    const char *op = t[0];
    int s = nt > 1 ? atoi(t[1]) : 0;
    if (s < 0 || s >= NSLOT) { fputs(" = badslot", stdout); return; }
    nl_fmt_sb_t *sb = &FB[s];
    if (!strcmp(op, "fn")) { *sb = nl_fmt_sb_new((size_t)hp_int(t[2])); fputs(sb->buf ? " = ok" : " = NULL", stdout); }
    else if (!strcmp(op, "fa")) { char *b = hp_unhex(t[2], NULL); nl_fmt_sb_append_cstr(sb, b); memset(b, 'X', strlen(b)); free(b); fputs(" = ok", stdout); }
    else if (!strcmp(op, "fc")) { nl_fmt_sb_append_char(sb, (char)hp_int(t[2])); fputs(" = ok", stdout); }
    else if (!strcmp(op, "fA")) { nl_fmt_sb_append_cstr(sb, nl_fmt_sb_build(sb)); fputs(" = ok", stdout); }   /* appended with its own buffer */
    else if (!strcmp(op, "fb")) { fputs(" = ", stdout); hp_putcstr(nl_fmt_sb_build(sb)); }
    else if (!strcmp(op, "ff")) { free(sb->buf); sb->buf = NULL; sb->len = sb->cap = 0; fputs(" = ok", stdout); return; }
    else { fputs(" = badop", stdout); return; }
    /* the terminator must lie inside the claimed capacity, and the claimed capacity must be there */
    if (sb->buf && sb->cap > 0) { volatile char *d = sb->buf; char c = d[sb->cap - 1]; (void)c; }
    printf(" | len=%zu fits=%d z=%d", sb->len, sb->len + 1 <= sb->cap ? 1 : 0, sb->buf && sb->len < sb->cap && sb->buf[sb->len] == 0 ? 1 : 0);
}
#else
static void hp_fmt_op(char **t, int nt) { (void)t; (void)nt; fputs(" = unsupported", stdout); }
#endif

/* ---- generated HashMap<K,V> ------------------------------------------------------------------------------ */
#ifdef NLV_HAVE_HASHMAPS
static void *HM[NSLOT];
static char HMT[NSLOT][3];          /* "ss" "si" "is" "ii" */
static const char *HOLD_S[NSLOT];   /* strings handed out by get */
static DynArray *HOLD_A[NSLOT];     /* arrays handed out by keys / values */

static int hp_cmp_str(const void *a, const void *b) { return strcmp(*(const char * const *)a, *(const char * const *)b); }
static int hp_cmp_int(const void *a, const void *b) {
    int64_t x = *(const int64_t *)a, y = *(const int64_t *)b;
    return x < y ? -1 : x > y ? 1 : 0;
}

/* contents of an array of keys / values in sorted order (the table order is not part of the contract) */
static void hp_put_sorted(DynArray *a) {
    int64_t n = dyn_array_length(a);
    fputc('[', stdout);
    if (dyn_array_get_elem_type(a) == ELEM_STRING) {
        const char **v = malloc(sizeof(char *) * (size_t)(n ? n : 1));
        for (int64_t i = 0; i < n; i++) v[i] = dyn_array_get_string(a, i);
        qsort(v, (size_t)n, sizeof(char *), hp_cmp_str);
        for (int64_t i = 0; i < n; i++) { if (i) fputc(' ', stdout); hp_putcstr(v[i]); }
        free(v);
    } else {
        int64_t *v = malloc(sizeof(int64_t) * (size_t)(n ? n : 1));
        for (int64_t i = 0; i < n; i++) v[i] = dyn_array_get_int(a, i);
        qsort(v, (size_t)n, sizeof(int64_t), hp_cmp_int);
        for (int64_t i = 0; i < n; i++) printf(i ? " %" PRId64 : "%" PRId64, v[i]);
        free(v);
    }
    fputc(']', stdout);
}

#define HP_ARG_string(name, tok) char *name = hp_unhex(tok, NULL)
#define HP_ARG_int(name, tok) int64_t name = hp_int(tok)
/* string arguments are scribbled over and freed right after the call: the map must have made its own copy */
#define HP_DROP_string(name) do { memset(name, 'X', strlen(name)); free(name); } while (0)
#define HP_DROP_int(name) (void)name
#define HP_SHOW_string(x) hp_putcstr(x)
#define HP_SHOW_int(x) printf("%" PRId64, (int64_t)(x))
#define HP_HOLD_string(slot, x) HOLD_S[slot] = (x)
#define HP_HOLD_int(slot, x) (void)(slot)
#define HP_RT_string const char *
#define HP_RT_int int64_t

#define HP_HASHMAP(K, V) \
static void hp_hm_##K##_##V(char **t, int nt, int s) { \
    HashMap_##K##_##V *m = (HashMap_##K##_##V *)HM[s]; \
    const char *op = t[0]; \
    (void)nt; \
    if (!strcmp(op, "hn")) { m = nl_hashmap_##K##_##V##_new(); HM[s] = m; fputs(m ? " = ok" : " = NULL", stdout); } \
    else if (!strcmp(op, "hp")) { HP_ARG_##K(k, t[2]); HP_ARG_##V(v, t[3]); nl_hashmap_##K##_##V##_put(m, k, v); HP_DROP_##K(k); HP_DROP_##V(v); fputs(" = ok", stdout); } \
    else if (!strcmp(op, "hg")) { HP_ARG_##K(k, t[2]); fputs(" = ", stdout); HP_SHOW_##V(nl_hashmap_##K##_##V##_get(m, k)); HP_DROP_##K(k); } \
    else if (!strcmp(op, "hG")) { HP_ARG_##K(k, t[2]); int hs = atoi(t[3]); HP_RT_##V r = nl_hashmap_##K##_##V##_get(m, k); HP_DROP_##K(k); \
                                  HP_HOLD_##V(hs, r); fputs(" = ", stdout); HP_SHOW_##V(r); } \
    else if (!strcmp(op, "hh")) { HP_ARG_##K(k, t[2]); printf(" = %d", nl_hashmap_##K##_##V##_has(m, k) ? 1 : 0); HP_DROP_##K(k); } \
    else if (!strcmp(op, "hr")) { HP_ARG_##K(k, t[2]); nl_hashmap_##K##_##V##_remove(m, k); HP_DROP_##K(k); fputs(" = ok", stdout); } \
    else if (!strcmp(op, "hl")) { printf(" = %" PRId64, nl_hashmap_##K##_##V##_length(m)); } \
    else if (!strcmp(op, "hx")) { nl_hashmap_##K##_##V##_clear(m); fputs(" = ok", stdout); } \
    else if (!strcmp(op, "hk")) { DynArray *a = nl_hashmap_##K##_##V##_keys(m); HOLD_A[atoi(t[2])] = a; fputs(" = ", stdout); hp_put_sorted(a); } \
    else if (!strcmp(op, "hv")) { DynArray *a = nl_hashmap_##K##_##V##_values(m); HOLD_A[atoi(t[2])] = a; fputs(" = ", stdout); hp_put_sorted(a); } \
    else if (!strcmp(op, "hf")) { nl_hashmap_##K##_##V##_free(m); HM[s] = NULL; fputs(" = ok", stdout); return; } \
    else { fputs(" = badop", stdout); return; } \
    printf(" | size=%" PRId64, nl_hashmap_##K##_##V##_length((HashMap_##K##_##V *)HM[s])); \
}

HP_HASHMAP(string, string)
HP_HASHMAP(string, int)
HP_HASHMAP(int, string)
HP_HASHMAP(int, int)

static void hp_hashmap_op(char **t, int nt) {
    const char *op = t[0];
    int s = nt > 1 ? atoi(t[1]) : 0;
    if (s < 0 || s >= NSLOT) { fputs(" = badslot", stdout); return; }
    if (!strcmp(op, "hH")) { fputs(" = ", stdout); hp_putcstr(HOLD_S[s]); return; }       /* read a held string again */
    if (!strcmp(op, "hA")) { fputs(" = ", stdout); hp_put_sorted(HOLD_A[s]); return; }    /* read a held array again */
    if (!strcmp(op, "hn")) { HMT[s][0] = t[2][0]; HMT[s][1] = t[2][1]; HMT[s][2] = 0; }
    if (!strcmp(HMT[s], "ss")) hp_hm_string_string(t, nt, s);
    else if (!strcmp(HMT[s], "si")) hp_hm_string_int(t, nt, s);
    else if (!strcmp(HMT[s], "is")) hp_hm_int_string(t, nt, s);
    else hp_hm_int_int(t, nt, s);
}
#else
static void hp_hashmap_op(char **t, int nt) { (void)t; (void)nt; fputs(" = unsupported", stdout); }
#endif

int main(void) {
    static char line[1 << 16];
    char *tok[MAXTOK];
    static char echo[1 << 16];
    hp_gc_base = gc_get_stats().num_objects;
    while (fgets(line, sizeof line, stdin)) {
        size_t n = strlen(line);
        while (n && (line[n - 1] == '\n' || line[n - 1] == '\r')) line[--n] = '\0';
        if (!n) continue;
        memcpy(echo, line, n + 1);
        hp_line = echo;
        int nt = 0;
        for (char *p = strtok(line, " "); p && nt < MAXTOK; p = strtok(NULL, " ")) tok[nt++] = p;
        if (!nt) continue;
        fputs(hp_line, stdout);
        if (!strcmp(tok[0], "H")) {
            memset(A, 0, sizeof A); memset(LI, 0, sizeof LI); memset(LS, 0, sizeof LS);
            memset(G, 0, sizeof G); memset(S, 0, sizeof S);
#ifdef NLV_HAVE_HASHMAPS
            memset(HM, 0, sizeof HM); memset(HOLD_S, 0, sizeof HOLD_S); memset(HOLD_A, 0, sizeof HOLD_A);
#endif
            hp_gc_base = gc_get_stats().num_objects;
            fputs(" = start", stdout);
        } else {
            switch (tok[0][0]) {
                case 'a': hp_array_op(tok, nt); break;
                case 'l': hp_list_int_op(tok, nt); break;
                case 'm': hp_list_string_op(tok, nt); break;
                case 'g': hp_gc_op(tok, nt); break;
                case 's': hp_str_op(tok, nt); break;
                case 'c': case 'p': hp_cstr_op(tok, nt); break;
                case 'h': hp_hashmap_op(tok, nt); break;
                case 'f': hp_fmt_op(tok, nt); break;
                default: fputs(" = badop", stdout);
            }
        }
        hp_end();
    }
    fflush(stdout);
    return 0;
}
