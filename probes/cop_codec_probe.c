/* cop_codec_probe: round-trip / buffer-bound monitor for the co-process value codec (property C15).
 *
 *   cop_codec_probe run <seed> <first_case> <count>
 *   cop_codec_probe imports <file.nvm>          (prints the import table: what OP_CALL_EXTERN can reach)
 *
 * Case i is generated from (seed, i) only, so `run <seed> <i> 1` replays a single case.
 * For every generated value v of a transferable type (int, float by bit pattern, bool, string with
 * explicit length and arbitrary bytes, opaque, void, arrays of these incl. empty / nested / mixed):
 *   1. need := cop_serialize_value(v, roomy buffer);               need > 0
 *   2. serialising into an exact-size block of `need` (and need+1) bytes gives the same bytes;
 *   3. cop_deserialize_value(exact copy) consumes exactly `need` and yields a value equal to v in tag,
 *      payload bits, string length+bytes(+NUL terminator), array elem_type/length/elements (recursive);
 *      the same holds when the encoding is followed by unrelated bytes (requests concatenate values);
 *   4. for every buffer size k < need (all k when need <= FULL_LIMIT, otherwise both ends, the
 *      neighbourhood of interior boundaries and a seeded sample) serialisation is refused (returns 0);
 *      the buffer is an exact-size malloc block, so a write past k trips ASan (a canary is used when
 *      the probe is built without ASan);
 *   5. for every proper prefix k < need (same selection) deserialisation is refused (returns 0);
 *      the prefix is an exact-size malloc block, so an over-read trips ASan.
 * Source values live in one VmHeap, decoded values in another (as in VM vs nano_cop).
 * Output: "FAIL <class> case=<i> shape=<shape> <detail>" per failed expectation, "SHAPE <shape> <n>"
 * per distinct value shape, and one SUMMARY line.
 */
#include "nanovm/cop_protocol.h"
#include "nanovm/heap.h"
#include "nanoisa/nvm_format.h"
#include <stdio.h>
#include <stdlib.h>
#include <string.h>
#include <inttypes.h>

int g_argc = 0; char **g_argv = NULL;

#if defined(__SANITIZE_ADDRESS__)
#define HAVE_ASAN 1
#else
#define HAVE_ASAN 0
#endif

#define FULL_LIMIT 1536          /* encodings up to this size get every k in [0,need) */
#define MAX_FAIL_LINES 60

static long g_case = -1;
static const char *g_phase = "";
/* called by the ASan runtime before it prints a report: names the case for the driver */
void __asan_on_error(void);
void __asan_on_error(void) { fprintf(stderr, "COP_CODEC_PROBE_CASE %ld phase=%s\n", g_case, g_phase); }

/* ---------------------------------------------------------------- rng */
static uint64_t rs;
static uint64_t r64(void) { uint64_t z = (rs += 0x9E3779B97F4A7C15ULL); z = (z ^ (z >> 30)) * 0xBF58476D1CE4E5B9ULL; z = (z ^ (z >> 27)) * 0x94D049BB133111EBULL; return z ^ (z >> 31); }
static uint32_t rn(uint32_t n) { return n ? (uint32_t)(r64() % n) : 0; }
static void seed_case(uint64_t seed, uint64_t i) { rs = seed * 0xD1342543DE82EF95ULL + i * 0x2545F4914F6CDD1DULL + 0x1234567; (void)r64(); (void)r64(); }

/* ---------------------------------------------------------------- heaps */
static VmHeap src_heap, dst_heap;

/* Free everything a heap still owns (objects orphaned by a refused decode included) and start afresh. */
static void heap_reset(VmHeap *h) {
#ifdef NANOLANG_VERIF
    VerifReg *r = h->verif_reg;
    if (r) {
        for (uint32_t i = 0; i < r->cap; i++) {
            void *p = r->slots[i];
            if (!p || p == (void *)1) continue;
            if (((VmHeapHeader *)p)->obj_type == TAG_ARRAY) { VmArray *a = p; free(a->elements); free(a); r->slots[i] = (void *)1; }
        }
    }
#endif
    vm_heap_destroy(h);      /* frees every interned string and the registry */
    vm_heap_init(h);
}
static int heap_dirty(const VmHeap *h) {
#ifdef NANOLANG_VERIF
    return h->verif_reg != NULL && h->verif_reg->count > 0;
#else
    return h->intern_count > 0 || h->stats.num_objects > 0;
#endif
}

/* ---------------------------------------------------------------- value generation */
static long budget;              /* remaining payload bytes this case may allocate */
static char shape[256];
static size_t shape_len;
static void shp(const char *s) { size_t n = strlen(s); if (shape_len + n < sizeof shape - 1) { memcpy(shape + shape_len, s, n); shape_len += n; shape[shape_len] = 0; } }

static unsigned long n_by_type[16];

static NanoValue gen_int(int quiet) {
    static const int64_t sp[] = {0, 1, -1, 2, -2, 127, 128, 255, 256, -128, -129, 32767, 65535, 65536,
        2147483647LL, 2147483648LL, -2147483648LL, -2147483649LL, 4294967295LL, 4294967296LL,
        INT64_MAX, INT64_MIN, INT64_MAX - 1, INT64_MIN + 1, 0x0102030405060708LL, (int64_t)0x8080808080808080ULL};
    int64_t v; const char *c;
    switch (rn(4)) {
    case 0: v = sp[rn(sizeof sp / sizeof sp[0])]; c = (v == INT64_MIN) ? "min" : (v == INT64_MAX) ? "max" : v < 0 ? "spneg" : "sp"; break;
    case 1: v = (int64_t)r64(); c = v < 0 ? "neg64" : "pos64"; break;
    case 2: v = (int64_t)(r64() >> (1 + rn(62))); if (rn(2)) v = -v; c = v < 0 ? "negvar" : "posvar"; break;
    default: v = (int64_t)rn(1000) - 500; c = v < 0 ? "smallneg" : "small"; break;
    }
    if (!quiet) { shp("i."); shp(c); }
    n_by_type[TAG_INT]++;
    return val_int(v);
}

static NanoValue gen_float(int quiet) {
    uint64_t b; const char *c;
    switch (rn(10)) {
    case 0: b = 0; c = "+0"; break;
    case 1: b = 0x8000000000000000ULL; c = "-0"; break;
    case 2: b = 0x7FF0000000000000ULL; c = "+inf"; break;
    case 3: b = 0xFFF0000000000000ULL; c = "-inf"; break;
    case 4: b = 0x7FF8000000000000ULL | (r64() & 0x0007FFFFFFFFFFFFULL) | ((uint64_t)rn(2) << 63); c = "qnan"; break;
    case 5: b = 0x7FF0000000000000ULL | ((r64() & 0x0007FFFFFFFFFFFFULL) | 1) | ((uint64_t)rn(2) << 63); c = "snan"; break;
    case 6: b = (r64() & 0x000FFFFFFFFFFFFFULL) | ((uint64_t)rn(2) << 63); if (!(b << 1)) b |= 1; c = "denorm"; break;
    case 7: { double d = (double)((int64_t)rn(2000) - 1000) / 8.0; memcpy(&b, &d, 8); c = "smallfrac"; break; }
    default: b = r64(); {
            uint64_t e = (b >> 52) & 0x7FF;
            c = e == 0x7FF ? ((b << 12) ? "rnan" : "rinf") : e == 0 ? "rdenorm" : (b >> 63) ? "rneg" : "rpos"; }
        break;
    }
    NanoValue v = val_float(0.0);
    memcpy(&v.as.f64, &b, 8);          /* no arithmetic on the value: the bit pattern is the datum */
    if (!quiet) { shp("f."); shp(c); }
    n_by_type[TAG_FLOAT]++;
    return v;
}

static NanoValue gen_bool(int quiet) {
    int b = (int)rn(2);
    if (!quiet) shp(b ? "b.true" : "b.false");
    n_by_type[TAG_BOOL]++;
    return val_bool(b != 0);
}

static NanoValue gen_opaque(int quiet) {
    NanoValue v = {0};
    v.tag = TAG_OPAQUE;
    v.as.i64 = rn(4) ? (int64_t)r64() : (int64_t)(0x00007f0000000000ULL | (r64() & 0xFFFFFFFFFFULL));
    if (!quiet) shp("o");
    n_by_type[TAG_OPAQUE]++;
    return v;
}

static const char *len_bucket(uint32_t n) {
    return n == 0 ? "0" : n == 1 ? "1" : n < 16 ? "2-15" : n < 256 ? "16-255" : n < 4096 ? "256-4095" :
           n < 8192 ? "4096-8191" : n < 65535 ? "8192-65534" : n <= 65537 ? "64Ki+-1" : ">64Ki";
}

static NanoValue gen_string(int quiet, int small_only) {
    uint32_t len;
    uint32_t k = rn(small_only ? 40 : 400);
    static const uint32_t edges[] = {4090, 4091, 4092, 4095, 4096, 4097, 8175, 8181, 8182, 8186, 8187, 8188, 8191, 8192, 8193,
                                     16384, 65530, 65531, 65535, 65536, 65537, 70001, 131072};
    if (k < 6) len = 0;
    else if (k < 10) len = 1;
    else if (k < 24) len = 2 + rn(14);
    else if (k < 36) len = 16 + rn(240);
    else if (k < 40) len = 256 + rn(1200);
    else if (k < 396) len = rn(64);
    else if (k < 398) len = edges[rn(sizeof edges / sizeof edges[0])];
    else len = 1536 + rn(70000);
    if ((long)len > budget) len = budget > 0 ? (uint32_t)rn((uint32_t)budget) : 0;
    budget -= (long)len + 32;
    char *tmp = malloc((size_t)len + 1);
    int cc = (int)rn(6);
    const char *c;
    switch (cc) {
    case 0: for (uint32_t i = 0; i < len; i++) tmp[i] = (char)(32 + rn(95)); c = "ascii"; break;
    case 1: for (uint32_t i = 0; i < len; i++) tmp[i] = (char)(128 + rn(128)); c = "high"; break;
    case 2: for (uint32_t i = 0; i < len; i++) tmp[i] = (char)rn(256); c = "any"; break;        /* embedded NULs too */
    case 3: memset(tmp, 0xFF, len); c = "ff"; break;
    case 4: memset(tmp, 0, len); c = "nul"; break;
    default: for (uint32_t i = 0; i < len; i++) tmp[i] = (char)(i * 7 + 1); c = "ramp"; break;
    }
    tmp[len] = 0;
    VmString *s = vm_string_new(&src_heap, tmp, len);
    free(tmp);
    if (!quiet) { shp("s."); shp(len_bucket(len)); shp("."); shp(len ? c : "-"); }
    n_by_type[TAG_STRING]++;
    return val_string(s);
}

static NanoValue gen_value(int depth, int quiet, int forced_tag);

static NanoValue gen_array(int depth, int quiet) {
    static const uint8_t etags[] = {TAG_INT, TAG_FLOAT, TAG_BOOL, TAG_STRING, TAG_ARRAY, TAG_OPAQUE, TAG_VOID};
    uint8_t et = etags[rn(depth >= 3 ? 4 : 7)];
    uint32_t count, k = rn(100);
    if (k < 14) count = 0;
    else if (k < 26) count = 1;
    else if (k < 80) count = 2 + rn(7);
    else if (k < 96) count = 9 + rn(56);
    else if (k < 99) count = 900 + rn(20);      /* around the 908/909-element request-buffer boundary */
    else count = 1000 + rn(3000);
    if (depth > 0 && count > 40) count = rn(12);
    int mixed = (count > 1 && rn(12) == 0);     /* elements whose own tags differ from elem_type */
    VmArray *a = vm_array_new(&src_heap, et, count ? count : 4);
    if (!quiet) {
        char b[48];
        snprintf(b, sizeof b, "a%d[%s%s", depth, count == 0 ? "0" : count == 1 ? "1" : count < 9 ? "2-8" : count < 65 ? "9-64" : count < 1000 ? "9xx" : "1k+", mixed ? ",mixed" : "");
        shp(b); shp(":");
    }
    uint32_t made = 0;
    for (uint32_t i = 0; i < count && budget > 0; i++) {
        int q = quiet || i > 0;                 /* the shape records the first element only */
        NanoValue e = gen_value(depth + 1, q, mixed ? -1 : (int)et);
        budget -= 16;
        vm_array_push(a, e);
        vm_release(&src_heap, e);               /* the array holds the only reference now */
        made++;
    }
    if (!quiet) { if (!made) { char t[8]; snprintf(t, sizeof t, "t%d", et); shp(t); } shp("]"); }
    n_by_type[TAG_ARRAY]++;
    return val_array(a);
}

static NanoValue gen_value(int depth, int quiet, int forced_tag) {
    int tag = forced_tag;
    if (tag < 0) {
        uint32_t k = rn(100);
        tag = k < 16 ? TAG_INT : k < 34 ? TAG_FLOAT : k < 42 ? TAG_BOOL : k < 66 ? TAG_STRING :
              k < 72 ? TAG_OPAQUE : k < 76 ? TAG_VOID : TAG_ARRAY;
        if (depth >= 3 && tag == TAG_ARRAY) tag = TAG_STRING;
    }
    switch (tag) {
    case TAG_INT: return gen_int(quiet);
    case TAG_FLOAT: return gen_float(quiet);
    case TAG_BOOL: return gen_bool(quiet);
    case TAG_STRING: return gen_string(quiet, depth > 0);
    case TAG_OPAQUE: return gen_opaque(quiet);
    case TAG_ARRAY: if (depth >= 4) { if (!quiet) shp("v"); n_by_type[TAG_VOID]++; return val_void(); } return gen_array(depth, quiet);
    default: if (!quiet) shp("v"); n_by_type[TAG_VOID]++; return val_void();
    }
}

/* ---------------------------------------------------------------- comparison */
static char why[200];
static int value_eq(const NanoValue *a, const NanoValue *b, int depth) {
    if (a->tag != b->tag) { snprintf(why, sizeof why, "tag %u -> %u (depth %d)", a->tag, b->tag, depth); return 0; }
    switch (a->tag) {
    case TAG_INT: case TAG_OPAQUE: case TAG_FLOAT: {
        uint64_t x, y; memcpy(&x, &a->as, 8); memcpy(&y, &b->as, 8);
        if (x != y) { snprintf(why, sizeof why, "tag %u bits %016" PRIx64 " -> %016" PRIx64 " (depth %d)", a->tag, x, y, depth); return 0; }
        return 1; }
    case TAG_BOOL: {
        uint8_t x, y; memcpy(&x, &a->as, 1); memcpy(&y, &b->as, 1);
        if (x != y) { snprintf(why, sizeof why, "bool byte %u -> %u", x, y); return 0; }
        return 1; }
    case TAG_STRING: {
        const VmString *s = a->as.string, *t = b->as.string;
        uint32_t sl = s ? s->length : 0;
        if (!t) { snprintf(why, sizeof why, "string of %u bytes -> NULL string", sl); return 0; }
        if (sl != t->length) { snprintf(why, sizeof why, "string length %u -> %u", sl, t->length); return 0; }
        if (sl && memcmp(s->data, t->data, sl) != 0) {
            uint32_t i = 0; while (s->data[i] == t->data[i]) i++;
            snprintf(why, sizeof why, "string byte %u of %u: %02x -> %02x", i, sl, (uint8_t)s->data[i], (uint8_t)t->data[i]); return 0; }
        if (t->data[t->length] != '\0') { snprintf(why, sizeof why, "decoded string of %u bytes lacks its NUL terminator", sl); return 0; }
        return 1; }
    case TAG_ARRAY: {
        const VmArray *x = a->as.array, *y = b->as.array;
        uint32_t xl = x ? x->length : 0;
        if (!y) { snprintf(why, sizeof why, "array of %u -> NULL array", xl); return 0; }
        if (x && x->elem_type != y->elem_type) { snprintf(why, sizeof why, "array elem_type %u -> %u (depth %d)", x->elem_type, y->elem_type, depth); return 0; }
        if (xl != y->length) { snprintf(why, sizeof why, "array length %u -> %u (depth %d)", xl, y->length, depth); return 0; }
        for (uint32_t i = 0; i < xl; i++) if (!value_eq(&x->elements[i], &y->elements[i], depth + 1)) {
            size_t n = strlen(why); snprintf(why + n, sizeof why - n, " @[%u]", i); return 0; }
        return 1; }
    case TAG_VOID: return 1;
    default: snprintf(why, sizeof why, "unexpected tag %u", a->tag); return 0;
    }
}

/* documented size of the encoding (cop_protocol.h): used to size the roomy buffer and to collect the
 * interior boundaries (starts of elements / of string bytes) whose neighbourhood is always probed */
#define MAX_MARKS 96
static uint32_t marks[MAX_MARKS]; static int n_marks;
static uint64_t doc_size(const NanoValue *v, uint64_t at) {
    if (n_marks < MAX_MARKS) marks[n_marks++] = (uint32_t)at;
    switch (v->tag) {
    case TAG_INT: case TAG_FLOAT: case TAG_OPAQUE: return 9;
    case TAG_BOOL: return 2;
    case TAG_STRING: if (n_marks < MAX_MARKS) marks[n_marks++] = (uint32_t)at + 5; return 5 + (uint64_t)(v->as.string ? v->as.string->length : 0);
    case TAG_ARRAY: { uint64_t n = 6; const VmArray *a = v->as.array;
        if (a) for (uint32_t i = 0; i < a->length; i++) n += doc_size(&a->elements[i], at + n);
        return n; }
    default: return 1;
    }
}

/* ---------------------------------------------------------------- the monitor */
static unsigned long n_cases, n_fail, n_short, n_prefix, n_full, n_sampled, n_rt, max_need, n_sizediff, n_fail_printed;
static unsigned long long bytes_encoded;

static void fail(const char *cls, const char *detail) {
    n_fail++;
    if (n_fail_printed++ < MAX_FAIL_LINES) printf("FAIL %s case=%ld shape=%s %s\n", cls, g_case, shape, detail);
}

#define CANARY 24
static uint8_t *guarded_alloc(uint32_t k) {
#if HAVE_ASAN
    return malloc(k);                           /* exact size: the redzone is the guard */
#else
    uint8_t *p = malloc((size_t)k + CANARY); memset(p + k, 0xA5, CANARY); return p;
#endif
}
static int guarded_ok(const uint8_t *p, uint32_t k) {
#if HAVE_ASAN
    (void)p; (void)k; return 1;
#else
    for (int i = 0; i < CANARY; i++) if (p[k + i] != 0xA5) return 0; return 1;
#endif
}

static void probe_k(const NanoValue *v, const uint8_t *enc, uint32_t need, uint32_t k) {
    char d[160];
    /* short output buffer */
    g_phase = "serialize-short";
    uint8_t *b = guarded_alloc(k);
    uint32_t n = cop_serialize_value(v, b, k);
    if (!guarded_ok(b, k)) { snprintf(d, sizeof d, "need=%u buf=%u: bytes behind the buffer were written", need, k); fail("serialize-overrun", d); }
    free(b);
    n_short++;
    if (n != 0) { snprintf(d, sizeof d, "need=%u buf=%u: returned %u instead of refusing", need, k, n); fail("serialize-short-accepted", d); }
    /* proper prefix as input */
    g_phase = "deserialize-prefix";
    uint8_t *p = malloc(k);
    if (k) memcpy(p, enc, k);
    NanoValue out = val_void();
    uint32_t c = cop_deserialize_value(p, k, &out, &dst_heap);
    free(p);
    n_prefix++;
    if (c != 0) { snprintf(d, sizeof d, "need=%u prefix=%u: consumed %u instead of refusing", need, k, c); fail("deserialize-prefix-accepted", d); }
    if (heap_dirty(&dst_heap)) heap_reset(&dst_heap);
}

static void one_case(uint64_t seed, long idx) {
    char d[400];
    g_case = idx; seed_case(seed, (uint64_t)idx);
    shape_len = 0; shape[0] = 0; budget = 400000;
    g_phase = "generate";
    NanoValue v = gen_value(0, 0, -1);
    n_cases++;
    n_marks = 0;
    uint64_t doc = doc_size(&v, 0);
    uint32_t room = (uint32_t)doc + 64;
    uint8_t *big = malloc(room);
    memset(big, 0xEE, room);
    g_phase = "serialize-roomy";
    uint32_t need = cop_serialize_value(&v, big, room);
    if (need == 0) { snprintf(d, sizeof d, "refused with a buffer of %u bytes (documented size %" PRIu64 ")", room, doc); fail("serialize-refused", d); goto done; }
    if (need != doc) n_sizediff++;
    if (need > max_need) max_need = need;
    bytes_encoded += need;
    for (uint32_t i = need; i < room; i++) if (big[i] != 0xEE) { snprintf(d, sizeof d, "returned %u but byte %u was written", need, i); fail("serialize-length-understated", d); break; }

    /* exact-size and one-larger buffers */
    for (uint32_t extra = 0; extra <= 1; extra++) {
        g_phase = "serialize-exact";
        uint8_t *b = guarded_alloc(need + extra);
        uint32_t n = cop_serialize_value(&v, b, need + extra);
        if (n != need) { snprintf(d, sizeof d, "need=%u buf=%u: returned %u", need, need + extra, n); fail("serialize-exact-refused", d); }
        else if (memcmp(b, big, need) != 0) { snprintf(d, sizeof d, "need=%u buf=%u: bytes differ from the first encoding", need, need + extra); fail("serialize-unstable", d); }
        if (!guarded_ok(b, need + extra)) { snprintf(d, sizeof d, "need=%u buf=%u: bytes behind the buffer were written", need, need + extra); fail("serialize-overrun", d); }
        free(b);
    }
    /* round trip, from an exact copy and from a copy followed by other bytes */
    for (uint32_t tail = 0; tail <= 7; tail += 7) {
        g_phase = "deserialize-roundtrip";
        uint8_t *in = malloc(need + tail);
        memcpy(in, big, need);
        for (uint32_t i = 0; i < tail; i++) in[need + i] = (uint8_t)(tail == 7 ? (i & 1 ? 0x05 : 0xFF) : 0);
        NanoValue out = val_void();
        uint32_t c = cop_deserialize_value(in, need + tail, &out, &dst_heap);
        free(in);
        n_rt++;
        if (c != need) { snprintf(d, sizeof d, "produced %u bytes, consumed %u (trailing bytes %u)", need, c, tail); fail(c == 0 ? "roundtrip-refused" : "roundtrip-consumed-length", d); }
        if (c != 0 && !value_eq(&v, &out, 0)) { snprintf(d, sizeof d, "need=%u tail=%u: %s", need, tail, why); fail("roundtrip-value", d); }
        if (heap_dirty(&dst_heap)) heap_reset(&dst_heap);
    }
    /* refusal of every short buffer / proper prefix */
    if (need <= FULL_LIMIT) {
        n_full++;
        for (uint32_t k = 0; k < need; k++) probe_k(&v, big, need, k);
    } else {
        n_sampled++;
        uint32_t edge = 160;
        for (uint32_t k = 0; k < edge; k++) probe_k(&v, big, need, k);
        for (uint32_t k = need - edge; k < need; k++) probe_k(&v, big, need, k);
        for (int m = 0; m < n_marks; m++) for (int dlt = -3; dlt <= 3; dlt++) {
            int64_t k = (int64_t)marks[m] + dlt;
            if (k >= (int64_t)edge && k < (int64_t)(need - edge)) probe_k(&v, big, need, (uint32_t)k);
        }
        for (int s = 0; s < 120; s++) probe_k(&v, big, need, edge + rn(need - 2 * edge));
    }
done:
    free(big);
    heap_reset(&src_heap);
    if (heap_dirty(&dst_heap)) heap_reset(&dst_heap);
}

/* ---------------------------------------------------------------- shape histogram */
#define SH_CAP 8192
static struct { char *s; unsigned long n; } sh[SH_CAP];
static void shape_count(void) {
    uint32_t h = 2166136261u;
    for (const char *p = shape; *p; p++) { h ^= (uint8_t)*p; h *= 16777619u; }
    for (uint32_t i = h % SH_CAP, n = 0; n < SH_CAP; n++, i = (i + 1) % SH_CAP) {
        if (!sh[i].s) { sh[i].s = strdup(shape); sh[i].n = 1; return; }
        if (strcmp(sh[i].s, shape) == 0) { sh[i].n++; return; }
    }
}

static int cmd_imports(const char *path) {
    FILE *f = fopen(path, "rb"); if (!f) { perror("open"); return 2; }
    fseek(f, 0, SEEK_END); long sz = ftell(f); fseek(f, 0, SEEK_SET);
    uint8_t *buf = malloc((size_t)sz); if (fread(buf, 1, (size_t)sz, f) != (size_t)sz) return 2; fclose(f);
    NvmModule *m = nvm_deserialize(buf, (uint32_t)sz);
    if (!m) { fprintf(stderr, "not a module\n"); return 2; }
    for (uint32_t i = 0; i < m->import_count; i++) {
        const NvmImportEntry *e = &m->imports[i];
        const char *fn = nvm_get_string(m, e->function_name_idx), *mod = nvm_get_string(m, e->module_name_idx);
        printf("IMPORT %u %s module=%s ret=%u params=", i, fn ? fn : "?", (mod && *mod) ? mod : "-", e->return_type);
        const uint8_t *pt = m->import_param_types ? m->import_param_types[i] : NULL;
        for (uint32_t k = 0; k < e->param_count; k++) printf("%s%d", k ? "," : "", pt ? pt[k] : -1);
        printf("\n");
    }
    nvm_module_free(m); free(buf);
    return 0;
}

int main(int argc, char **argv) {
    if (argc == 3 && strcmp(argv[1], "imports") == 0) return cmd_imports(argv[2]);
    if (argc < 5 || strcmp(argv[1], "run") != 0) { fprintf(stderr, "usage: cop_codec_probe run <seed> <first> <count> | imports <file.nvm>\n"); return 2; }
    uint64_t seed = strtoull(argv[2], NULL, 10);
    long first = atol(argv[3]), count = atol(argv[4]);
    vm_heap_init(&src_heap); vm_heap_init(&dst_heap);
    for (long i = first; i < first + count; i++) { one_case(seed, i); shape_count(); }
    for (uint32_t i = 0; i < SH_CAP; i++) if (sh[i].s) printf("SHAPE %s %lu\n", sh[i].s, sh[i].n);
    printf("SUMMARY cases=%lu fails=%lu roundtrips=%lu int=%lu float=%lu bool=%lu string=%lu array=%lu opaque=%lu void=%lu "
           "shortbufs=%lu prefixes=%lu full=%lu sampled=%lu maxneed=%lu bytes=%llu sizediff=%lu asan=%d\n",
           n_cases, n_fail, n_rt, n_by_type[TAG_INT], n_by_type[TAG_FLOAT], n_by_type[TAG_BOOL], n_by_type[TAG_STRING],
           n_by_type[TAG_ARRAY], n_by_type[TAG_OPAQUE], n_by_type[TAG_VOID], n_short, n_prefix, n_full, n_sampled,
           max_need, bytes_encoded, n_sizediff, HAVE_ASAN);
    return 0;
}
