/* c08_asm_probe: assembler-text driver for property C08 (field / variant / tuple indices that source programs
 * cannot express).
 *
 *   c08_asm_probe asm <in.nasm> <out.nvm>      asm_assemble_file -> nvm_serialize -> write out.nvm
 *                                               (the file is then given to the real nano_vm binary)
 *   c08_asm_probe run [--verify] <in.nasm>     asm_assemble_file -> [nvm_verify] -> vm_init -> vm_execute, program
 *                                               output on stdout.  Without --verify the verifier is skipped.
 *
 * Lines on stderr:  "ASM ok|error <line> <msg>",  "VERIFY ok|fail <msg>|skipped",  "RESULT <int> <name> msg=<vm.error_msg>"
 * Exit status: 0 = VM_OK, 1 = the VM returned an error, 3 = verifier refused (run --verify), 4 = assembler error,
 *              5 = usage / io.
 */
#include "nanovm/vm.h"
#include "nanoisa/verifier.h"
#include "nanoisa/nvm_format.h"
#include "nanoisa/assembler.h"
#include <stdio.h>
#include <stdlib.h>
#include <string.h>

int g_argc = 0; char **g_argv = NULL;

static NvmModule *assemble(const char *path) {
    AsmResult ar; memset(&ar, 0, sizeof ar);
    NvmModule *m = asm_assemble_file(path, &ar);
    if (!m || ar.error != ASM_OK) {
        ar.message[sizeof ar.message - 1] = 0;
        fprintf(stderr, "ASM error %u %s\n", ar.line, ar.message);
        return NULL;
    }
    fprintf(stderr, "ASM ok\n");
    return m;
}

int main(int argc, char **argv) {
    if (argc == 4 && !strcmp(argv[1], "asm")) {
        NvmModule *m = assemble(argv[2]);
        if (!m) return 4;
        uint32_t n = 0;
        uint8_t *bytes = nvm_serialize(m, &n);
        if (!bytes) { fprintf(stderr, "serialize failed\n"); return 5; }
        FILE *f = fopen(argv[3], "wb");
        if (!f || fwrite(bytes, 1, n, f) != n || fclose(f) != 0) { fprintf(stderr, "cannot write %s\n", argv[3]); return 5; }
        free(bytes);
        nvm_module_free(m);
        return 0;
    }
    if (argc >= 3 && !strcmp(argv[1], "run")) {
        int verify = 0, ai = 2;
        if (!strcmp(argv[ai], "--verify")) { verify = 1; ai++; }
        if (ai >= argc) return 5;
        NvmModule *m = assemble(argv[ai]);
        if (!m) return 4;
        if (verify) {
            NvmVerifyResult vr = nvm_verify(m);
            if (!vr.ok) {
                vr.error_msg[NVM_VERIFY_ERROR_SIZE - 1] = 0;
                fprintf(stderr, "VERIFY fail %s\n", vr.error_msg);
                nvm_module_free(m);
                return 3;
            }
            fprintf(stderr, "VERIFY ok\n");
        } else {
            fprintf(stderr, "VERIFY skipped\n");
        }
        static VmState vm;
        vm_init(&vm, m);
        vm.output = stdout;
        VmResult r = vm_execute(&vm);
        fflush(stdout);
        vm.error_msg[sizeof vm.error_msg - 1] = 0;
        fprintf(stderr, "RESULT %d %s msg=%s\n", (int)r, vm_error_string(r), r == VM_OK ? "" : vm.error_msg);
        vm_destroy(&vm);
        nvm_module_free(m);
        return r == VM_OK ? 0 : 1;
    }
    fprintf(stderr, "usage: c08_asm_probe asm in.nasm out.nvm | run [--verify] in.nasm\n");
    return 5;
}
