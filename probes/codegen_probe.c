/* codegen_probe: round trip of bytecode modules through nvm_serialize / nvm_deserialize (property C10).
 *
 *   codegen_probe compile            < list     one source per line ("path" or "cwd<TAB>path"); the probe forks
 *                                              one child per file, chdir()s to the file's directory (or cwd),
 *                                              runs lexer -> parser -> imports -> typechecker -> codegen exactly
 *                                              as nano_virt's main does, KEEPS the in-memory module m, and
 *                                              compares m with nvm_deserialize(nvm_serialize(m)) field by field;
 *                                              then serialises the loaded module again and compares the bytes.
 *   codegen_probe synth <seed> <from> <count>  builds structurally valid modules through the nvm_* API from a
 *                                              seed (shape i = from..from+count-1) and round-trips them the same way.
 *
 * Output (on the ORIGINAL stdout, one flushed line per case; the front end's own chatter goes to /dev/null):
 *   REC path=<p> status=ok hash=<fnv64 of the serialised bytes> size=<bytes> strings= funcs= imports= debug= code= maxfn= maxlocals= maxstr= fields=<n>
 *   REC path=<p> status=skip stage=<lex|parse|imports|typecheck|codegen> [rc=|sig=]      (program not accepted: not a C10 case)
 *   REC path=<p> status=DIFF stage=<roundtrip|idempotence|serialize|deserialize> what=<field> ... detail=<first difference>
 *   REC path=<p> status=CRASH stage=<serialize|deserialize|compare|reserialize> sig=<n>|rc=<n>
 *   SYN i=<n> status=... shape=<strings/funcs/imports/debug/code/maxstr/maxparams> ...   (same statuses)
 */
#include "nanolang.h"
#include "nanovirt/codegen.h"
#include "nanoisa/nvm_format.h"

#include <stdio.h>
#include <stdlib.h>
#include <string.h>
#include <stdarg.h>
#include <unistd.h>
#include <fcntl.h>
#include <libgen.h>
#include <sys/mman.h>
#include <sys/resource.h>
#include <sys/wait.h>

int g_argc = 0; char **g_argv = NULL;

static FILE *rec;                       /* the original stdout */
static unsigned long fields;            /* scalar fields / arrays compared in the current case */
static char diffbuf[512];

enum { ST_LEX, ST_PARSE, ST_IMPORTS, ST_TYPECHECK, ST_CODEGEN, ST_SERIALIZE, ST_DESERIALIZE, ST_COMPARE, ST_RESERIALIZE, ST_DONE };
static const char *stage_name[] = {"lex", "parse", "imports", "typecheck", "codegen", "serialize", "deserialize", "compare", "reserialize", "done"};
static volatile int *stage;             /* shared with the parent (MAP_SHARED); stage[1] = the child completed its record */

static uint64_t fnv64(const uint8_t *p, size_t n) {
    uint64_t h = 1469598103934665603ULL;
    for (size_t i = 0; i < n; i++) { h ^= p[i]; h *= 1099511628211ULL; }
    return h;
}

static int diff(const char *fmt, ...) {
    va_list ap; va_start(ap, fmt); vsnprintf(diffbuf, sizeof diffbuf, fmt, ap); va_end(ap);
    return 1;
}

static long first_byte_diff(const uint8_t *a, const uint8_t *b, size_t n) {
    for (size_t i = 0; i < n; i++) if (a[i] != b[i]) return (long)i;
    return -1;
}

#define CMP(what, A, B) do { fields++; if ((A) != (B)) return diff("what=%s detail=memory:%llu,reloaded:%llu", what, (unsigned long long)(A), (unsigned long long)(B)); } while (0)
#define CMPI(what, i, A, B) do { fields++; if ((A) != (B)) return diff("what=%s index=%u detail=memory:%llu,reloaded:%llu", what, (unsigned)(i), (unsigned long long)(A), (unsigned long long)(B)); } while (0)

/* field-by-field comparison of the in-memory module a with the reloaded module b; 0 = equal */
static int compare_modules(const NvmModule *a, const NvmModule *b) {
    fields++;
    if (memcmp(a->header.magic, b->header.magic, 4) != 0) return diff("what=header.magic");
    CMP("header.format_version", a->header.format_version, b->header.format_version);
    CMP("header.flags", a->header.flags, b->header.flags);
    CMP("header.entry_point", a->header.entry_point, b->header.entry_point);

    CMP("code_size", a->code_size, b->code_size);
    fields++;
    if (a->code_size) {
        long d = first_byte_diff(a->code, b->code, a->code_size);
        if (d >= 0) return diff("what=code offset=%ld detail=memory:0x%02x,reloaded:0x%02x", d, a->code[d], b->code[d]);
    }

    CMP("string_count", a->string_count, b->string_count);
    for (uint32_t i = 0; i < a->string_count; i++) {
        CMPI("string.length", i, a->string_lengths[i], b->string_lengths[i]);
        fields++;
        /* length bytes plus the terminating NUL the pool keeps behind every string */
        long d = first_byte_diff((const uint8_t *)a->strings[i], (const uint8_t *)b->strings[i], (size_t)a->string_lengths[i] + 1);
        if (d >= 0) return diff("what=string.bytes index=%u offset=%ld detail=memory:0x%02x,reloaded:0x%02x", i, d,
                                (unsigned char)a->strings[i][d], (unsigned char)b->strings[i][d]);
    }

    CMP("function_count", a->function_count, b->function_count);
    for (uint32_t i = 0; i < a->function_count; i++) {
        const NvmFunctionEntry *x = &a->functions[i], *y = &b->functions[i];
        CMPI("function.name_idx", i, x->name_idx, y->name_idx);
        CMPI("function.arity", i, x->arity, y->arity);
        CMPI("function.code_offset", i, x->code_offset, y->code_offset);
        CMPI("function.code_length", i, x->code_length, y->code_length);
        CMPI("function.local_count", i, x->local_count, y->local_count);
        CMPI("function.upvalue_count", i, x->upvalue_count, y->upvalue_count);
    }

    CMP("import_count", a->import_count, b->import_count);
    for (uint32_t i = 0; i < a->import_count; i++) {
        const NvmImportEntry *x = &a->imports[i], *y = &b->imports[i];
        CMPI("import.module_name_idx", i, x->module_name_idx, y->module_name_idx);
        CMPI("import.function_name_idx", i, x->function_name_idx, y->function_name_idx);
        CMPI("import.param_count", i, x->param_count, y->param_count);
        CMPI("import.return_type", i, x->return_type, y->return_type);
        fields++;
        if (x->param_count) {
            const uint8_t *pa = a->import_param_types[i], *pb = b->import_param_types[i];
            if (!pb) return diff("what=import.param_types index=%u detail=reloaded-array-missing", i);
            for (uint32_t k = 0; k < x->param_count; k++) {
                /* an import registered without a type array is written as zeros by the serialiser */
                uint8_t va = pa ? pa[k] : 0;
                if (va != pb[k]) return diff("what=import.param_types index=%u param=%u/%u detail=memory:%u,reloaded:%u", i, k, x->param_count, va, pb[k]);
            }
        }
    }

    CMP("debug_count", a->debug_count, b->debug_count);
    for (uint32_t i = 0; i < a->debug_count; i++) {
        CMPI("debug.bytecode_offset", i, a->debug_entries[i].bytecode_offset, b->debug_entries[i].bytecode_offset);
        CMPI("debug.source_line", i, a->debug_entries[i].source_line, b->debug_entries[i].source_line);
    }
    return 0;
}

/* serialise m, reload, compare, serialise again.  Prints the tail of the record (status= ...). */
static void round_trip(const NvmModule *m, const char *extra) {
    fields = 0;
    if (stage) *stage = ST_SERIALIZE;
    uint32_t n1 = 0;
    uint8_t *b1 = nvm_serialize(m, &n1);
    if (!b1) { fprintf(rec, "status=DIFF stage=serialize what=serialize-returned-NULL %s\n", extra); return; }
    /* exact-size copy: an over-read of the loader trips ASan */
    uint8_t *c1 = malloc(n1 ? n1 : 1); memcpy(c1, b1, n1);
    if (stage) *stage = ST_DESERIALIZE;
    NvmModule *m2 = nvm_deserialize(c1, n1);
    free(c1);
    if (!m2) { fprintf(rec, "status=DIFF stage=deserialize what=own-output-refused size=%u %s\n", n1, extra); free(b1); return; }
    if (stage) *stage = ST_COMPARE;
    if (compare_modules(m, m2)) {
        fprintf(rec, "status=DIFF stage=roundtrip %s size=%u %s\n", diffbuf, n1, extra);
        nvm_module_free(m2); free(b1); return;
    }
    if (stage) *stage = ST_RESERIALIZE;
    uint32_t n2 = 0;
    uint8_t *b2 = nvm_serialize(m2, &n2);
    if (!b2) { fprintf(rec, "status=DIFF stage=idempotence what=second-serialize-returned-NULL %s\n", extra); nvm_module_free(m2); free(b1); return; }
    fields++;
    if (n1 != n2) {
        fprintf(rec, "status=DIFF stage=idempotence what=size detail=first:%u,second:%u %s\n", n1, n2, extra);
    } else {
        long d = first_byte_diff(b1, b2, n1);
        if (d >= 0) fprintf(rec, "status=DIFF stage=idempotence what=bytes offset=%ld detail=first:0x%02x,second:0x%02x size=%u %s\n", d, b1[d], b2[d], n1, extra);
        else {
            uint32_t maxfn = 0, maxloc = 0, maxstr = 0;
            for (uint32_t i = 0; i < m->function_count; i++) {
                if (m->functions[i].code_length > maxfn) maxfn = m->functions[i].code_length;
                if (m->functions[i].local_count > maxloc) maxloc = m->functions[i].local_count;
            }
            for (uint32_t i = 0; i < m->string_count; i++) if (m->string_lengths[i] > maxstr) maxstr = m->string_lengths[i];
            fprintf(rec, "status=ok hash=%016llx size=%u strings=%u funcs=%u imports=%u debug=%u code=%u maxfn=%u maxlocals=%u maxstr=%u fields=%lu %s\n",
                    (unsigned long long)fnv64(b1, n1), n1, m->string_count, m->function_count, m->import_count, m->debug_count, m->code_size,
                    maxfn, maxloc, maxstr, fields, extra);
        }
    }
    if (stage) *stage = ST_DONE;
    free(b2); nvm_module_free(m2); free(b1);
}

/* ---------------------------------------------------------------- compile mode */

static char *read_file(const char *path) {
    FILE *f = fopen(path, "rb"); if (!f) return NULL;
    fseek(f, 0, SEEK_END); long len = ftell(f); fseek(f, 0, SEEK_SET);
    if (len < 0 || len > 10 * 1024 * 1024) { fclose(f); return NULL; }
    char *buf = malloc((size_t)len + 1); size_t n = fread(buf, 1, (size_t)len, f); buf[n] = 0; fclose(f);
    return buf;
}

static int saved_err = -1;
static void quiet(int on) {
    /* the front end's diagnostics are not part of this property; sanitizer reports of the stages under test are */
    if (on) { int dn = open("/dev/null", O_WRONLY); saved_err = dup(2); dup2(dn, 2); close(dn); }
    else if (saved_err >= 0) { fflush(stderr); dup2(saved_err, 2); close(saved_err); saved_err = -1; }
}

static void child_compile(const char *cwd, const char *path) {
    char *p1 = strdup(path), *p2 = strdup(path);
    const char *dir = cwd ? cwd : dirname(p1);
    const char *input = cwd ? path : basename(p2);
    if (chdir(dir) != 0) { fprintf(rec, "status=skip stage=chdir\n"); fflush(rec); stage[1] = 1; _exit(0); }
    struct rlimit rl = {60, 62}; setrlimit(RLIMIT_CPU, &rl);
    quiet(1);
    *stage = ST_LEX;
    char *source = read_file(input);
    if (!source) { fprintf(rec, "status=skip stage=read\n"); fflush(rec); stage[1] = 1; _exit(0); }
    int token_count = 0;
    Token *tokens = tokenize(source, &token_count);
    if (!tokens) { fprintf(rec, "status=skip stage=lex\n"); fflush(rec); stage[1] = 1; _exit(0); }
    *stage = ST_PARSE;
    ASTNode *program = parse_program(tokens, token_count);
    if (!program) { fprintf(rec, "status=skip stage=parse\n"); fflush(rec); stage[1] = 1; _exit(0); }
    *stage = ST_IMPORTS;
    clear_module_cache();
    Environment *env = create_environment();
    ModuleList *modules = create_module_list();
    if (!process_imports(program, env, modules, input)) { fprintf(rec, "status=skip stage=imports\n"); fflush(rec); stage[1] = 1; _exit(0); }
    *stage = ST_TYPECHECK;
    typecheck_set_current_file(input);
    if (!type_check(program, env)) { fprintf(rec, "status=skip stage=typecheck\n"); fflush(rec); stage[1] = 1; _exit(0); }
    *stage = ST_CODEGEN;
    CodegenResult cg = codegen_compile(program, env, modules, input);
    if (!cg.ok || !cg.module) { fprintf(rec, "status=skip stage=codegen\n"); fflush(rec); stage[1] = 1; _exit(0); }
    quiet(0);
    round_trip(cg.module, "");
    fflush(rec);
    stage[1] = 1;
    _exit(0);   /* no teardown: the front end leaks by design and its destructors are not under test here */
}

static int mode_compile(void) {
    char line[8192];
    stage = mmap(NULL, 4096, PROT_READ | PROT_WRITE, MAP_SHARED | MAP_ANONYMOUS, -1, 0);
    if (stage == MAP_FAILED) { perror("mmap"); return 2; }
    while (fgets(line, sizeof line, stdin)) {
        size_t n = strlen(line);
        while (n && (line[n - 1] == '\n' || line[n - 1] == '\r')) line[--n] = 0;
        if (!n) continue;
        char *cwd = NULL, *path = line;
        char *tab = strchr(line, '\t');
        if (tab) { *tab = 0; cwd = line; path = tab + 1; }
        fprintf(rec, "REC path=%s ", path); fflush(rec);
        stage[0] = ST_LEX; stage[1] = 0;
        fflush(stdout); fflush(stderr);
        pid_t pid = fork();
        if (pid < 0) { perror("fork"); return 2; }
        if (pid == 0) child_compile(cwd, path);
        int st = 0;
        while (waitpid(pid, &st, 0) < 0) {}
        int s = *stage;
        if (stage[1]) { /* the child wrote the rest of the record */ }
        else if (s <= ST_CODEGEN) {
            /* the front end exit()ed or crashed on this source: the program was not accepted (C09's business) */
            if (WIFSIGNALED(st)) fprintf(rec, "status=skip stage=%s sig=%d\n", stage_name[s], WTERMSIG(st));
            else fprintf(rec, "status=skip stage=%s rc=%d\n", stage_name[s], WEXITSTATUS(st));
        } else {
            if (WIFSIGNALED(st)) fprintf(rec, "status=CRASH stage=%s sig=%d\n", stage_name[s], WTERMSIG(st));
            else fprintf(rec, "status=CRASH stage=%s rc=%d\n", stage_name[s], WEXITSTATUS(st));
        }
        fflush(rec);
    }
    return 0;
}

/* ---------------------------------------------------------------- synthetic mode */

static uint64_t rs;
static uint32_t rnd(void) { rs = rs * 6364136223846793005ULL + 1442695040888963407ULL; return (uint32_t)(rs >> 32); }
static uint32_t rnd_below(uint32_t n) { return n ? rnd() % n : 0; }
static uint32_t pick(const uint32_t *v, unsigned n) { return v[rnd_below(n)]; }

/* the tables go past the limits the headers declare (NVM_MAX_FUNCTIONS 512, NVM_MAX_STRINGS 4096, codegen MAX_EXTERNS 256):
 * the compiler itself produces 513-entry function tables (512 user functions + __init__) */
static const uint32_t STR_COUNTS[] = {0, 1, 2, 3, 31, 32, 33, 63, 64, 65, 127, 128, 129, 255, 256, 257, 511, 512, 513, 1000, 1023, 1024, 1025, 4095, 4096, 4097, 5000};
static const uint32_t FN_COUNTS[]  = {0, 1, 2, 31, 32, 33, 63, 64, 65, 127, 128, 129, 255, 256, 257, 511, 512, 513, 514, 600, 1023, 1024, 1025, 4097};
static const uint32_t IMP_COUNTS[] = {0, 0, 1, 2, 31, 32, 33, 63, 64, 65, 255, 256, 257, 511, 512, 513, 1025};
static const uint32_t DBG_COUNTS[] = {0, 0, 1, 255, 256, 257, 511, 512, 513, 1500, 4095, 4096, 4097, 65535, 65536, 65537};
static const uint32_t CODE_SIZES[] = {0, 1, 17, 255, 256, 4095, 4096, 4097, 8191, 8192, 8193, 65535, 65536, 65537, 300000, 1 << 20, 3000000};
static const uint32_t U16_EDGE[]   = {0, 1, 2, 3, 7, 255, 256, 257, 0x7FFF, 0x8000, 0xFFFE, 0xFFFF};
static const uint32_t U32_EDGE[]   = {0, 1, 255, 256, 65535, 65536, 0x7FFFFFFF, 0x80000000u, 0xFFFFFFFEu, 0xFFFFFFFFu};
static const uint32_t STR_LENS[]   = {0, 1, 2, 3, 4, 5, 7, 8, 15, 16, 17, 40, 255, 256, 257, 1000, 65535, 65536, 65537, 70001};
#define N(a) (sizeof(a) / sizeof((a)[0]))
#define AXIS_SHAPES (N(STR_COUNTS) + N(FN_COUNTS) + N(IMP_COUNTS) + N(DBG_COUNTS) + N(CODE_SIZES) + N(STR_LENS))

typedef struct { uint32_t mod, fn; uint16_t pc; uint8_t ret; uint8_t *pt; } SpecImport;

static void one_synth(uint64_t seed, uint32_t idx) {
    rs = seed * 0x9E3779B97F4A7C15ULL + (uint64_t)idx * 0xD1B54A32D192ED03ULL + 12345;
    for (int k = 0; k < 4; k++) rnd();
    fprintf(rec, "SYN i=%u ", idx); fflush(rec);

    int small = (idx % 4 == 0);     /* a quarter of the shapes are small random ones, the rest sit on boundaries */
    uint32_t want_str = small ? rnd_below(20) : pick(STR_COUNTS, N(STR_COUNTS));
    uint32_t want_fn  = small ? rnd_below(8)  : pick(FN_COUNTS, N(FN_COUNTS));
    uint32_t want_imp = small ? rnd_below(6)  : pick(IMP_COUNTS, N(IMP_COUNTS));
    uint32_t want_dbg = small ? rnd_below(6)  : pick(DBG_COUNTS, N(DBG_COUNTS));
    uint32_t code_sz  = small ? rnd_below(300) : pick(CODE_SIZES, N(CODE_SIZES));
    if (idx == 0) want_str = want_fn = want_imp = want_dbg = code_sz = 0;       /* the empty module */
    /* shapes 1..AXIS_SHAPES walk every value of every table once (the other tables small), whatever the seed:
     * each boundary is visited by every run, not only when the dice pick it */
    uint32_t force_len = 0xFFFFFFFFu;
    if (idx >= 1 && idx <= AXIS_SHAPES) {
        uint32_t ax = idx - 1;
        want_str = 1 + rnd_below(20); want_fn = rnd_below(8); want_imp = rnd_below(6); want_dbg = rnd_below(6); code_sz = rnd_below(300);
        if (ax < N(STR_COUNTS)) want_str = STR_COUNTS[ax];
        else if ((ax -= N(STR_COUNTS)) < N(FN_COUNTS)) want_fn = FN_COUNTS[ax];
        else if ((ax -= N(FN_COUNTS)) < N(IMP_COUNTS)) want_imp = IMP_COUNTS[ax];
        else if ((ax -= N(IMP_COUNTS)) < N(DBG_COUNTS)) want_dbg = DBG_COUNTS[ax];
        else if ((ax -= N(DBG_COUNTS)) < N(CODE_SIZES)) code_sz = CODE_SIZES[ax];
        else if ((ax -= N(CODE_SIZES)) < N(STR_LENS)) force_len = STR_LENS[ax];
    }
    if ((want_fn || want_imp) && !want_str) want_str = 1;                      /* names must exist */

    NvmModule *m = nvm_module_new();
    if (!m) { fprintf(rec, "status=skip stage=alloc\n"); return; }
    const char *bad = NULL;

    /* ---- string pool: distinct contents (the pool de-duplicates), then duplicates by content are re-added and must
     *      return the index of the first occurrence without growing the pool */
    char **S = calloc(want_str + 1, sizeof *S); uint32_t *L = calloc(want_str + 1, sizeof *L);
    uint32_t maxlen = 0;
    int have_empty = 0, long_budget = 3;
    for (uint32_t i = 0; i < want_str; i++) {
        uint32_t len = (rnd_below(4) == 0) ? pick(STR_LENS, N(STR_LENS)) : rnd_below(24);
        if (len > 300) { if (long_budget-- <= 0) len = rnd_below(24); }
        if (i == 0 && force_len != 0xFFFFFFFFu) len = force_len;
        if (len == 0) { if (have_empty) len = 1 + rnd_below(6); else have_empty = 1; }
        /* unique by construction: the decimal index is spliced in (unless too short: then a 1-3 byte code of i) */
        char *s = malloc(len + 16);
        for (uint32_t k = 0; k < len; k++) { uint32_t r = rnd(); s[k] = (char)((r & 0x300) ? 'a' + (r % 26) : (r & 0xFF)); }
        if (len >= 1) {
            char tag[16]; int tl = snprintf(tag, sizeof tag, "#%u#", i);
            if ((uint32_t)tl <= len) memcpy(s, tag, (size_t)tl);
            else { /* short strings: enumerate contents so that they are distinct */
                uint32_t v = i;
                for (uint32_t k = 0; k < len; k++) { s[k] = (char)(v & 0xFF); v >>= 8; }
                if (v) { free(s); len = 8; s = malloc(24); int t2 = snprintf(s, 24, "#%u#", i); memset(s + t2, 0, (size_t)(8 - (t2 < 8 ? t2 : 8))); }
            }
        }
        /* distinctness check against what is already there (short enumerated strings could collide with random ones) */
        int dup = 0;
        for (uint32_t j = 0; j < i && !dup; j++) if (L[j] == len && memcmp(S[j], s, len) == 0) dup = 1;
        if (dup) { free(s); len = 12; s = malloc(28); memset(s, 0, 28); snprintf(s, 28, "##%u", i); }
        S[i] = s; L[i] = len; if (len > maxlen) maxlen = len;
        uint32_t got = nvm_add_string(m, s, len);
        if (got != i && !bad) bad = "add_string-index";
    }
    for (uint32_t k = 0; k < 6 && want_str; k++) {       /* duplicates by content */
        uint32_t j = rnd_below(want_str);
        char *copy = malloc(L[j] + 1); memcpy(copy, S[j], L[j]); copy[L[j]] = 'x';
        uint32_t got = nvm_add_string(m, copy, L[j]);
        free(copy);
        if ((got != j || m->string_count != want_str) && !bad) bad = "add_string-dedup";
    }

    /* ---- code */
    uint8_t *code = malloc(code_sz + 1);
    for (uint32_t k = 0; k < code_sz; k++) code[k] = (uint8_t)rnd();
    {   /* appended in pieces so that several reallocations happen */
        uint32_t pos = 0;
        while (pos < code_sz) {
            uint32_t chunk = 1 + rnd_below(code_sz > 100000 ? 700000 : 5000);
            if (chunk > code_sz - pos) chunk = code_sz - pos;
            uint32_t off = nvm_append_code(m, code + pos, chunk);
            if (off != pos && !bad) bad = "append_code-offset";
            pos += chunk;
        }
    }

    /* ---- functions (0-length ones included; offsets inside the code section) */
    NvmFunctionEntry *F = calloc(want_fn + 1, sizeof *F);
    for (uint32_t i = 0; i < want_fn; i++) {
        NvmFunctionEntry e; memset(&e, 0, sizeof e);
        e.name_idx = (rnd_below(3) == 0) ? want_str - 1 : rnd_below(want_str);
        e.arity = (uint16_t)((rnd_below(3) == 0) ? pick(U16_EDGE, N(U16_EDGE)) : rnd_below(9));
        e.code_offset = code_sz ? ((rnd_below(5) == 0) ? code_sz - 1 : rnd_below(code_sz)) : 0;
        e.code_length = (rnd_below(4) == 0) ? 0 : rnd_below(code_sz - e.code_offset + 1);
        e.local_count = (uint16_t)((rnd_below(3) == 0) ? pick(U16_EDGE, N(U16_EDGE)) : rnd_below(40));
        e.upvalue_count = (uint16_t)((rnd_below(3) == 0) ? pick(U16_EDGE, N(U16_EDGE)) : rnd_below(4));
        F[i] = e;
        uint32_t got = nvm_add_function(m, &e);
        if (got != i && !bad) bad = "add_function-index";
    }

    /* ---- imports, 0..16 parameters (a few far beyond: the count is a u16) */
    SpecImport *I = calloc(want_imp + 1, sizeof *I);
    uint32_t maxpc = 0;
    for (uint32_t i = 0; i < want_imp; i++) {
        uint32_t pc = rnd_below(17);
        if (rnd_below(40) == 0) { static const uint32_t big[] = {17, 255, 256, 257, 1000}; pc = pick(big, N(big)); }
        if (i < 17) pc = i;                       /* every count 0..16 occurs in every module with >= 17 imports */
        I[i].mod = rnd_below(want_str); I[i].fn = (rnd_below(3) == 0) ? want_str - 1 : rnd_below(want_str);
        I[i].pc = (uint16_t)pc; I[i].ret = (uint8_t)((rnd_below(4) == 0) ? rnd() : rnd_below(16));
        I[i].pt = malloc(pc + 1);
        for (uint32_t k = 0; k < pc; k++) I[i].pt[k] = (uint8_t)((rnd_below(4) == 0) ? rnd() : 1 + rnd_below(15));
        if (pc) I[i].pt[pc - 1] |= 1;             /* the last parameter type is never 0 (a dropped byte reads back as 0) */
        if (pc > maxpc) maxpc = pc;
        uint32_t got = nvm_add_import(m, I[i].mod, I[i].fn, I[i].pc, I[i].ret, I[i].pt);
        if (got != i && !bad) bad = "add_import-index";
    }

    /* ---- debug entries */
    NvmDebugEntry *D = calloc(want_dbg + 1, sizeof *D);
    for (uint32_t i = 0; i < want_dbg; i++) {
        D[i].bytecode_offset = (rnd_below(4) == 0) ? pick(U32_EDGE, N(U32_EDGE)) : rnd_below(code_sz + 1);
        D[i].source_line = (rnd_below(4) == 0) ? pick(U32_EDGE, N(U32_EDGE)) : 1 + rnd_below(5000);
        nvm_add_debug_entry(m, D[i].bytecode_offset, D[i].source_line);
    }

    /* ---- header: flags (mostly the defined bits, sometimes any 32-bit pattern: the field is a plain u32), entry point */
    uint32_t flags = rnd_below(8);
    if (rnd_below(4) == 0) flags = rnd();
    if (rnd_below(16) == 0) flags = pick(U32_EDGE, N(U32_EDGE));
    m->header.flags = flags;
    m->header.entry_point = want_fn ? ((rnd_below(3) == 0) ? want_fn - 1 : rnd_below(want_fn)) : 0;

    /* ---- the module must BE what was asked for (otherwise the round trip would compare garbage with garbage) */
    if (!bad) {
        if (m->string_count != want_str) bad = "string_count";
        else if (m->function_count != want_fn) bad = "function_count";
        else if (m->import_count != want_imp) bad = "import_count";
        else if (m->debug_count != want_dbg) bad = "debug_count";
        else if (m->code_size != code_sz || (code_sz && memcmp(m->code, code, code_sz))) bad = "code";
        for (uint32_t i = 0; i < want_str && !bad; i++) if (m->string_lengths[i] != L[i] || memcmp(m->strings[i], S[i], L[i]) || m->strings[i][L[i]]) bad = "string";
        for (uint32_t i = 0; i < want_fn && !bad; i++) {
            const NvmFunctionEntry *x = &m->functions[i];
            if (x->name_idx != F[i].name_idx || x->arity != F[i].arity || x->code_offset != F[i].code_offset || x->code_length != F[i].code_length ||
                x->local_count != F[i].local_count || x->upvalue_count != F[i].upvalue_count) bad = "function";
        }
        for (uint32_t i = 0; i < want_imp && !bad; i++) {
            const NvmImportEntry *x = &m->imports[i];
            if (x->module_name_idx != I[i].mod || x->function_name_idx != I[i].fn || x->param_count != I[i].pc || x->return_type != I[i].ret) bad = "import";
            else if (I[i].pc && (!m->import_param_types[i] || memcmp(m->import_param_types[i], I[i].pt, I[i].pc))) bad = "import-params";
        }
        for (uint32_t i = 0; i < want_dbg && !bad; i++)
            if (m->debug_entries[i].bytecode_offset != D[i].bytecode_offset || m->debug_entries[i].source_line != D[i].source_line) bad = "debug";
    }
    char extra[200];
    snprintf(extra, sizeof extra, "shape=%u/%u/%u/%u/%u/%u/%u flags=0x%x entry=%u", want_str, want_fn, want_imp, want_dbg, code_sz, maxlen, maxpc,
             flags, m->header.entry_point);
    if (bad) fprintf(rec, "status=DIFF stage=build what=%s detail=module-built-through-the-API-differs-from-its-specification %s\n", bad, extra);
    else round_trip(m, extra);
    fflush(rec);

    for (uint32_t i = 0; i < want_str; i++) free(S[i]);
    for (uint32_t i = 0; i < want_imp; i++) free(I[i].pt);
    free(S); free(L); free(code); free(F); free(I); free(D);
    nvm_module_free(m);
}

int main(int argc, char **argv) {
    int fd = dup(1);
    rec = fdopen(fd, "w");
    if (!rec) return 2;
    if (argc >= 2 && strcmp(argv[1], "compile") == 0) {
        /* whatever the front end prints on stdout (warnings, shadow-test chatter) is dropped */
        int dn = open("/dev/null", O_WRONLY); dup2(dn, 1); close(dn);
        return mode_compile();
    }
    if (argc >= 5 && strcmp(argv[1], "synth") == 0) {
        uint64_t seed = strtoull(argv[2], NULL, 10);
        uint32_t from = (uint32_t)strtoul(argv[3], NULL, 10), count = (uint32_t)strtoul(argv[4], NULL, 10);
        for (uint32_t i = from; i < from + count; i++) one_synth(seed, i);
        return 0;
    }
    fprintf(stderr, "usage: codegen_probe compile < paths | codegen_probe synth <seed> <from> <count>\n");
    return 2;
}
