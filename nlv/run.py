"""Child process execution with logical budgets (DESIGN §2.2)."""
import os
import re
import resource
import signal
import subprocess
import tempfile
import shutil
import time
from concurrent.futures import ThreadPoolExecutor

NCPU = os.cpu_count() or 4

ASAN_ENV = {
    "ASAN_OPTIONS": "detect_leaks=0:exitcode=97:abort_on_error=0:allocator_may_return_null=1:"
                    "hard_rss_limit_mb=3072:detect_stack_use_after_return=0:handle_abort=1",
    "UBSAN_OPTIONS": "print_stacktrace=1:halt_on_error=1:exitcode=97",
}

SAN_RE = re.compile(r"(ERROR: AddressSanitizer|ERROR: LeakSanitizer|runtime error:|AddressSanitizer:DEADLYSIGNAL|"
                    r"WARNING: ThreadSanitizer|ERROR: UndefinedBehaviorSanitizer|AddressSanitizer: )")


class Result:
    __slots__ = ("rc", "sig", "out", "err", "timeout", "cpu_exceeded", "wall")

    def __init__(self, rc, sig, out, err, timeout, wall):
        self.rc = rc
        self.sig = sig
        self.out = out
        self.err = err
        self.timeout = timeout
        self.wall = wall
        self.cpu_exceeded = (sig == signal.SIGXCPU) or (sig == signal.SIGKILL and not timeout)

    @property
    def status(self):
        """exit status as a shell would see it (128+signal for signals)"""
        if self.sig:
            return 128 + self.sig
        return self.rc

    def text(self):
        return self.out.decode("utf-8", "replace")

    def errtext(self):
        return self.err.decode("utf-8", "replace")

    def sanitizer_report(self):
        m = SAN_RE.search(self.errtext())
        if not m:
            return None
        return self.errtext()[m.start():m.start() + 4000]

    def brief(self):
        return {"rc": self.rc, "sig": self.sig, "timeout": self.timeout,
                "stdout": self.text()[-600:], "stderr": self.errtext()[-1200:]}


def _preexec(cpu, fsize, as_mb, stack_mb):
    def fn():
        os.setsid()
        if cpu:
            resource.setrlimit(resource.RLIMIT_CPU, (cpu, cpu + 2))
        if fsize:
            resource.setrlimit(resource.RLIMIT_FSIZE, (fsize, fsize))
        if as_mb:
            resource.setrlimit(resource.RLIMIT_AS, (as_mb << 20, as_mb << 20))
        if stack_mb:
            try:
                resource.setrlimit(resource.RLIMIT_STACK, (stack_mb << 20, stack_mb << 20))
            except (ValueError, OSError):
                pass
        resource.setrlimit(resource.RLIMIT_CORE, (0, 0))
    return fn


def run(cmd, cwd=None, env=None, stdin=None, cpu=10, wall=None, fsize=256 << 20, as_mb=None,
        stack_mb=None, san=False, merge_env=True, max_out=8 << 20):
    """Run cmd (list). cpu = RLIMIT_CPU seconds (logical budget); wall = watchdog (inconclusive)."""
    e = dict(os.environ) if merge_env else {}
    for k in ("VERIF_SEED", "VERIF_TIER"):
        e.pop(k, None)
    if san:
        e.update(ASAN_ENV)
    if env:
        e.update(env)
    if wall is None:
        wall = max(60, 20 * (cpu or 10))
    t0 = time.time()
    try:
        p = subprocess.Popen(cmd, cwd=cwd, env=e, stdin=subprocess.PIPE if stdin is not None else subprocess.DEVNULL,
                             stdout=subprocess.PIPE, stderr=subprocess.PIPE,
                             preexec_fn=_preexec(cpu, fsize, as_mb, stack_mb))
    except OSError as ex:
        return Result(127, 0, b"", ("exec failed: %s" % ex).encode(), False, 0.0)
    timeout = False
    try:
        out, err = p.communicate(stdin, timeout=wall)
    except subprocess.TimeoutExpired:
        timeout = True
        try:
            os.killpg(p.pid, signal.SIGKILL)
        except OSError:
            pass
        out, err = p.communicate()
    # make sure nothing of the group lingers
    try:
        os.killpg(p.pid, signal.SIGKILL)
    except OSError:
        pass
    rc = p.returncode
    sig = 0
    if rc is not None and rc < 0:
        sig = -rc
        rc = None
    return Result(rc, sig, out[:max_out], err[:max_out], timeout, time.time() - t0)


def pmap(fn, items, workers=None):
    """Parallel map preserving order (threads; the work is in child processes)."""
    items = list(items)
    if not items:
        return []
    w = workers or NCPU
    with ThreadPoolExecutor(max_workers=w) as ex:
        return list(ex.map(fn, items))


class Scratch:
    """Temporary work directory outside /repo and /verif, removed on exit."""

    def __init__(self, prefix="nlv"):
        base = os.environ.get("NLVERIF_SCRATCH") or os.path.join(
            os.environ.get("NLVERIF_CACHE", "/var/tmp/nlverif"), "scratch")
        os.makedirs(base, exist_ok=True)
        self.path = tempfile.mkdtemp(prefix=prefix + "-", dir=base)

    def __enter__(self):
        return self

    def __exit__(self, *a):
        shutil.rmtree(self.path, ignore_errors=True)

    def sub(self, name):
        p = os.path.join(self.path, name)
        os.makedirs(p, exist_ok=True)
        return p

    def file(self, name, data):
        p = os.path.join(self.path, name)
        os.makedirs(os.path.dirname(p), exist_ok=True)
        mode = "wb" if isinstance(data, (bytes, bytearray)) else "w"
        with open(p, mode) as f:
            f.write(data)
        return p
