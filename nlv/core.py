"""Verdict, replay, evidence and known-findings plumbing (DESIGN §2.3, §2.4)."""
import hashlib
import json
import os
import random
import shutil
import sys
import time
import traceback

VERIF = os.path.dirname(os.path.dirname(os.path.abspath(__file__)))
FINDINGS_FILE = os.path.join(VERIF, "known_findings.json")


class Inconclusive(Exception):
    pass


def load_findings():
    """known_findings.json (committed, never written at run time).  While a check is being developed its
    entries may live in findings/<id>/known.json; both are merged here."""
    try:
        with open(FINDINGS_FILE) as f:
            kf = json.load(f)
    except FileNotFoundError:
        kf = {"open": [], "fixed": []}
    fdir = os.path.join(VERIF, "findings")
    if os.path.isdir(fdir):
        for d in sorted(os.listdir(fdir)):
            p = os.path.join(fdir, d, "known.json")
            if os.path.exists(p):
                with open(p) as f:
                    extra = json.load(f)
                kf["open"].extend(extra.get("open", []))
                kf["fixed"].extend(extra.get("fixed", []))
    return kf


def evidence_root():
    """/verif/evidence, except when NLVERIF_REPO points the check at a tree other than /repo (a seeded change or a mutant in
    a scratch worktree): what is observed there is not evidence about /repo and must not overwrite it."""
    alt = os.environ.get("NLVERIF_REPO")
    if alt and os.path.realpath(alt) != "/repo":
        return os.path.join("/var/tmp/nlverif/alt-evidence", os.path.basename(os.path.realpath(alt)))
    return os.path.join(VERIF, "evidence")


class Ctx:
    def __init__(self, pid, tier, seed, level, keep_replay=False):
        self.pid = pid
        self.tier = tier
        self.seed = seed
        self.level = level
        self.t0 = time.time()
        self.violations = []          # (key, what, replay_dir)
        self.known_hit = {}           # key -> count
        self.known_seen_order = []
        self.notes = []
        kf = load_findings()
        self.open = {e["key"]: e for e in kf.get("open", []) if e.get("property") == pid}
        self.replay_root = os.path.join(evidence_root(), "replay", pid)
        if not keep_replay:
            shutil.rmtree(self.replay_root, ignore_errors=True)
        self._vseen = set()
        self.max_reported = 80

    # ---- randomness -------------------------------------------------------
    def rng(self, *what):
        h = hashlib.sha256(("%d|%s|%s" % (self.seed, self.pid, "|".join(str(w) for w in what))).encode()).digest()
        return random.Random(int.from_bytes(h[:8], "big"))

    def quick(self):
        return self.tier == "quick"

    def n(self, quick, thorough):
        return quick if self.tier == "quick" else thorough

    # ---- verdicts ---------------------------------------------------------
    def violation(self, key, what, files=None, dedupe=True):
        """Report a violation identified by `key`.  Listed open findings become KNOWN-FINDING."""
        if key in self.open:
            if key not in self.known_hit:
                self.known_seen_order.append(key)
            self.known_hit[key] = self.known_hit.get(key, 0) + 1
            return False
        if dedupe and key in self._vseen:
            for v in self.violations:
                if v[0] == key:
                    v[3] += 1
            return True
        self._vseen.add(key)
        rdir = None
        if len(self.violations) < self.max_reported:
            rdir = os.path.join(self.replay_root, "%03d" % len(self.violations))
            os.makedirs(rdir, exist_ok=True)
            with open(os.path.join(rdir, "VIOLATION.txt"), "w") as f:
                f.write("property=%s\nkey=%s\nseed=%d tier=%s\n\n%s\n" % (self.pid, key, self.seed, self.tier, what))
            for name, data in (files or {}).items():
                p = os.path.join(rdir, name)
                os.makedirs(os.path.dirname(p), exist_ok=True)
                if isinstance(data, str):
                    data = data.encode("utf-8", "replace")
                with open(p, "wb") as f:
                    f.write(data)
        self.violations.append([key, what, rdir, 1])
        return True

    def note(self, msg):
        self.notes.append(msg)
        print("note: " + msg)
        sys.stdout.flush()

    def require(self, cond, msg):
        if not cond:
            raise Inconclusive(msg)

    # ---- finish -----------------------------------------------------------
    def finish(self, coverage, assumptions=None):
        cov = dict(coverage)
        cov.setdefault("known_findings_hit", {k: self.known_hit[k] for k in self.known_seen_order})
        if self.notes:
            cov.setdefault("notes", self.notes[:40])
        ev = {
            "property_id": self.pid,
            "tier": self.tier,
            "seed": self.seed,
            "level": self.level,
            "coverage": cov,
            "assumptions": assumptions or [],
            "wall_s": round(time.time() - self.t0, 2),
            "violations": len(self.violations),
        }
        if self.violations:
            cov["violation_keys"] = [{"key": v[0], "count": v[3], "replay": v[2]} for v in self.violations[:50]]
        os.makedirs(evidence_root(), exist_ok=True)
        tmp = os.path.join(evidence_root(), ".%s.json.tmp" % self.pid)
        with open(tmp, "w") as f:
            json.dump(ev, f, indent=1, sort_keys=False, default=str)
            f.write("\n")
        os.replace(tmp, os.path.join(evidence_root(), "%s.json" % self.pid))
        for k in self.known_seen_order:
            e = self.open[k]
            print("KNOWN-FINDING: property=%s %s [key=%s, seen %d time(s)]" % (self.pid, e["what"], k, self.known_hit[k]))
        for v in self.violations:
            print("VIOLATION property=%s replay=%s" % (self.pid, v[2] or self.replay_root))
            print("  key: %s (x%d)" % (v[0], v[3]))
            for line in v[1].splitlines()[:12]:
                print("  | " + line)
        print("%s %s tier=%s seed=%d evaluations=%s distinct=%s wall=%.1fs -> %s" % (
            self.pid, "VIOLATED" if self.violations else "held on what was explored", self.tier, self.seed,
            cov.get("evaluations", cov.get("programs", "?")), cov.get("distinct_nontrivial", "?"),
            time.time() - self.t0, "exit 1" if self.violations else "exit 0"))
        sys.stdout.flush()
        return 1 if self.violations else 0


def main(argv):
    import argparse
    import importlib
    ap = argparse.ArgumentParser()
    ap.add_argument("pid")
    ap.add_argument("--tier", default=os.environ.get("VERIF_TIER", "quick"), choices=["quick", "thorough"])
    ap.add_argument("--replay", default=None)
    ap.add_argument("--seed", type=int, default=None)
    a = ap.parse_args(argv)
    seed = a.seed if a.seed is not None else int(os.environ.get("VERIF_SEED", "1") or 1)
    pid = a.pid.upper()
    try:
        mod = importlib.import_module("nlv.checks.%s" % pid.lower())
    except ImportError as ex:
        print("no check for %s: %s" % (pid, ex))
        return 2
    ctx = Ctx(pid, a.tier, seed, getattr(mod, "LEVEL", "exploration"), keep_replay=bool(a.replay))
    try:
        if a.replay:
            if not hasattr(mod, "replay"):
                print("replay not supported for %s; the directory holds the inputs and commands" % pid)
                return 2
            return mod.replay(ctx, a.replay)
        return mod.run(ctx)
    except Inconclusive as ex:
        print("INCONCLUSIVE property=%s: %s" % (pid, ex))
        return 2
    except Exception:
        traceback.print_exc()
        print("INCONCLUSIVE property=%s: harness failure" % pid)
        return 2
