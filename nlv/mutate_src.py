"""Source-level workload for C09: small seed programs, byte / token mutators, truncations, depth generators.

Everything here is pure (bytes in, bytes out) and draws randomness only from the `random.Random` handed in.
The tokenizer is a loose transcription of src/lexer.c; it only has to cut a source into plausible tokens so that
token-level mutations hit token boundaries - it is not an oracle.
"""
import re

KEYWORDS = [b"module", b"pub", b"from", b"use", b"extern", b"fn", b"let", b"mut", b"set", b"if", b"else", b"cond",
            b"while", b"for", b"in", b"return", b"break", b"continue", b"assert", b"shadow", b"requires",
            b"ensures", b"array", b"struct", b"enum", b"union", b"match", b"opaque", b"import", b"unsafe",
            b"resource", b"as", b"true", b"false", b"int", b"u8", b"float", b"bool", b"string", b"void",
            b"bstring", b"and", b"or", b"not"]
BRACKETS = [b"(", b")", b"{", b"}", b"[", b"]", b"<", b">"]
OPERATORS = [b"+", b"-", b"*", b"/", b"%", b"==", b"!=", b"<", b"<=", b">", b">=", b"=", b"->", b"=>", b"::",
             b":", b",", b"."]
ATOMS = [b"0", b"1", b"-1", b"42", b"9223372036854775807", b"99999999999999999999999", b"3.14", b"x", b"y", b"main",
         b"f", b"g", b"Point", b"Opt", b"\"s\"", b"\"\"", b"'a'", b"'\\n'", b"println", b"List", b"HashMap"]

_TOK = re.compile(
    rb"(?P<ws>[ \t\r\n\f\v]+)"
    rb"|(?P<lc>#[^\n]*)"
    rb"|(?P<bc>/\*.*?(?:\*/|\Z))"
    rb"|(?P<str>\"(?:\\.|[^\"\\])*(?:\"|\Z))"
    rb"|(?P<chr>'(?:\\.|[^'\\])')"
    rb"|(?P<num>[0-9]+(?:\.[0-9]+)?)"
    rb"|(?P<id>[A-Za-z_][A-Za-z0-9_]*)"
    rb"|(?P<op2>::|->|=>|==|!=|<=|>=)"
    rb"|(?P<ch>.)", re.S)


def tokenize(data):
    """-> list of (start, end, kind) for the non-blank, non-comment tokens of `data` (bytes)."""
    out = []
    for m in _TOK.finditer(data):
        k = m.lastgroup
        if k in ("ws", "lc", "bc"):
            continue
        out.append((m.start(), m.end(), k))
    return out


def _pick_pos(rng, n):
    return rng.randrange(n) if n > 0 else 0


INTERESTING_BYTES = [0x00, 0x01, 0x08, 0x09, 0x0a, 0x0d, 0x1b, 0x20, 0x22, 0x23, 0x27, 0x28, 0x29, 0x2a, 0x2d, 0x2e,
                     0x2f, 0x3c, 0x3e, 0x5b, 0x5c, 0x5d, 0x7b, 0x7d, 0x7f, 0x80, 0xbf, 0xc0, 0xe2, 0xf0, 0xfe, 0xff]


# ------------------------------------------------------------------ byte level
def byte_flip(d, toks, rng):
    b = bytearray(d)
    if not b:
        return bytes([rng.randrange(256)])
    for _ in range(rng.choice((1, 1, 1, 2, 3))):
        i = rng.randrange(len(b))
        b[i] ^= 1 << rng.randrange(8)
    return bytes(b)


def byte_insert(d, toks, rng):
    i = rng.randrange(len(d) + 1)
    n = rng.choice((1, 1, 1, 2, 4))
    ins = bytes(rng.choice(INTERESTING_BYTES) if rng.random() < 0.6 else rng.randrange(256) for _ in range(n))
    return d[:i] + ins + d[i:]


def byte_delete(d, toks, rng):
    if not d:
        return d
    i = rng.randrange(len(d))
    n = rng.choice((1, 1, 1, 2, 3, 8, 32))
    return d[:i] + d[i + n:]


def byte_dup(d, toks, rng):
    """duplicate a chunk in place; sometimes many times (long runs of one construct)"""
    if not d:
        return d
    i = rng.randrange(len(d))
    n = rng.choice((1, 1, 2, 3, 4, 8, 16, 64))
    times = rng.choice((1, 1, 1, 2, 3, 10, 100, 1000, 3000))
    chunk = d[i:i + n]
    return (d[:i] + chunk * (times + 1) + d[i + n:])[:MAX_INPUT]


# ------------------------------------------------------------------ token level
def _tok_pick(toks, rng):
    return rng.randrange(len(toks)) if toks else None


def tok_delete(d, toks, rng):
    k = _tok_pick(toks, rng)
    if k is None:
        return byte_delete(d, toks, rng)
    n = rng.choice((1, 1, 1, 2, 3))
    s = toks[k][0]
    e = toks[min(k + n, len(toks)) - 1][1]
    return d[:s] + d[e:]


def tok_dup(d, toks, rng):
    k = _tok_pick(toks, rng)
    if k is None:
        return byte_dup(d, toks, rng)
    n = rng.choice((1, 1, 2, 3, 5))
    s = toks[k][0]
    e = toks[min(k + n, len(toks)) - 1][1]
    times = rng.choice((1, 1, 1, 2, 5, 50, 1200))
    return (d[:e] + (b" " + d[s:e]) * times + d[e:])[:MAX_INPUT]


def tok_swap(d, toks, rng):
    if len(toks) < 2:
        return byte_flip(d, toks, rng)
    a = rng.randrange(len(toks) - 1)
    b = a + 1 if rng.random() < 0.5 else rng.randrange(len(toks))
    if a == b:
        b = (a + 1) % len(toks)
    a, b = min(a, b), max(a, b)
    (s1, e1, _), (s2, e2, _) = toks[a], toks[b]
    return d[:s1] + d[s2:e2] + d[e1:s2] + d[s1:e1] + d[e2:]


def tok_keyword(d, toks, rng):
    k = _tok_pick(toks, rng)
    if k is None:
        return rng.choice(KEYWORDS)
    s, e, _ = toks[k]
    return d[:s] + rng.choice(KEYWORDS) + d[e:]


def tok_bracket(d, toks, rng):
    k = _tok_pick(toks, rng)
    if k is None:
        return rng.choice(BRACKETS)
    s, e, _ = toks[k]
    return d[:s] + rng.choice(BRACKETS) + d[e:]


def tok_insert(d, toks, rng):
    """insert a keyword / bracket / operator / atom / token taken from elsewhere at a token boundary"""
    k = _tok_pick(toks, rng)
    at = toks[k][0] if k is not None else len(d)
    r = rng.random()
    if r < 0.3:
        t = rng.choice(KEYWORDS)
    elif r < 0.5:
        t = rng.choice(BRACKETS)
    elif r < 0.65:
        t = rng.choice(OPERATORS)
    elif r < 0.8 or not toks:
        t = rng.choice(ATOMS)
    else:
        s, e, _ = toks[rng.randrange(len(toks))]
        t = d[s:e]
    return d[:at] + t + b" " + d[at:]


def tok_operator(d, toks, rng):
    k = _tok_pick(toks, rng)
    if k is None:
        return rng.choice(OPERATORS)
    s, e, _ = toks[k]
    return d[:s] + rng.choice(OPERATORS + ATOMS) + d[e:]


# ------------------------------------------------------------------ structure breaking
_OPEN = {b"(": b")", b"{": b"}", b"[": b"]", b"<": b">"}
_CLOSE = {v: k for k, v in _OPEN.items()}


def unbalanced(d, toks, rng):
    br = [t for t in toks if t[2] == "ch" and d[t[0]:t[1]] in (b"(", b")", b"{", b"}", b"[", b"]", b"<", b">")]
    r = rng.random()
    if br and r < 0.35:                       # drop one bracket
        s, e, _ = rng.choice(br)
        return d[:s] + d[e:]
    if br and r < 0.55:                       # replace by a different bracket
        s, e, _ = rng.choice(br)
        return d[:s] + rng.choice([b for b in BRACKETS if b != d[s:e]]) + d[e:]
    # insert 1..N extra brackets at a token boundary
    k = _tok_pick(toks, rng)
    at = toks[k][0] if k is not None else len(d)
    n = rng.choice((1, 1, 1, 2, 3, 7, 40, 400))
    return d[:at] + rng.choice(BRACKETS) * n + d[at:]


def unterminated_string(d, toks, rng):
    strs = [t for t in toks if t[2] == "str" and t[1] - t[0] >= 2]
    r = rng.random()
    if strs and r < 0.5:                      # remove the closing quote of a literal
        s, e, _ = rng.choice(strs)
        return d[:e - 1] + d[e:]
    if strs and r < 0.65:                     # end the literal with a backslash
        s, e, _ = rng.choice(strs)
        return d[:e - 1] + b"\\" + d[e - 1:]
    at = rng.randrange(len(d) + 1)
    return d[:at] + rng.choice((b"\"", b"\"abc", b"'", b"'\\", b"'ab", b"\"\\")) + d[at:]


def unterminated_comment(d, toks, rng):
    k = _tok_pick(toks, rng)
    at = toks[k][0] if k is not None else len(d)
    return d[:at] + rng.choice((b"/*", b"/* x", b"/*/", b"/**", b"*/", b"/* /* */")) + d[at:]


def unterminated_shadow(d, toks, rng):
    """a shadow block that is never closed: cut inside an existing one, or append an open one"""
    sh = [i for i, t in enumerate(toks) if d[t[0]:t[1]] == b"shadow"]
    r = rng.random()
    if sh and r < 0.5:
        i = rng.choice(sh)
        # find its opening brace and cut somewhere after it
        j = i
        while j < len(toks) and d[toks[j][0]:toks[j][1]] != b"{":
            j += 1
        if j < len(toks):
            depth = 0
            k = j
            while k < len(toks):
                c = d[toks[k][0]:toks[k][1]]
                if c == b"{":
                    depth += 1
                elif c == b"}":
                    depth -= 1
                    if depth == 0:
                        break
                k += 1
            cut = rng.randrange(j, max(j + 1, k))
            return d[:toks[cut][1]] + b"\n"
    if sh and r < 0.7:
        # delete the closing brace of a shadow block (the rest of the file follows)
        i = rng.choice(sh)
        depth = 0
        for k in range(i, len(toks)):
            c = d[toks[k][0]:toks[k][1]]
            if c == b"{":
                depth += 1
            elif c == b"}":
                depth -= 1
                if depth == 0:
                    return d[:toks[k][0]] + d[toks[k][1]:]
    body = rng.choice((b"assert (== (f 1) 1)", b"assert (g else fn)", b"assert (== 1", b"let x: int = (f", b"assert",
                       b"(f", b"assert (== [1, 2", b"assert true\n    shadow", b"{", b"if true {", b"match x {",
                       b"assert (cond ((== 1 1)"))
    return d + b"\nshadow " + rng.choice((b"main", b"f", b"undefined_fn")) + b" {\n    " + body + b"\n"


def nul_byte(d, toks, rng):
    b = bytearray(d)
    for _ in range(rng.choice((1, 1, 2, 5))):
        i = rng.randrange(len(b) + 1)
        if rng.random() < 0.5 and i < len(b):
            b[i] = 0
        else:
            b[i:i] = b"\0"
    return bytes(b)


def high_bytes(d, toks, rng):
    b = bytearray(d)
    for _ in range(rng.choice((1, 1, 2, 4))):
        n = rng.choice((1, 1, 2, 3, 4, 8))
        s = bytes(rng.randrange(0x80, 0x100) for _ in range(n))
        if toks and rng.random() < 0.5:        # inside a token (identifier / string / number)
            t = rng.choice(toks)
            i = rng.randrange(t[0], t[1] + 1)
        else:
            i = rng.randrange(len(b) + 1)
        if rng.random() < 0.5:
            b[i:i + n] = s
        else:
            b[i:i] = s
    return bytes(b)


IDENT_LENGTHS = (63, 64, 65, 255, 256, 257, 300, 1023, 1024, 1025, 5000, 70000)
CLOSERS = (b">", b")", b"}", b"]")


def long_name(orig, length):
    """a name of exactly `length` characters that keeps the first character (case matters to the parser) of `orig`"""
    first = orig[:1] if orig[:1].isalpha() or orig[:1] == b"_" else b"a"
    return first + b"a" * (length - 1)


def ident_targets(d, toks):
    """token indices whose text can be stretched: identifiers / keywords-as-names and string literals"""
    return [i for i, t in enumerate(toks) if t[2] == "id" or (t[2] == "str" and t[1] - t[0] >= 2)]


def stretch(d, toks, k, length, everywhere=False):
    """replace token k (identifier: the whole token; string literal: its contents) by a name of `length` characters;
    everywhere=True renames every occurrence of that identifier"""
    s, e, kind = toks[k]
    if kind == "str":
        return d[:s + 1] + long_name(d[s + 1:e - 1] or b"s", length) + d[e - 1:]
    old = d[s:e]
    new = long_name(old, length)
    if not everywhere:
        return d[:s] + new + d[e:]
    out = []
    pos = 0
    for (ts, te, tk) in toks:
        if tk == "id" and d[ts:te] == old:
            out.append(d[pos:ts])
            out.append(new)
            pos = te
    out.append(d[pos:])
    return b"".join(out)


def ident_length(d, toks, rng):
    """identifier-length mutator: any identifier (variable, function, type, field, module qualifier, component of
    A.B / A.B.C) or string literal (import paths included) becomes 63..70000 characters long.  Not cut at 64 KiB."""
    tg = ident_targets(d, toks)
    if not tg:
        return long_name(b"a", rng.choice(IDENT_LENGTHS))
    k = rng.choice(tg)
    return stretch(d, toks, k, rng.choice(IDENT_LENGTHS), everywhere=rng.random() < 0.4)


def closer_positions(d, toks):
    return [i for i, t in enumerate(toks) if t[2] == "ch" and d[t[0]:t[1]] in CLOSERS]


def delete_closer(d, toks, rng):
    """delete exactly one closing bracket token (`>`, `)`, `}`, `]`)"""
    cp = closer_positions(d, toks)
    if not cp:
        return unbalanced(d, toks, rng)
    s, e, _ = toks[rng.choice(cp)]
    return d[:s] + d[e:]


MUTATORS = {
    "ident_length": ident_length, "delete_closer": delete_closer,
    "byte_flip": byte_flip, "byte_insert": byte_insert, "byte_delete": byte_delete, "byte_dup": byte_dup,
    "tok_delete": tok_delete, "tok_dup": tok_dup, "tok_swap": tok_swap, "tok_keyword": tok_keyword,
    "tok_bracket": tok_bracket, "tok_insert": tok_insert, "tok_operator": tok_operator,
    "unbalanced": unbalanced, "unterm_string": unterminated_string, "unterm_comment": unterminated_comment,
    "unterm_shadow": unterminated_shadow, "nul": nul_byte, "high_bytes": high_bytes,
}
MAX_INPUT = 64 << 10          # the property's time budget is stated for inputs <= 64 KiB


def havoc(d, toks, rng):
    names = sorted(n for n in MUTATORS if n != "ident_length")
    for _ in range(rng.randrange(2, 7)):
        d = MUTATORS[rng.choice(names)](d, tokenize(d), rng)[:MAX_INPUT]
    return d


def soup(rng):
    """A small program whose function body / top level is a random token sequence."""
    voc = KEYWORDS + BRACKETS * 3 + OPERATORS * 2 + ATOMS * 3
    n = rng.choice((2, 3, 4, 5, 6, 8, 12, 20, 40))
    seq = b" ".join(rng.choice(voc) for _ in range(n))
    r = rng.random()
    if r < 0.35:
        return b"fn main() -> int {\n    " + seq + b"\n    return 0\n}\n"
    if r < 0.5:
        return b"fn main() -> int {\n    return (" + seq + b")\n}\n"
    if r < 0.6:
        return b"fn main() -> int {\n    let x: int = (+ 1 " + seq + b")\n    return x\n}\n"
    if r < 0.7:
        return b"fn f(x: int) -> int { return x }\nshadow f {\n    assert (f " + seq + b")\n}\nfn main() -> int { return 0 }\n"
    if r < 0.8:
        return b"struct S { " + seq + b" }\nfn main() -> int { return 0 }\n"
    if r < 0.9:
        return b"fn f(" + seq + b") -> " + rng.choice(voc) + b" { return 0 }\nfn main() -> int { return 0 }\n"
    return seq + b"\n"


# ------------------------------------------------------------------ small valid seed programs
GEN_SEEDS = {
    "arith": b"""fn add(a: int, b: int) -> int {
    return (+ a (* b 2))
}
shadow add {
    assert (== (add 1 2) 5)
}
fn main() -> int {
    let x: int = (add 3 4)
    (println x)
    return 0
}
shadow main { assert true }
""",
    "infix": b"""fn f(a: int, b: int) -> int {
    let c: int = a + b * 2
    if c > 10 and a != b {
        return c - 1
    } else {
        return -c
    }
}
shadow f { assert (== (f 1 2) -6) }
fn main() -> int { return 0 }
shadow main { assert true }
""",
    "loops": b"""fn sum(n: int) -> int {
    let mut s: int = 0
    let mut i: int = 0
    while (< i n) {
        set s (+ s i)
        set i (+ i 1)
    }
    for j in (range 0 3) {
        set s (+ s j)
    }
    return s
}
shadow sum { assert (== (sum 3) 6) }
fn main() -> int { return (sum 0) }
shadow main { assert true }
""",
    "strings": b"""fn greet(name: string) -> string {
    return (+ "hi \\"there\\" " name)
}
shadow greet { assert (== (str_length (greet "a")) 12) }
fn main() -> int {
    (println (greet "w\\n"))
    let c: int = 'a'
    return 0
}
shadow main { assert true }
""",
    "struct": b"""struct Point {
    x: int,
    y: int
}
fn mk(a: int) -> Point {
    return Point { x: a, y: (* a 2) }
}
shadow mk {
    let p: Point = (mk 2)
    assert (== p.y 4)
}
fn main() -> int {
    let p: Point = (mk 1)
    return p.x
}
shadow main { assert true }
""",
    "enum": b"""enum Color {
    Red = 0,
    Green = 1,
    Blue = 2
}
fn pick(n: int) -> Color {
    if (== n 0) { return Color.Red } else { return Color.Blue }
}
shadow pick { assert (== (pick 0) Color.Red) }
fn main() -> int { return 0 }
shadow main { assert true }
""",
    "union": b"""union Opt {
    Some { value: int },
    None { }
}
fn get(o: Opt) -> int {
    match o {
        Some(s) => {
            return s.value
        }
        None(n) => {
            return 0
        }
    }
}
shadow get { assert (== (get Opt.Some { value: 3 }) 3) }
fn main() -> int { return (get Opt.None { }) }
shadow main { assert true }
""",
    "generic_union": b"""union Result<T, E> {
    Ok { value: T },
    Error { error: E }
}
fn div(a: int, b: int) -> Result<int, string> {
    if (== b 0) {
        return Result.Error { error: "zero" }
    } else {
        return Result.Ok { value: (/ a b) }
    }
}
shadow div {
    let r: Result<int, string> = (div 4 2)
    assert true
}
fn main() -> int { return 0 }
shadow main { assert true }
""",
    "arrays": b"""fn total(a: array<int>) -> int {
    let mut s: int = 0
    let mut i: int = 0
    while (< i (array_length a)) {
        set s (+ s (at a i))
        set i (+ i 1)
    }
    return s
}
shadow total { assert (== (total [1, 2, 3]) 6) }
fn main() -> int {
    let m: array<array<int>> = [[1, 2], [3, 4]]
    let e: array<int> = []
    return (total e)
}
shadow main { assert true }
""",
    "cond": b"""fn grade(n: int) -> string {
    return (cond
        ((< n 0) "neg")
        ((== n 0) "zero")
        (else "pos"))
}
shadow grade { assert (== (grade 0) "zero") }
fn main() -> int { return 0 }
shadow main { assert true }
""",
    "tuple": b"""fn pair(a: int) -> (int, string) {
    return (a, "x")
}
shadow pair {
    let t: (int, string) = (pair 1)
    assert (== t.0 1)
}
fn main() -> int { return 0 }
shadow main { assert true }
""",
    "fnvalue": b"""fn twice(f: fn(int) -> int, x: int) -> int {
    return (f (f x))
}
fn inc(x: int) -> int { return (+ x 1) }
shadow inc { assert (== (inc 1) 2) }
shadow twice { assert (== (twice inc 1) 3) }
fn main() -> int { return 0 }
shadow main { assert true }
""",
    "floats": b"""fn area(r: float) -> float {
    return (* 3.14159 (* r r))
}
shadow area { assert (> (area 1.0) 3.0) }
fn main() -> int {
    let b: bool = (not (< 1.5 2.5))
    return 0
}
shadow main { assert true }
""",
    "extern": b"""extern fn abs(x: int) -> int
pub fn wrap(x: int) -> int {
    let mut r: int = 0
    unsafe {
        set r (abs x)
    }
    return r
}
shadow wrap { assert true }
fn main() -> int { return 0 }
shadow main { assert true }
""",
    "import": b"""from "modules/std/collections/stringbuilder.nano" import StringBuilder, sb_new, sb_append, sb_to_string
from "std/math/vector3d.nano" import Vector3D, vec3_new
import "modules/std/collections/stringbuilder.nano" as sb
fn main() -> int {
    let b: StringBuilder = (sb_new)
    return 0
}
shadow main { assert true }
""",
    "contracts": b"""fn safe_div(a: int, b: int) -> int
    requires (!= b 0)
    ensures (>= result 0)
{
    return (/ a b)
}
shadow safe_div { assert (== (safe_div 4 2) 2) }
fn main() -> int { return 0 }
shadow main { assert true }
""",
    "ifexpr": b"""fn sign(n: int) -> int {
    if (< n 0) { return -1 } else { if (== n 0) { return 0 } else { return 1 } }
}
shadow sign { assert (== (sign 5) 1) }
fn main() -> int { return 0 }
shadow main { assert true }
""",
    "generics": b"""fn main() -> int {
    let xs: List<int> = (list_int_new)
    (list_int_push xs 1)
    return (list_int_length xs)
}
shadow main { assert true }
""",
    "opaque": b"""opaque type Handle
extern fn open_it(name: string) -> Handle
fn main() -> int { return 0 }
shadow main { assert true }
""",
    "comments": b"""# line comment
/* block
   comment */
fn main() -> int { /* inline */ return 0 # tail
}
shadow main { assert true }
""",
    "empty": b"",
    "hello": b"fn main() -> int {\n    (println \"hello\")\n    return 0\n}\nshadow main { assert true }\n",
    # generic / built-in parameterised types in every type position
    "generic_types": b"""struct Reg {
    names: HashMap<string, int>,
    rows: array<HashMap<string, int>>,
    items: List<int>,
    grid: array<array<int>>,
    count: int
}
union Store {
    Mem { m: HashMap<string, int> },
    Seq { xs: array<array<string>>, l: List<string> },
    Nil { }
}
fn apply(f: fn(HashMap<string, int>) -> int, g: fn(array<int>, List<int>) -> array<int>) -> int {
    return 0
}
shadow apply { assert true }
fn build(seed: HashMap<string, int>, rows: array<HashMap<string, int>>) -> HashMap<string, int> {
    let hm: HashMap<string, int> = (map_new)
    let t: (HashMap<string, int>, array<int>) = (hm, [1, 2])
    return hm
}
shadow build { assert true }
fn main() -> int {
    let hm: HashMap<string, int> = (map_new)
    let hi: HashMap<int, string> = (map_new)
    return 0
}
shadow main { assert true }
""",
    "generic_nested": b"""union Result<T, E> {
    Ok { value: T },
    Error { error: E }
}
struct Box {
    r: Result<int, string>,
    f: fn(int, HashMap<string, int>) -> int,
    g: array<HashMap<int, string>>
}
fn wrap(x: int) -> Result<array<int>, string> {
    return Result.Error { error: "no" }
}
shadow wrap { assert true }
fn main() -> int {
    let r: Result<array<int>, string> = (wrap 1)
    return 0
}
shadow main { assert true }
""",
    "generic_hashmap_nested": b"""struct Deep {
    m: HashMap<string, array<int>>,
    n: HashMap<string, HashMap<string, int>>
}
fn main() -> int { return 0 }
shadow main { assert true }
""",
    # module-qualified type names (two and three parts) in every type position; all of it parses, the type checker
    # is reached and has to look the names up
    "qualified_types": b"""struct Holder {
    one: Mod.Thing,
    two: Mod.Inner.Thing,
    three: array<Mod.Inner.Thing>
}
union Wrap {
    A { v: Mod.Inner.Thing },
    B { w: Mod.Thing }
}
fn ret_two() -> Mod.Thing {
    return 0
}
fn ret_three(p: Mod.Inner.Thing, q: Mod.Thing) -> Mod.Inner.Thing {
    let a: Mod.Inner.Thing = 0
    let b: Mod.Thing = 0
    let mut c: Mod.Inner.Other = 0
    return a
}
fn main() -> int {
    return 0
}
shadow main { assert true }
""",
    "qualified_let": b"fn main() -> int {\n    let x: Mod.Inner.Thing = 0\n    return 0\n}\nshadow main { assert true }\n",
    "qualified_ret": b"fn g() -> Mod.Inner.Thing {\n    return 0\n}\nfn main() -> int { return 0 }\nshadow main { assert true }\n",
    "qualified_field": b"struct S {\n    f: Mod.Inner.Thing\n}\nfn main() -> int { return 0 }\nshadow main { assert true }\n",
    # module-qualified names in expression positions
    "qualified_exprs": b"""import "modules/std/collections/stringbuilder.nano" as Sb
fn use_them(n: int) -> int {
    let c: StringBuilder = (Sb.sb_new)
    let e: int = (Mod.func 1 2)
    let f: int = Mod.value
    let g: int = Mod.Inner.value
    let h: Mod.Thing = Mod.Thing { x: 1 }
    return (+ e f)
}
fn main() -> int {
    return 0
}
shadow main { assert true }
""",
    # contracts that look into aggregates
    "contracts_field": b"""struct P { x: int, y: int }
fn mk(a: int) -> P
    requires (> a 0)
    ensures (> result.x 0)
    ensures (== result.y (* result.x 2))
{
    return P { x: a, y: (* a 2) }
}
shadow mk { assert (== (mk 1).x 1) }
fn shift(p: P, d: int) -> P
    requires (>= p.x 0)
    requires (and (> d 0) (< p.y 100))
    ensures (> result.x p.x)
{
    return P { x: (+ p.x d), y: p.y }
}
shadow shift { assert true }
fn pair(a: int) -> (int, int)
    ensures (== result.0 a)
{
    return (a, a)
}
shadow pair { assert true }
fn firsts(xs: array<int>) -> array<int>
    requires (> (array_length xs) 0)
    ensures (== (at result 0) (at xs 0))
    ensures (== result [1])
{
    return xs
}
shadow firsts { assert true }
fn neg(a: int) -> int
    ensures (== result -a)
    ensures (if (> a 0) { (< result 0) } else { true })
    ensures (cond ((> a 0) (< result 0)) (else true))
{
    return -a
}
shadow neg { assert true }
fn main() -> int { return 0 }
shadow main { assert true }
""",
}

# seeds whose every token boundary / closing bracket / identifier is enumerated in BOTH tiers
PRIORITY_SEEDS = ("generic_types", "generic_nested", "generic_hashmap_nested", "qualified_types", "qualified_let",
                  "qualified_ret", "qualified_field", "qualified_exprs", "contracts_field")
QUALIFIED_SEEDS = ("qualified_types", "qualified_let", "qualified_ret", "qualified_field", "qualified_exprs")

# multi-file inputs: the main file is always written as i.nano, the others next to it
def _m(body=b""):
    return body + b"fn main() -> int { return 0 }\nshadow main { assert true }\n"


def _lib(name, imports=b""):
    return imports + b"fn " + name + b"() -> int { return 1 }\nshadow " + name + b" { assert true }\n"


MULTI = {
    "chain_ok": {"i.nano": _m(b'import "b.nano"\n'), "b.nano": _lib(b"fb", b'import "c.nano"\n'), "c.nano": _lib(b"fc")},
    "import_twice": {"i.nano": _m(b'import "b.nano"\nimport "b.nano"\nimport "./b.nano"\n'), "b.nano": _lib(b"fb")},
    "diamond_ok": {"i.nano": _m(b'import "b.nano"\nimport "c.nano"\n'), "b.nano": _lib(b"fb", b'import "d.nano"\n'),
                   "c.nano": _lib(b"fc", b'import "d.nano"\n'), "d.nano": _lib(b"fd")},
    "self_import": {"i.nano": _m(b'import "i.nano"\n')},
    "self_import_from": {"i.nano": _m(b'from "i.nano" import main\n')},
    "cycle2": {"i.nano": _m(b'import "b.nano"\n'), "b.nano": _lib(b"fb", b'import "i.nano"\n')},
    "cycle2_from": {"i.nano": _m(b'from "b.nano" import fb\n'), "b.nano": _lib(b"fb", b'from "i.nano" import main\n')},
    "cycle2_alias": {"i.nano": _m(b'import "b.nano" as B\n'), "b.nano": _lib(b"fb", b'import "i.nano" as I\n')},
    "cycle3": {"i.nano": _m(b'import "b.nano"\n'), "b.nano": _lib(b"fb", b'import "c.nano"\n'),
               "c.nano": _lib(b"fc", b'import "i.nano"\n')},
    "lib_cycle": {"i.nano": _m(b'import "p.nano"\n'), "p.nano": _lib(b"fp", b'import "q.nano"\n'),
                  "q.nano": _lib(b"fq", b'import "p.nano"\n')},
    "lib_self": {"i.nano": _m(b'import "p.nano"\n'), "p.nano": _lib(b"fp", b'import "p.nano"\n')},
    "import_empty_file": {"i.nano": _m(b'import "e.nano"\n'), "e.nano": b""},
    "import_garbage": {"i.nano": _m(b'import "g.nano"\n'), "g.nano": b"fn (( else \x00\xff {"},
    "import_unterminated": {"i.nano": _m(b'import "g.nano"\n'), "g.nano": b"fn fb() -> int { return (+ 1 \"abc"},
    "import_deep": {"i.nano": _m(b'import "g.nano"\n'), "g.nano": _lib(b"fb") + b"fn deep() -> int { return " + b"(+ 1 " * 1001 + b"1" + b")" * 1001 + b" }\n"},
}

# hostile but tiny hand-made inputs (regression corpus of shapes that hurt recursive-descent parsers)
HOSTILE = {
    "arg_else": b"fn main() -> int {\n    return (+ 1 else)\n}\n",
    "call_else_fn": b"fn g(x: int) -> int { return x }\nshadow g {\n    assert (g else fn)\n",
    "array_else": b"fn main() -> int {\n    let a: array<int> = [1, else]\n    return 0\n}\n",
    "struct_lit_else": b"struct P { x: int }\nfn main() -> int {\n    let p: P = P { x: else }\n    return 0\n}\n",
    "union_else": b"union O { S { v: int } }\nfn main() -> int {\n    let o: O = O.S { v: else }\n    return 0\n}\n",
    "cond_else": b"fn main() -> int {\n    return (cond ((== 1 1) else) (else 2))\n}\n",
    "match_eof": b"union O { S { v: int } }\nfn f(o: O) -> int {\n    match o {\n        S(s) => ",
    "tuple_else": b"fn main() -> int {\n    let t: (int, int) = (1, else)\n    return 0\n}\n",
    "params_eof": b"fn f(a: int, ",
    "type_eof": b"fn f(a: array<array<",
    "generic_eof": b"fn f(a: HashMap<string, List<",
    "fn_type_eof": b"fn f(g: fn(int, fn(",
    "enum_eof": b"enum E { A = ",
    "struct_eof": b"struct S { a: ",
    "union_eof": b"union U<T, ",
    "import_eof": b"from \"x\" import ",
    "import_dir": b"import \".\"\nfn main() -> int { return 0 }\n",
    "import_self": b"import \"w/self.nano\"\nfn main() -> int { return 0 }\n",
    "only_open": b"(",
    "only_close": b")",
    "only_brace": b"{",
    "only_shadow": b"shadow",
    "only_fn": b"fn",
    "bom": b"\xef\xbb\xbffn main() -> int { return 0 }\n",
    "crlf": b"fn main() -> int {\r\n    return 0\r\n}\r\n",
    "bigint": b"fn main() -> int {\n    return 999999999999999999999999999999999999999\n}\n",
    "bigfloat": b"fn main() -> int {\n    let f: float = 1" + b"0" * 400 + b".5\n    return 0\n}\n",
    "long_ident": b"fn " + b"a" * 5000 + b"() -> int { return 0 }\nfn main() -> int { return (" + b"a" * 5000 + b") }\n",
    "long_string": b"fn main() -> int {\n    (println \"" + b"x" * 20000 + b"\")\n    return 0\n}\n",
    "many_args": b"fn main() -> int {\n    return (+ " + b"1 " * 5000 + b")\n}\n",
    "many_params": b"fn f(" + b", ".join(b"a%d: int" % i for i in range(600)) + b") -> int { return 0 }\nfn main() -> int { return 0 }\n",
    "many_fields": b"struct S {\n" + b",\n".join(b"  f%d: int" % i for i in range(600)) + b"\n}\nfn main() -> int { return 0 }\n",
    "many_fns": b"".join(b"fn f%d() -> int { return %d }\nshadow f%d { assert true }\n" % (i, i, i) for i in range(700)) + b"fn main() -> int { return 0 }\n",
    "many_lets": b"fn main() -> int {\n" + b"".join(b"    let v%d: int = %d\n" % (i, i) for i in range(1500)) + b"    return 0\n}\n",
    "esc_eof": b"fn main() -> int {\n    (println \"abc\\",
    "char_eof": b"fn main() -> int {\n    return '",
    "char_esc_eof": b"fn main() -> int {\n    return '\\",
    "tuple_index_big": b"fn main() -> int {\n    let t: (int, int) = (1, 2)\n    return t.99999999999999999999\n}\n",
    "neg_tuple_index": b"fn main() -> int {\n    let t: (int, int) = (1, 2)\n    return t.-1\n}\n",
    "dup_fn": b"fn f() -> int { return 0 }\nfn f() -> int { return 1 }\nfn main() -> int { return 0 }\n",
    "dup_struct": b"struct S { a: int }\nstruct S { a: int, a: int }\nfn main() -> int { return 0 }\n",
    "self_struct": b"struct S { s: S }\nfn main() -> int { let x: S = S { s: x }\n return 0 }\n",
    "rec_union": b"union U { A { u: U } }\nfn main() -> int { return 0 }\n",
    "shadow_undefined": b"shadow nothing { assert (nothing) }\n",
    "nested_fn": b"fn main() -> int {\n    fn inner() -> int { fn inner2() -> int { return 1 }\n return 2 }\n    return 0\n}\n",
}


# ------------------------------------------------------------------ depth generators
# name -> (builder(depth) -> bytes, nesting?)   nesting=True: syntactic nesting of expressions / blocks, for which the
# parser documents a maximum depth; False: a flat chain (no syntactic nesting; must only not crash).
def _wrap_expr(e, ty=b"int"):
    return b"fn main() -> " + ty + b" {\n    return " + e + b"\n}\nshadow main { assert true }\n"


def d_prefix_parens(n):
    return _wrap_expr(b"(+ 1 " * n + b"1" + b")" * n)


def d_group_parens(n):
    return _wrap_expr(b"(" * n + b"1" + b")" * n)


def d_calls(n):
    return b"fn f(x: int) -> int { return x }\nshadow f { assert true }\n" + _wrap_expr(b"(f " * n + b"1" + b")" * n)


def d_while_blocks(n):
    return (b"fn main() -> int {\n" + b"while false {\n" * n + b"(println 1)\n" + b"}\n" * n +
            b"    return 0\n}\nshadow main { assert true }\n")


def d_if_nest(n):
    return (b"fn main() -> int {\n    let x: int = 0\n" + b"if (== x 0) {\n" * n + b"(println 1)\n" +
            b"} else { (println 2) }\n" * n + b"    return 0\n}\nshadow main { assert true }\n")


def d_elif_chain(n):
    return (b"fn main() -> int {\n    let x: int = 0\n    if (== x 1) { (println 1) }\n" +
            b"".join(b"    else if (== x %d) { (println 1) }\n" % (i % 1000) for i in range(n)) +
            b"    else { (println 0) }\n    return 0\n}\nshadow main { assert true }\n")


def d_if_expr(n):
    return _wrap_expr(b"if true { " * n + b"1" + b" } else { 0 }" * n)


def d_unary_minus(n):
    return b"fn main() -> int {\n    let x: int = 1\n    return " + b"-" * n + b"x\n}\nshadow main { assert true }\n"


def d_unary_not(n):
    return _wrap_expr(b"not " * n + b"true", b"bool").replace(b"fn main", b"fn m") .replace(b"shadow main", b"shadow m") + \
        b"fn main() -> int { return 0 }\nshadow main { assert true }\n"


def d_array_literal(n):
    ty = b"array<" * n + b"int" + b">" * n
    return (b"fn main() -> int {\n    let a: " + ty + b" = " + b"[" * n + b"1" + b"]" * n +
            b"\n    return 0\n}\nshadow main { assert true }\n")


def d_array_type(n):
    ty = b"array<" * n + b"int" + b">" * n
    return b"fn f(a: " + ty + b") -> int {\n    return 0\n}\nshadow f { assert true }\nfn main() -> int { return 0 }\nshadow main { assert true }\n"


def d_infix_chain(n):
    return _wrap_expr(b"1" + b" + 1" * n)


def d_infix_parens(n):
    return _wrap_expr(b"(1 + " * n + b"1" + b")" * n)


def d_field_chain(n):
    return b"struct S { a: int }\nfn main() -> int {\n    let s: S = S { a: 1 }\n    return s" + b".a" * n + b"\n}\n"


def d_open_parens(n):
    return b"fn main() -> int {\n    return " + b"(+ 1 " * n + b"\n}\n"


def d_open_braces(n):
    return b"fn main() -> int {\n" + b"while true {\n" * n


def d_open_brackets(n):
    return b"fn main() -> int {\n    let a: int = " + b"[" * n + b"\n}\n"


def d_struct_literal(n):
    return (b"struct S { a: int }\nfn main() -> int {\n    let s: S = " + b"S { a: " * n + b"1" + b" }" * n +
            b"\n    return 0\n}\n")


def d_tuple_type(n):
    return b"fn f(a: " + b"(int, " * n + b"int" + b")" * n + b") -> int { return 0 }\nfn main() -> int { return 0 }\n"


def d_fn_type(n):
    return b"fn f(a: " + b"fn(" * n + b"int" + b") -> int" * n + b") -> int { return 0 }\nfn main() -> int { return 0 }\n"


def d_cond_nest(n):
    return _wrap_expr(b"(cond ((== 1 2) 0) (else " * n + b"1" + b"))" * n)


def d_match_nest(n):
    return (b"union O { S { v: int } }\nfn f(o: O) -> int {\n" + b"match o { S(s) => {\n" * n + b"return 1\n" +
            b"} }\n" * n + b"    return 0\n}\nfn main() -> int { return 0 }\n")


def d_unsafe_nest(n):
    return b"fn main() -> int {\n" + b"unsafe {\n" * n + b"(println 1)\n" + b"}\n" * n + b"    return 0\n}\nshadow main { assert true }\n"


def d_nested_fn(n):
    return (b"fn main() -> int {\n" + b"fn g() -> int {\n" * n + b"return 1\n" + b"}\nreturn 1\n" * n + b"}\n")


# (builder, nesting, valid): valid=True means the program is well formed at small depth (accepted at depth 10)
DEPTH_GENERATORS = {
    "prefix_parens": (d_prefix_parens, True, True),
    "group_parens": (d_group_parens, True, True),
    "calls": (d_calls, True, True),
    "while_blocks": (d_while_blocks, True, True),
    "if_nest": (d_if_nest, True, True),
    "if_expr": (d_if_expr, True, False),
    "unary_minus": (d_unary_minus, True, True),
    "unary_not": (d_unary_not, True, True),
    "array_literal": (d_array_literal, True, True),
    "infix_parens": (d_infix_parens, True, True),
    "cond_nest": (d_cond_nest, True, True),
    "unsafe_nest": (d_unsafe_nest, True, True),
    "elif_chain": (d_elif_chain, False, True),
    "infix_chain": (d_infix_chain, False, True),
    "array_type": (d_array_type, False, True),
    "field_chain": (d_field_chain, False, False),
    "struct_literal": (d_struct_literal, True, False),
    "match_nest": (d_match_nest, True, False),
    "nested_fn": (d_nested_fn, True, False),
    "tuple_type": (d_tuple_type, False, False),
    "fn_type": (d_fn_type, False, False),
    "open_parens": (d_open_parens, True, False),
    "open_braces": (d_open_braces, True, False),
    "open_brackets": (d_open_brackets, True, False),
}


# ------------------------------------------------------------------ systematic nesting families
# Every recursive production of the grammar x every syntactic context it can appear in.
_PRE = (b"union Result<T, E> {\n    Ok { value: T },\n    Error { error: E }\n}\n"
        b"struct S { a: int }\nstruct R { r: R2 }\nstruct R2 { r: int }\n"
        b"fn f(x: int) -> int { return x }\nshadow f { assert true }\n")

TYPE_PRODUCTIONS = {
    "array": lambda n: b"array<" * n + b"int" + b">" * n,
    "fn_param": lambda n: b"fn(" * n + b"int" + b") -> int" * n,
    "fn_return": lambda n: b"fn() -> " * n + b"int",
    "fn_param_return": lambda n: b"fn(" * (n // 2) + b"fn() -> " * (n - n // 2) + b"int" + b") -> int" * (n // 2),
    "fn_second_param": lambda n: b"fn(int, " * n + b"int" + b") -> int" * n,
    "tuple_last": lambda n: b"(int, " * n + b"int" + b")" * n,
    "tuple_first": lambda n: b"(" * n + b"int" + b", int)" * n,
    "hashmap_value": lambda n: b"HashMap<string, " * n + b"int" + b">" * n,
    "hashmap_key": lambda n: b"HashMap<" * n + b"string" + b", int>" * n,
    "generic_arg": lambda n: b"Result<" * n + b"int" + b", string>" * n,
    "generic_second_arg": lambda n: b"Result<int, " * n + b"string" + b">" * n,
    "list_arg": lambda n: b"List<" * n + b"int" + b">" * n,
    "mixed": lambda n: b"".join((b"array<", b"fn(", b"(int, ", b"fn() -> ")[i % 4] for i in range(n)) + b"int" +
                        b"".join((b">", b") -> int", b")", b"")[i % 4] for i in reversed(range(n))),
}

TYPE_CONTEXTS = {
    "let": lambda t: _PRE + b"fn main() -> int {\n    let v: " + t + b" = 0\n    return 0\n}\nshadow main { assert true }\n",
    "param": lambda t: _PRE + b"fn g(v: " + t + b") -> int {\n    return 0\n}\nshadow g { assert true }\nfn main() -> int { return 0 }\nshadow main { assert true }\n",
    "return": lambda t: _PRE + b"fn g() -> " + t + b" {\n    return 0\n}\nshadow g { assert true }\nfn main() -> int { return 0 }\nshadow main { assert true }\n",
    "struct_field": lambda t: _PRE + b"struct Big {\n    v: " + t + b"\n}\nfn main() -> int { return 0 }\nshadow main { assert true }\n",
    "union_field": lambda t: _PRE + b"union U {\n    A { v: " + t + b" },\n    B { }\n}\nfn main() -> int { return 0 }\nshadow main { assert true }\n",
    "extern_param": lambda t: _PRE + b"extern fn ext(v: " + t + b") -> int\nfn main() -> int { return 0 }\nshadow main { assert true }\n",
    "generic_argument": lambda t: _PRE + b"fn main() -> int {\n    let v: Result<" + t + b", string> = 0\n    return 0\n}\nshadow main { assert true }\n",
}

EXPR_PRODUCTIONS = {
    "prefix_parens": lambda n: b"(+ 1 " * n + b"1" + b")" * n,
    "group_parens": lambda n: b"(" * n + b"1" + b")" * n,
    "calls": lambda n: b"(f " * n + b"1" + b")" * n,
    "unary_minus": lambda n: b"-" * n + b"k",
    "unary_not_int": lambda n: b"not " * n + b"k",
    "infix_chain": lambda n: b"1" + b" + 1" * n,
    "infix_parens": lambda n: b"(1 + " * n + b"1" + b")" * n,
    "field_chain": lambda n: b"s" + b".a" * n,
    "tuple_index_chain": lambda n: b"tp" + b".0" * n,
    "array_literal": lambda n: b"[" * n + b"1" + b"]" * n,
    "tuple_literal": lambda n: b"(" * n + b"1" + b", 2)" * n,
    "struct_literal": lambda n: b"S { a: " * n + b"1" + b" }" * n,
    "cond_nest": lambda n: b"(cond ((== 1 2) 0) (else " * n + b"1" + b"))" * n,
    "if_expr": lambda n: b"if true { " * n + b"1" + b" } else { 0 }" * n,
    "union_construct": lambda n: b"Result.Ok { value: " * n + b"1" + b" }" * n,
    "call_then_field": lambda n: b"(f " * n + b"s" + b".a" * n + b")" * n,
}

_EXPR_VARS = b"    let k: int = 1\n    let s: S = S { a: 1 }\n    let tp: (int, int) = (1, 2)\n"
EXPR_CONTEXTS = {
    "let_init": lambda e: _PRE + b"fn main() -> int {\n" + _EXPR_VARS + b"    let v: int = " + e + b"\n    return 0\n}\nshadow main { assert true }\n",
    "call_argument": lambda e: _PRE + b"fn main() -> int {\n" + _EXPR_VARS + b"    (println " + e + b")\n    return 0\n}\nshadow main { assert true }\n",
    "shadow_assert": lambda e: _PRE + b"fn main() -> int { return 0 }\nshadow main {\n" + _EXPR_VARS + b"    assert (== " + e + b" 1)\n}\n",
    "ensures": lambda e: _PRE + b"fn g(k: int, s: S, tp: (int, int)) -> int\n    ensures (== result " + e + b")\n{\n    return 1\n}\nshadow g { assert true }\nfn main() -> int { return 0 }\nshadow main { assert true }\n",
    "while_condition": lambda e: _PRE + b"fn main() -> int {\n" + _EXPR_VARS + b"    while (== " + e + b" 0) {\n        return 1\n    }\n    return 0\n}\nshadow main { assert true }\n",
}

# statement-level productions in a second context (a shadow block instead of a function body)
STMT_PRODUCTIONS = {
    "while_blocks": lambda n: b"while false {\n" * n + b"(println 1)\n" + b"}\n" * n,
    "if_nest": lambda n: b"if (== 1 0) {\n" * n + b"(println 1)\n" + b"} else { (println 2) }\n" * n,
    "elif_chain": lambda n: b"if (== 1 2) { (println 1) }\n" + b"else if (== 1 3) { (println 1) }\n" * n + b"else { (println 0) }\n",
    "unsafe_nest": lambda n: b"unsafe {\n" * n + b"(println 1)\n" + b"}\n" * n,
    "for_nest": lambda n: b"for i in (range 0 1) {\n" * n + b"(println 1)\n" + b"}\n" * n,
    "match_nest": lambda n: b"match (Result.Ok { value: 1 }) { Ok(v) => {\n" * n + b"(println 1)\n" + b"} Error(e) => { (println 2) } }\n" * n,
}
STMT_CONTEXTS = {
    "shadow_body": lambda b_: _PRE + b"fn main() -> int { return 0 }\nshadow main {\n" + b_ + b"    assert true\n}\n",
    "nested_fn_body": lambda b_: _PRE + b"fn main() -> int {\n    fn inner() -> int {\n" + b_ + b"        return 1\n    }\n    return 0\n}\nshadow main { assert true }\n",
}

# productions without syntactic nesting (flat chains): only "must not crash"
_FLAT = {"infix_chain", "field_chain", "tuple_index_chain", "elif_chain"}


def _mk(prod, ctx):
    return lambda n: ctx(prod(n))


for _pn, _pf in sorted(TYPE_PRODUCTIONS.items()):
    for _cn, _cf in sorted(TYPE_CONTEXTS.items()):
        DEPTH_GENERATORS["type:%s@%s" % (_pn, _cn)] = (_mk(_pf, _cf), True, False)
for _pn, _pf in sorted(EXPR_PRODUCTIONS.items()):
    for _cn, _cf in sorted(EXPR_CONTEXTS.items()):
        DEPTH_GENERATORS["expr:%s@%s" % (_pn, _cn)] = (_mk(_pf, _cf), _pn not in _FLAT, False)
for _pn, _pf in sorted(STMT_PRODUCTIONS.items()):
    for _cn, _cf in sorted(STMT_CONTEXTS.items()):
        DEPTH_GENERATORS["stmt:%s@%s" % (_pn, _cn)] = (_mk(_pf, _cf), _pn not in _FLAT, False)


def import_chain(n):
    """i.nano -> m1.nano -> ... -> mn.nano (each module imports the next one)"""
    files = {"i.nano": b'import "m1.nano"\nfn main() -> int { return 0 }\nshadow main { assert true }\n'}
    for k in range(1, n + 1):
        nxt = (b'import "m%d.nano"\n' % (k + 1)) if k < n else b""
        files["m%d.nano" % k] = nxt + b"fn f%d() -> int { return %d }\nshadow f%d { assert true }\n" % (k, k, k)
    return files
