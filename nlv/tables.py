"""Boundary-value tables for the builtin functions of the generator's zone (shared by C01, C02, C03).

The operator tables of C02 enumerate operators x boundary operands; these tables do the same for builtins: every int -> string
conversion over the decimal-length boundaries of int64 (10^k, 10^k - 1, both signs, INT64_MIN/MAX), abs/min/max over the
operator table's values, the character-class builtins over every code 0..127, str_substring over every (start, length) of
short strings, str_contains/str_equals over a small matrix.  Expectations come from nlv.gen.ref.Interp.builtin (the
transcription of docs/STDLIB.md); a cell whose model raises a Fault (outside the defined domain) is left out.

Each program is a list of cells `label value`; arguments reach the builtin through a function parameter so that nothing is
folded at compile time.  Added after a seeded change (native int_to_string buffer one byte short: only values <= -10^18 lose a
digit) went unnoticed by the sweeps."""
from .gen.ref import Interp, Fault, fmt

I64_MAX = (1 << 63) - 1
I64_MIN = -(1 << 63)


def lit(v):
    if isinstance(v, bool):
        return "true" if v else "false"
    if isinstance(v, int):
        if v == I64_MIN:
            return "(- -9223372036854775807 1)"
        return str(v)
    if isinstance(v, str):
        return '"' + v + '"'
    raise ValueError(v)


def _decimal_boundaries():
    vs = {0, 1, -1, 7, -7, I64_MAX, I64_MIN, -I64_MAX, I64_MAX - 1, I64_MIN + 1, 1 << 31, -(1 << 31), (1 << 31) - 1, 1 << 32, 1 << 53, 1 << 62, -(1 << 62)}
    for k in range(1, 19):
        p = 10 ** k
        for v in (p, p - 1, p + 1, -p, -p + 1, -p - 1):
            vs.add(v)
    return sorted(vs)


INT_VALUES = [0, 1, -1, 2, -2, 7, -7, 1 << 31, 1 << 32, 1 << 62, I64_MAX, -I64_MAX, I64_MIN, 100]
TY = {int: "int", bool: "bool", str: "string"}


class _Table:
    def __init__(self, name):
        self.name = name
        self.fns = []
        self.lines = []
        self.exp = []
        self.labels = []
        self.model = Interp.__new__(Interp)
        self.model.builtins_used = set()
        self.model.overflowed = False
        self.model.max_str = 1 << 20

    def fn(self, fname, params, ret, body):
        self.fns.append("fn %s(%s) -> %s {\n    return %s\n}\nshadow %s { assert true }\n" % (
            fname, ", ".join("%s: %s" % p for p in params), ret, body, fname))

    def cell(self, label, fname, args, builtin, bargs=None, post=None):
        try:
            self.model.overflowed = False
            r = self.model.builtin(builtin, list(bargs if bargs is not None else args))
            if self.model.overflowed:
                return
            if post:
                r = post(r)
        except Fault:
            return
        tag = "%s %d " % (label, len(self.labels))
        self.labels.append((label, args))
        self.lines.append('    (print "%s")' % tag)
        self.lines.append("    (println (%s %s))" % (fname, " ".join(lit(a) for a in args)))
        self.exp.append(tag + fmt(r))

    def text(self, shadow_driven=False):
        chunks = [self.lines[k:k + 200] for k in range(0, len(self.lines), 200)]
        t = "".join(self.fns)
        for ci, ch in enumerate(chunks):
            t += "fn t%d() -> int {\n%s\n    return 0\n}\nshadow t%d { assert true }\n" % (ci, "\n".join(ch), ci)
        calls = "".join("    (t%d)\n" % ci for ci in range(len(chunks)))
        if shadow_driven:
            t += ("fn drv() -> int {\n" + calls + "    return 0\n}\n"
                  'shadow drv {\n    (println "<<S")\n    (drv)\n    (println ">>E")\n}\n'
                  'fn main() -> int {\n    (println "<<S")\n    (drv)\n    (println ">>E")\n    return 0\n}\nshadow main { assert true }\n')
            return t, "\n".join(self.exp) + "\n"
        t += "fn main() -> int {\n" + calls + '    (println "SENTINEL")\n    return 0\n}\nshadow main { assert true }\n'
        return t, "\n".join(self.exp) + "\nSENTINEL\n"


def builtin_tables(shadow_driven=False):
    """[(name, text, expected stdout, n_cells, labels)]"""
    out = []

    t = _Table("bt_int_string")
    t.fn("its", [("a", "int")], "string", "(int_to_string a)")
    t.fn("itl", [("a", "int")], "int", "(str_length (int_to_string a))")
    t.fn("rt", [("a", "int")], "int", "(string_to_int (int_to_string a))")
    t.fn("cat", [("a", "int")], "string", '(+ (+ "<" (int_to_string a)) ">")')
    t.fn("pr", [("a", "int")], "int", "a")
    for v in _decimal_boundaries():
        t.cell("int_to_string", "its", [v], "int_to_string")
        t.cell("int_to_string.len", "itl", [v], "int_to_string", post=lambda r: len(r))
        if abs(v) < 10 ** 18:
            t.cell("string_to_int.roundtrip", "rt", [v], "int_to_string", post=lambda r: int(r))
        t.cell("int_to_string.concat", "cat", [v], "int_to_string", post=lambda r: "<" + r + ">")
        t.cell("println.int", "pr", [v], "int_to_string", post=lambda r: int(r))
    out.append(t)

    t = _Table("bt_abs_min_max")
    t.fn("ab", [("a", "int")], "int", "(abs a)")
    t.fn("mn", [("a", "int"), ("b", "int")], "int", "(min a b)")
    t.fn("mx", [("a", "int"), ("b", "int")], "int", "(max a b)")
    for a in INT_VALUES:
        t.cell("abs", "ab", [a], "abs")
        for b in INT_VALUES:
            t.cell("min", "mn", [a, b], "min")
            t.cell("max", "mx", [a, b], "max")
    out.append(t)

    t = _Table("bt_charclass")
    for b in ("is_digit", "is_alpha", "is_alnum", "is_whitespace", "is_upper", "is_lower"):
        t.fn("f_" + b, [("c", "int")], "bool", "(%s c)" % b)
    for b in ("char_to_lower", "char_to_upper", "digit_value"):
        t.fn("f_" + b, [("c", "int")], "int", "(%s c)" % b)
    t.fn("sfc", [("c", "int")], "int", "(char_at (string_from_char c) 0)")
    t.fn("sfl", [("c", "int")], "int", "(str_length (string_from_char c))")
    for c in range(0, 128):
        for b in ("is_digit", "is_alpha", "is_alnum", "is_whitespace", "is_upper", "is_lower", "char_to_lower", "char_to_upper", "digit_value"):
            t.cell(b, "f_" + b, [c], b)
        t.cell("string_from_char.char_at", "sfc", [c], "string_from_char", post=lambda r: ord(r))
        t.cell("string_from_char.len", "sfl", [c], "string_from_char", post=lambda r: len(r))
    out.append(t)

    t = _Table("bt_strings")
    t.fn("sub", [("s", "string"), ("a", "int"), ("n", "int")], "string", '(+ (+ "[" (str_substring s a n)) "]")')
    t.fn("sl", [("s", "string")], "int", "(str_length s)")
    t.fn("ca", [("s", "string"), ("i", "int")], "int", "(char_at s i)")
    t.fn("sc", [("s", "string"), ("u", "string")], "bool", "(str_contains s u)")
    t.fn("se", [("s", "string"), ("u", "string")], "bool", "(str_equals s u)")
    t.fn("eq", [("s", "string"), ("u", "string")], "bool", "(== s u)")
    t.fn("cc", [("s", "string"), ("u", "string")], "string", '(+ (+ "[" (str_concat s u)) "]")')
    t.fn("ccl", [("s", "string"), ("u", "string")], "int", "(str_length (str_concat s u))")
    strs = ["", "a", "ab", "abc", "hello", "a b", "aaa", "abcabc", "x" * 31, "y" * 32, "z" * 33, "w" * 255, "v" * 256]
    for s in strs:
        t.cell("str_length", "sl", [s], "str_length")
        if len(s) <= 6:
            for a in range(0, len(s) + 1):
                for n in range(0, len(s) + 3):
                    t.cell("str_substring", "sub", [s, a, n], "str_substring", post=lambda r: "[" + r + "]")
            for i in range(0, len(s)):
                t.cell("char_at", "ca", [s, i], "char_at")
    small = ["", "a", "ab", "abc", "b", "bc", "abcabc", "aaa", "aa", "hello", "ell", "lo", "hellp"]
    for s in small:
        for u in small:
            t.cell("str_contains", "sc", [s, u], "str_contains")
            t.cell("str_equals", "se", [s, u], "str_equals")
            t.cell("string==", "eq", [s, u], "str_equals")
    for s in strs:
        for u in ("", "q", "x" * 31, "k" * 224):
            t.cell("str_concat", "cc", [s, u], "str_concat", post=lambda r: "[" + r + "]")
            t.cell("str_concat.len", "ccl", [s, u], "str_concat", post=lambda r: len(r))
    out.append(t)

    # strings with bytes >= 0x80 (UTF-8 text): char_at yields the byte value 0..255 (docs/STDLIB.md: "ASCII value", and every
    # engine's own helper returns an unsigned char), str_length counts bytes.  Added after a seeded change that made the
    # compiled char_at sign-extend such bytes.
    t = _Table("bt_highbytes")
    t.fn("hca", [("s", "string"), ("i", "int")], "int", "(char_at s i)")
    t.fn("hsl", [("s", "string")], "int", "(str_length s)")
    t.fn("hge", [("s", "string"), ("i", "int")], "bool", "(>= (char_at s i) 128)")
    t.fn("heq", [("s", "string"), ("u", "string")], "bool", "(== s u)")
    t.fn("hcl", [("s", "string"), ("u", "string")], "int", "(str_length (+ s u))")
    hs = ["\u00e9", "a\u00e9b", "\u20ac", "x\u00ff", "\u00f1\u00f1", "\U0001F600", "\u0080", "A\u07ffZ"]
    for h in hs:
        hb = h.encode("utf-8")
        t.cell("str_length.bytes", "hsl", [h], "str_length")
        for i in range(len(hb)):
            t.cell("char_at.highbyte", "hca", [h, i], "char_at", bargs=[hb.decode("latin-1"), i])
            t.cell("char_at.highbyte.cmp", "hge", [h, i], "char_at", bargs=[hb.decode("latin-1"), i], post=lambda r: r >= 128)
        for u in hs[:4]:
            t.cell("string==.highbyte", "heq", [h, u], "str_equals")
            t.cell("str_concat.len.highbyte", "hcl", [h, u], "str_concat", bargs=[hb.decode("latin-1"), u.encode("utf-8").decode("latin-1")], post=lambda r: len(r))
    out.append(t)

    res = []
    for t in out:
        text, exp = t.text(shadow_driven)
        res.append((t.name, text, exp, len(t.labels), t.labels))
    return res


def judge_lines(want, got):
    """[(cell index, label, want line, got line)] for differing cells; None if `got` is incomplete"""
    wl = [l for l in want.splitlines() if l != "SENTINEL"]
    gl = [l for l in got.splitlines() if l != "SENTINEL"]
    if len(gl) < len(wl):
        return None
    bad = []
    for k, (w, g) in enumerate(zip(wl, gl)):
        if w != g:
            bad.append((k, w.split()[0], w, g))
    return bad


HASHMAP_SIZES = [0, 1, 2, 7, 8, 9, 11, 12, 13, 14, 15, 16, 17, 24, 25, 31, 32, 33, 48, 49, 63, 64, 65, 100, 200, 500]


def hashmap_tables(shadow_driven=False):
    """[(name, text, expected, n_cells, labels)]: HashMap<string,int> and HashMap<int,int> filled to every size around the
    growth boundaries of a doubling table (the VM's map grows at 12/16 * 2^k, the generated native map at its own load
    factor), then read back completely, probed for absent keys, half removed, read again, refilled.  Expectation: a
    Python dict.  Added after a seeded change (rehash into the old bucket count during a resize) that only shows once a
    map has grown past 12 entries."""
    fns = (
        'fn ksi(i: int) -> string {\n    return (+ "item" (int_to_string i))\n}\nshadow ksi { assert true }\n'
        'fn kii(i: int) -> int {\n    return (- (* i 37) 1000)\n}\nshadow kii { assert true }\n'
        'fn run_si(n: int) -> int {\n'
        '    let m: HashMap<string, int> = (map_new)\n    let mut i: int = 0\n'
        '    while (< i n) {\n        (map_put m (ksi i) (* i 3))\n        set i (+ i 1)\n    }\n'
        '    (println (map_length m))\n'
        '    let mut total: int = 0\n    let mut present: int = 0\n    set i 0\n'
        '    while (< i (+ n 4)) {\n        if (map_has m (ksi i)) {\n            set present (+ present 1)\n            set total (+ total (map_get m (ksi i)))\n        }\n        set i (+ i 1)\n    }\n'
        '    (println present)\n    (println total)\n'
        '    set i 0\n    while (< i n) {\n        (map_remove m (ksi i))\n        set i (+ i 2)\n    }\n'
        '    (println (map_length m))\n'
        '    set total 0\n    set present 0\n    set i 0\n'
        '    while (< i n) {\n        if (map_has m (ksi i)) {\n            set present (+ present 1)\n            set total (+ total (map_get m (ksi i)))\n        }\n        set i (+ i 1)\n    }\n'
        '    (println present)\n    (println total)\n'
        '    set i 0\n    while (< i n) {\n        (map_put m (ksi i) (+ i 1000))\n        set i (+ i 3)\n    }\n'
        '    (println (map_length m))\n'
        '    set total 0\n    set i 0\n'
        '    while (< i n) {\n        if (map_has m (ksi i)) {\n            set total (+ total (map_get m (ksi i)))\n        }\n        set i (+ i 1)\n    }\n'
        '    (println total)\n    return 0\n}\nshadow run_si { assert true }\n')
    fns += fns[fns.index('fn run_si'):].replace("run_si", "run_ii").replace("HashMap<string, int>", "HashMap<int, int>").replace("(ksi i)", "(kii i)")

    def model(n, key):
        out = []
        m = {}
        for i in range(n):
            m[key(i)] = i * 3
        out.append(len(m))
        pres = [i for i in range(n + 4) if key(i) in m]
        out.append(len(pres))
        out.append(sum(m[key(i)] for i in pres))
        for i in range(0, n, 2):
            m.pop(key(i), None)
        out.append(len(m))
        pres = [i for i in range(n) if key(i) in m]
        out.append(len(pres))
        out.append(sum(m[key(i)] for i in pres))
        for i in range(0, n, 3):
            m[key(i)] = i + 1000
        out.append(len(m))
        out.append(sum(m[key(i)] for i in range(n) if key(i) in m))
        return out

    res = []
    for name, fn, key in (("hm_string_int", "run_si", lambda i: "item%d" % i), ("hm_int_int", "run_ii", lambda i: i * 37 - 1000)):
        lines, exp, labels = [], [], []
        for n in HASHMAP_SIZES:
            lines.append('    (println "n=%d")' % n)
            lines.append("    (%s %d)" % (fn, n))
            exp.append("n=%d" % n)
            for k, v in enumerate(model(n, key)):
                exp.append(str(v))
            labels.append(n)
        body = "\n".join(lines)
        if shadow_driven:
            text = (fns + "fn drv() -> int {\n" + body + "\n    return 0\n}\n"
                    'shadow drv {\n    (println "<<S")\n    (drv)\n    (println ">>E")\n}\n'
                    'fn main() -> int {\n    (println "<<S")\n    (drv)\n    (println ">>E")\n    return 0\n}\nshadow main { assert true }\n')
            res.append((name, text, "\n".join(exp) + "\n", len(exp), labels))
        else:
            text = fns + "fn main() -> int {\n" + body + '\n    (println "SENTINEL")\n    return 0\n}\nshadow main { assert true }\n'
            res.append((name, text, "\n".join(exp) + "\nSENTINEL\n", len(exp), labels))
    return res


def hashmap_first_bad(want, got):
    """(size label, line index, want, got) of the first differing line, or None"""
    wl, gl = want.splitlines(), got.splitlines()
    cur = "?"
    for k, w in enumerate(wl):
        if w.startswith("n="):
            cur = w
        g = gl[k] if k < len(gl) else "<missing>"
        if w != g:
            return cur, k, w, g
    return None
