"""Corpus of compiler-produced .nvm modules and seed sources (shared by C09-C13, C17, C18)."""
import glob
import os

from . import build
from .run import run, pmap


def repo_sources(limit=None):
    """Source files shipped with the repository (tests + language examples), deterministic order."""
    pats = ["tests/*.nano", "examples/language/*.nano", "tests/differential/*.nano",
            "tests/selfhost/*.nano", "tests/regression/*.nano"]
    out = []
    for p in pats:
        out.extend(sorted(glob.glob(os.path.join(build.REPO, p))))
    out = [p for p in out if os.path.getsize(p) < 200000]
    return out[:limit] if limit else out


def compile_nvm(flavor, src, out, cpu=20, san=False, cwd=None):
    r = run([flavor.nano_virt, src, "--emit-nvm", "-o", out], cpu=cpu, san=san, cwd=cwd)
    ok = (r.rc == 0 and os.path.exists(out) and os.path.getsize(out) >= 32)
    return ok, r


def nvm_corpus(flavor, outdir, sources, san=False):
    """Compile sources to .nvm with nano_virt; returns [(src, nvm_path)] for those that compile."""
    os.makedirs(outdir, exist_ok=True)

    def one(i_src):
        i, src = i_src
        out = os.path.join(outdir, "m%04d.nvm" % i)
        ok, _ = compile_nvm(flavor, src, out, san=san)
        return (src, out) if ok else None

    res = pmap(one, list(enumerate(sources)))
    return [r for r in res if r]
