"""Feature census (DESIGN §3.3): one tiny program per language feature.  A census cell is (feature, engine);
cells are the unit in which disagreements of C01/C02/C03 are listed in known_findings.json.
Each entry: (declarations, body statements, expected output of the body).  The expected text was written from
docs/SPECIFICATION.md / docs/STDLIB.md by hand (not copied from an engine)."""

F = {}


AFTER = {}          # declarations printed AFTER main (forward references)


def add(name, decls, body, expected, after=None):
    F[name] = (decls, body, expected)
    if after:
        AFTER[name] = after


add('int_arith', '', '(println (+ (* 3 4) (- 10 (/ 9 2))))\n(println (% 17 5))\n(println (% -17 5))\n(println (/ -17 5))', '18\n2\n-2\n-3\n')
add('compare', '', '(println (< 1 2))\n(println (>= 2 2))\n(println (!= 3 3))', 'true\ntrue\nfalse\n')
add('logic_pure', '', '(println (and true false))\n(println (or false true))\n(println (not true))', 'false\ntrue\nfalse\n')
add('logic_effect', 'fn e(x: int) -> bool {\n (println x)\n return true\n}\nshadow e { assert true }', '(println (and false (e 1)))\n(println (or true (e 2)))\n(println (and true (e 3)))', 'false\ntrue\n3\ntrue\n')
add('str_ops', '', 'let s: string = (+ "ab" "cd")\n(println s)\n(println (str_length s))\n(println (str_concat s "!"))\n(println (str_substring s 1 2))\n(println (str_substring s 3 10))\n(println (char_at s 0))\n(println (str_contains s "bc"))\n(println (str_equals s "abcd"))\n(println (== s "abcd"))\n(println (!= s "abcd"))\n(println (int_to_string -42))\n(println (string_to_int "123"))\n(println (string_from_char 65))', 'abcd\n4\nabcd!\nbc\nd\n97\ntrue\ntrue\ntrue\nfalse\n-42\n123\nA\n')
add('char_class', '', '(println (is_digit 53))\n(println (is_alpha 53))\n(println (is_alnum 95))\n(println (is_whitespace 32))\n(println (is_upper 65))\n(println (is_lower 65))\n(println (is_alpha 97))\n(println (is_lower 97))\n(println (is_alnum 65))', 'true\nfalse\nfalse\ntrue\ntrue\nfalse\ntrue\ntrue\ntrue\n')
add('char_convert', '', '(println (digit_value 55))\n(println (char_to_lower 65))\n(println (char_to_upper 97))', '7\n97\n65\n')
add('math_builtins', '', '(println (abs -4))\n(println (min 3 9))\n(println (max 3 9))\n(println (min -3 -9))\n(println (max 100 1))\n(println (min 1 100))', '4\n3\n9\n-9\n100\n1\n')
add('float_cmp', '', 'let x: float = 1.5\nlet y: float = (* x 2.0)\n(println (== y 3.0))\n(println (< x y))\n(println (> (sqrt 16.0) 3.9))', 'true\ntrue\ntrue\n')
add('array_int', '', 'let mut a: array<int> = [5, 6, 7]\n(println (at a 1))\n(println (array_length a))\nset a (array_push a 8)\n(println (array_length a))\n(array_set a 0 100)\n(println (at a 0))\nlet z: array<int> = (array_new 3 9)\n(println (at z 2))', '6\n3\n4\n100\n9\n')
add('array_str', '', 'let mut a: array<string> = ["x", "yy"]\n(println (at a 1))\nset a (array_push a "zzz")\n(println (array_length a))\n(println (at a 2))', 'yy\n3\nzzz\n')
add('array_bool', '', 'let a: array<bool> = [true, false]\n(println (at a 1))', 'false\n')
add('array_pop', '', 'let mut a: array<int> = [1, 2, 3]\nlet v: int = (array_pop a)\n(println v)\n(println (array_length a))', '3\n2\n')
add('array_remove', '', 'let mut a: array<int> = [1, 2, 3]\n(array_remove_at a 0)\n(println (at a 0))\n(println (array_length a))', '2\n2\n')
add('array_nested', '', 'let a: array<array<int>> = [[1, 2], [3]]\n(println (at (at a 0) 1))\n(println (array_length (at a 1)))', '2\n1\n')
add('array_empty', '', 'let mut a: array<int> = []\n(println (array_length a))\nset a (array_push a 4)\n(println (at a 0))', '0\n4\n')
add('struct_basic', 'struct P { x: int, y: int }', 'let p: P = P { x: 3, y: 4 }\n(println p.x)\n(println (+ p.x p.y))', '3\n7\n')
add('struct_nested', 'struct P { x: int, y: int }\nstruct Q { p: P, name: string }', 'let q: Q = Q { p: P { x: 1, y: 2 }, name: "n" }\n(println q.p.y)\n(println q.name)', '2\nn\n')
add('struct_param_ret', 'struct P { x: int, y: int }\nfn mk(a: int) -> P {\n return P { x: a, y: (* a 2) }\n}\nshadow mk { assert true }\nfn sum(p: P) -> int {\n return (+ p.x p.y)\n}\nshadow sum { assert true }', '(println (sum (mk 5)))\nlet r: P = (mk 2)\n(println r.y)', '15\n4\n')
add('struct_array', 'struct P { x: int, y: int }', 'let a: array<P> = [P { x: 1, y: 2 }, P { x: 3, y: 4 }]\nlet e: P = (at a 1)\n(println e.x)', '3\n')
add('enum_cmp', 'enum C { R = 0, G = 1, B = 2 }', 'let c: C = C.G\n(println (== c C.G))\n(println (== c C.B))', 'true\nfalse\n')
add('enum_print', 'enum C { R = 0, G = 1, B = 2 }', 'let c: C = C.B\n(println c)', '2\n')
add('enum_as_int', 'enum C { R = 0, G = 5, B = 7 }', 'let c: int = C.G\n(println (+ c 1))', '6\n')
add('union_match_stmt', 'union S {\n Ci { r: int },\n Re { w: int, h: int }\n}\nfn area(s: S) -> int {\n let mut r: int = 0\n match s {\n  Ci(c) => { set r (* c.r c.r) },\n  Re(q) => { set r (* q.w q.h) }\n }\n return r\n}\nshadow area { assert true }', '(println (area S.Ci { r: 3 }))\n(println (area S.Re { w: 2, h: 5 }))', '9\n10\n')
add('union_match_return', 'union S {\n Ci { r: int },\n Re { w: int, h: int }\n}\nfn area(s: S) -> int {\n match s {\n  Ci(c) => { return (* c.r c.r) },\n  Re(q) => { return (* q.w q.h) }\n }\n return 0\n}\nshadow area { assert true }', '(println (area S.Ci { r: 3 }))\n(println (area S.Re { w: 2, h: 5 }))', '9\n10\n')
add('union_match_expr', 'union S {\n Ci { r: int },\n Re { w: int, h: int }\n}\nfn area(s: S) -> int {\n return match s {\n  Ci(c) => (* c.r c.r),\n  Re(q) => (* q.w q.h)\n }\n}\nshadow area { assert true }', '(println (area S.Ci { r: 3 }))\n(println (area S.Re { w: 2, h: 5 }))', '9\n10\n')
add('union_match_expr_string', 'union S {\n Ci { r: int },\n Re { w: string }\n}\nfn nm(s: S) -> string {\n return match s {\n  Ci(c) => "ci",\n  Re(q) => q.w\n }\n}\nshadow nm { assert true }', '(println (nm S.Ci { r: 3 }))\n(println (nm S.Re { w: "re" }))', 'ci\nre\n')
add('union_match_expr_nested', 'union S {\n Ci { r: int },\n Re { w: int }\n}\nfn nm(s: S) -> string {\n let k: int = (+ 1 match s {\n  Ci(c) => c.r,\n  Re(q) => q.w\n })\n return (int_to_string k)\n}\nshadow nm { assert true }', '(println (nm S.Ci { r: 3 }))\n(println (nm S.Re { w: 8 }))', '4\n9\n')
add('match_break_in_loop', 'union S {\n Ci { r: int },\n Re { w: int }\n}\nfn lp(s: S) -> int {\n let mut n: int = 0\n while (< n 5) {\n  set n (+ n 1)\n  match s {\n   Ci(c) => { break },\n   Re(q) => { set n (+ n q.w) }\n  }\n }\n return n\n}\nshadow lp { assert true }', '(println (lp S.Ci { r: 3 }))\n(println (lp S.Re { w: 1 }))', '1\n6\n')
add('union_str_payload', 'union R {\n Ok { v: int },\n Er { m: string }\n}\nfn show(r: R) -> string {\n let mut o: string = ""\n match r {\n  Ok(k) => { set o (int_to_string k.v) },\n  Er(e) => { set o e.m }\n }\n return o\n}\nshadow show { assert true }', '(println (show R.Ok { v: 4 }))\n(println (show R.Er { m: "bad" }))', '4\nbad\n')
add('tuple', 'fn pr(a: int, b: bool) -> (int, bool) {\n return (a, b)\n}\nshadow pr { assert true }', 'let t: (int, bool) = (pr 9 true)\n(println t.0)\n(println t.1)\nlet u: (int, int, bool) = (1, 2, true)\n(println u.2)', '9\ntrue\ntrue\n')
add('tuple_string', 'fn pr(a: int, b: string) -> (int, string) {\n return (a, b)\n}\nshadow pr { assert true }', 'let t: (int, string) = (pr 9 "s")\n(println t.0)\n(println t.1)', '9\ns\n')
add('tuple_param', 'fn fst(t: (int, int, bool)) -> int {\n return t.0\n}\nshadow fst { assert true }', '(println (fst (4, 5, true)))', '4\n')
add('global_const', 'let gg: int = 7\nlet gs: string = "gs"', '(println gg)\n(println gs)', '7\ngs\n')
add('global_mut', 'let mut hh: int = 1\nfn bump() -> int {\n set hh (+ hh 1)\n return hh\n}\nshadow bump { assert true }', '(println (bump))\n(println (bump))\n(println hh)', '2\n3\n3\n')
add('global_fn_init', 'fn three() -> int { return 3 }\nshadow three { assert true }\nlet g3: int = (three)', '(println g3)', '3\n')
add('recursion', 'fn fact(n: int) -> int {\n if (<= n 1) { return 1 } else { return (* n (fact (- n 1))) }\n}\nshadow fact { assert true }\nfn ev(n: int) -> bool {\n if (== n 0) { return true } else { return (od (- n 1)) }\n}\nfn od(n: int) -> bool {\n if (== n 0) { return false } else { return (ev (- n 1)) }\n}\nshadow ev { assert true }\nshadow od { assert true }', '(println (fact 10))\n(println (ev 10))', '3628800\ntrue\n')
add('first_class_fn', 'fn dbl(x: int) -> int { return (* x 2) }\nshadow dbl { assert true }\nfn tri(x: int) -> int { return (* x 3) }\nshadow tri { assert true }\nfn ap(f: fn(int) -> int, v: int) -> int { return (f v) }\nshadow ap { assert true }\nfn pick(c: int) -> fn(int) -> int {\n if (== c 0) { return dbl } else { return tri }\n}\nshadow pick { assert true }', '(println (ap dbl 4))\nlet g: fn(int) -> int = (pick 1)\n(println (g 5))\n(println (ap (pick 0) 7))', '8\n15\n14\n')
add('print_indirect_call', 'fn dbl(x: int) -> int { return (* x 2) }\nshadow dbl { assert true }\nfn ap(f: fn(int) -> int, v: int) -> int {\n (println (f v))\n return 0\n}\nshadow ap { assert true }', '(println (ap dbl 4))', '8\n0\n')
add('fnvalue_let_nested', 'fn dbl(x: int) -> int { return (* x 2) }\nshadow dbl { assert true }', 'if true {\n let g: fn(int) -> int = dbl\n (println (g 4))\n}', '8\n')
add('while_break_continue', '', 'let mut k: int = 0\nwhile true {\n set k (+ k 1)\n if (> k 6) { break }\n if (== (% k 2) 0) { continue }\n (println k)\n}', '1\n3\n5\n')
add('for_range', '', 'let mut s: int = 0\nfor i in (range 0 5) {\n set s (+ s i)\n}\n(println s)\nfor j in (range 2 4) { (println j) }', '10\n2\n3\n')
add('for_break', '', 'for i in (range 0 10) {\n if (== i 3) { break }\n (println i)\n}', '0\n1\n2\n')
add('for_continue', '', 'for i in (range 0 5) {\n if (== i 2) { continue }\n (println i)\n}', '0\n1\n3\n4\n')
add('nested_loops', '', 'let mut i: int = 0\nwhile (< i 3) {\n let mut j: int = 0\n while (< j 2) {\n  (println (+ (* i 10) j))\n  set j (+ j 1)\n }\n set i (+ i 1)\n}', '0\n1\n10\n11\n20\n21\n')
add('block_shadow', '', 'let x: int = 1\nif (== x 1) {\n let x: int = 2\n (println x)\n}\n(println x)', '2\n1\n')
add('block_shadow_while', '', 'let x: int = 1\nlet mut i: int = 0\nwhile (< i 2) {\n let x: int = (+ i 10)\n (println x)\n set i (+ i 1)\n}\n(println x)', '10\n11\n1\n')
add('if_else_chain', 'fn cls(x: int) -> string {\n if (> x 10) {\n  return "big"\n } else if (> x 5) {\n  return "mid"\n } else {\n  return "small"\n }\n}\nshadow cls { assert true }', '(println (cls 11))\n(println (cls 6))\n(println (cls 1))', 'big\nmid\nsmall\n')
add('cond', '', 'let g: int = 7\n(println (cond ((< g 3) 10) ((< g 10) 20) (else 30)))', '20\n')
add('early_return_nested', 'fn f(a: array<int>) -> int {\n let mut i: int = 0\n while (< i (array_length a)) {\n  if (> (at a i) 5) {\n   let s: string = (+ "f" "g")\n   if (== (str_length s) 2) { return (at a i) }\n  }\n  set i (+ i 1)\n }\n return -1\n}\nshadow f { assert true }', '(println (f [1, 9, 3]))\n(println (f [1, 2]))', '9\n-1\n')
add('string_loop', '', 'let mut s: string = ""\nlet mut i: int = 0\nwhile (< i 5) {\n set s (+ s (int_to_string i))\n set i (+ i 1)\n}\n(println s)', '01234\n')
add('print_noline', '', '(print 1)\n(print " ")\n(print true)\n(println "")', '1 true\n')
add('infix', '', 'let a: int = 3\nlet b: int = 4\n(println (a + b * 2))\n(println ((a < b) and (b < 10)))', '14\ntrue\n')
add('unary_minus', '', 'let a: int = 3\n(println (- a))\n(println (- 0 a))', '-3\n-3\n')
add('neg_negative_literal', '', 'let a: int = (- -3)\n(println a)', '3\n')
add('cmp_of_cmp', '', '(println (== (< 1 2) (< 3 4)))\n(println (== (< 2 1) (< 3 4)))', 'true\nfalse\n')
add('cmp_same_operand', '', 'let a: int = 3\n(println (< a a))\n(println (== a a))', 'false\ntrue\n')
add('strlen_in_cmp', '', 'let s: string = "abc"\n(println (< (str_length s) 5))', 'true\n')
add('str_cmp_lt', '', '(println (< "a" "b"))', 'true\n')
add('evalorder_call_args', 'fn tr(x: int) -> int {\n (println x)\n return x\n}\nshadow tr { assert true }\nfn add3(a: int, b: int, c: int) -> int {\n return (+ a (+ b c))\n}\nshadow add3 { assert true }', '(println (add3 (tr 1) (tr 2) (tr 3)))', '1\n2\n3\n6\n')
add('evalorder_binop', 'fn tr(x: int) -> int {\n (println x)\n return x\n}\nshadow tr { assert true }', '(println (+ (tr 3) (tr 5)))\n(println (- (* (tr 2) (tr 4)) (tr 1)))', '3\n5\n8\n2\n4\n1\n7\n')
add('evalorder_array_literal', 'fn tr(x: int) -> int {\n (println x)\n return x\n}\nshadow tr { assert true }', 'let a: array<int> = [(tr 7), (tr 8)]\n(println (at a 0))', '7\n8\n7\n')
add('evalorder_string_concat', 'fn ts(x: string) -> string {\n (println x)\n return x\n}\nshadow ts { assert true }', '(println (+ (ts "a") (ts "b")))', 'a\nb\nab\n')
add('abs_effect_arg', 'fn tr(x: int) -> int {\n (println x)\n return x\n}\nshadow tr { assert true }', '(println (abs (tr -4)))\n(println (max (tr 2) (tr 9)))', '-4\n4\n2\n9\n9\n')
add('self_assign', '', 'let mut s: string = (+ "a" "b")\nset s s\n(println s)', 'ab\n')
add('fnvalue_copy', 'fn dbl(x: int) -> int { return (* x 2) }\nshadow dbl { assert true }\nfn ap(f: fn(int) -> int, v: int) -> int {\n let g: fn(int) -> int = f\n return (g v)\n}\nshadow ap { assert (== (ap dbl 2) 4) }', '(println (ap dbl 4))', '8\n')
add('neg_const_global', 'let gm: int = -1', '(println (- gm))', '1\n')
add('assert_stmt', '', 'assert (== 1 1)\n(println "ok")', 'ok\n')
add('int_overflow_wrap', 'fn addw(a: int, b: int) -> int { return (+ a b) }\nshadow addw { assert true }', '(println (addw 9223372036854775807 1))', '-9223372036854775808\n')
add('void_bare_return', 'fn vf(p: int) -> void {\n if (> p 1) {\n  (println "big")\n } else {\n  return\n }\n}\nshadow vf { assert true }', '(vf 5)\n(println "after1")\n(vf 0)\n(println "after2")', 'big\nafter1\nafter2\n')
add('self_assign_cond', '', 'let mut s: string = (+ "a" "b")\nset s (cond (true s) (else "x"))\nlet k: string = (int_to_string 12345)\n(println s)', 'ab\n')
add('aggregate_string_alias', 'union UA {\n VA { a0: string },\n VB { a0: int }\n}', 'let mut v: string = ""\nlet mut c: int = 0\nwhile (< c 2) {\n set v (+ v (int_to_string c))\n set c (+ c 1)\n}\nlet u: UA = UA.VA { a0: v }\nset v "hello"\nlet mut w: string = "a"\nmatch u {\n VA(m) => { (println m.a0) },\n VB(m2) => { (println "b") }\n}\n(println v)', '01\nhello\n')
add('string_field_direct', 'struct PS { a: int, n: string }\nfn sf(p: PS) -> string {\n let mut v: string = ""\n let mut c: int = 0\n while (< c 3) {\n  set c (+ c 1)\n  set v p.n\n  let mut k: int = (+ (string_to_int (int_to_string c)) 617)\n }\n return v\n}\nshadow sf { assert true }', '(println (sf PS { a: 1, n: "nano" }))', 'nano\n')
add('import_call_in_shadow', 'from "census_m1.nano" import imp_seven\nfn via() -> int {\n return (imp_seven)\n}\nshadow via { assert (== (via) 7) }', '(println (via))', 'in-imp\n7\n')
add('local_shadows_global_set', 'let nn: int = 10\nlet mut mm: int = 20\nfn lsg() -> int {\n let mut nn: int = 1\n set nn (+ nn 5)\n let mut mm: int = 2\n set mm (+ mm 7)\n return (+ nn mm)\n}\nshadow lsg { assert true }', '(println (lsg))\n(println nn)\n(println mm)', '15\n10\n20\n')
add('for_var_shadows_global_const', 'let kk: int = 7', 'for kk in (range 0 3) {\n (println kk)\n}\n(println kk)', '0\n1\n2\n7\n')
add('array_slice', '', 'let a: array<int> = [10, 20, 30, 40, 50]\nlet sl: array<int> = (array_slice a 1 3)\n(println (array_length sl))\n(println (at sl 0))\n(println (at sl 2))', '3\n20\n40\n')
add('float_literal_precision', '', 'let x: float = 1.00000001\nlet y: float = 1.00000002\n(println (< x y))\n(println (== x y))', 'true\nfalse\n')
add('for_range_end_once', 'fn tre(x: int) -> int {\n (println "end")\n return x\n}\nshadow tre { assert true }', 'for i in (range 0 (tre 3)) {\n (println i)\n}', 'end\n0\n1\n2\n')
add('block_shadow_selfref', '', 'let x: int = 5\nif (> x 1) {\n let x: int = (+ x 1)\n (println x)\n}\n(println x)', '6\n5\n')
add('block_shadow_mut_mismatch', '', 'let mut x: int = 1\nif (> x 0) {\n let x: int = 2\n (println x)\n}\nset x 3\n(println x)', '2\n3\n')
add('float_global_whole', 'let fa: float = 5.0\nlet fb: float = 2.0', '(println (> (/ fa fb) 2.25))\n(println (== (/ fa fb) 2.5))', 'true\ntrue\n')
add('field_of_call_result', 'struct PA { x: int, y: int }\nstruct QA { y: int, x: int }\nfn mkq(v: int) -> QA {\n return QA { y: (* v 10), x: v }\n}\nshadow mkq { assert true }', '(println (mkq 5).x)\n(println (mkq 5).y)', '5\n50\n')
add('for_in_array', '', 'let arr: array<int> = [4, 5, 6]\nfor e in arr {\n (println e)\n}', '4\n5\n6\n')
add('import_fnvalue', '', '(println "skip")', 'skip\n')


add('match_break_nested_if', 'union S2 {\n Ci { r: int },\n Re { w: int }\n}\nfn lp2(s: S2) -> int {\n let mut n: int = 0\n while (< n 5) {\n  set n (+ n 1)\n  match s {\n   Ci(c) => {\n    (println "arm")\n    if (> c.r 2) {\n     break\n    }\n   },\n   Re(q) => { set n (+ n q.w) }\n  }\n }\n return n\n}\nshadow lp2 { assert true }', '(println (lp2 S2.Ci { r: 3 }))\n(println (lp2 S2.Ci { r: 1 }))', 'arm\n1\narm\narm\narm\narm\narm\n5\n')

# the end of a range is evaluated once, whatever the body does to the things it was computed from
add('for_end_array_length_push', '', 'let mut v: array<int> = []\nset v (array_push v 1)\nset v (array_push v 2)\nset v (array_push v 3)\nfor i in (range 0 (array_length v)) {\n    set v (array_push v (+ i 10))\n    (println i)\n}\n(println (array_length v))', '0\n1\n2\n6\n')
add('for_end_array_length_pop', '', 'let mut v: array<int> = []\nset v (array_push v 1)\nset v (array_push v 2)\nset v (array_push v 3)\nset v (array_push v 4)\nfor i in (range 0 (array_length v)) {\n    if (> (array_length v) 1) {\n        let x: int = (array_pop v)\n        (println x)\n    }\n    (println i)\n}\n(println (array_length v))', '4\n0\n3\n1\n2\n2\n3\n1\n')
add('for_end_var_reassigned', '', 'let mut n: int = 3\nfor i in (range 0 n) {\n    set n (+ n 5)\n    (println i)\n}\n(println n)', '0\n1\n2\n18\n')
add('for_end_str_length_grow', '', 'let mut s: string = "ab"\nfor i in (range 0 (str_length s)) {\n    set s (+ s "x")\n    (println i)\n}\n(println s)', '0\n1\nabxx\n')
add('for_end_global_mutated', 'let mut glim: int = 2\nfn bump() -> int {\n    set glim (+ glim 3)\n    return glim\n}\nshadow bump { assert true }', 'for i in (range 0 glim) {\n    (println (bump))\n}\n(println glim)', '5\n8\n8\n')
add('for_start_after_end_order', 'fn mk(tag: string, v: int) -> int {\n    (println tag)\n    return v\n}\nshadow mk { assert true }', 'for i in (range (mk "start" 1) (mk "end" 3)) {\n    (println i)\n}', 'start\nend\n1\n2\n')

# a block that is left abruptly still ends its scope
add('block_shadow_break', '', 'let x: int = 7\nlet mut n: int = 0\nwhile (< n 3) {\n    set n (+ n 1)\n    let x: int = (* n 100)\n    if (== n 2) {\n        break\n    }\n    (println x)\n}\n(println x)\n(println n)', '100\n7\n2\n')
add('block_shadow_continue', '', 'let x: int = 7\nlet mut acc: int = 0\nfor i in (range 0 4) {\n    set acc (+ acc x)\n    let x: int = (* i 1000)\n    if (== (% i 2) 0) {\n        continue\n    }\n    set acc (+ acc x)\n}\n(println acc)\n(println x)', '4028\n7\n')
add('block_shadow_nested_break', '', 'let s: string = "outer"\nlet mut k: int = 0\nwhile (< k 2) {\n    set k (+ k 1)\n    if (> k 0) {\n        let s: string = "inner"\n        if (== k 1) {\n            continue\n        }\n        (println s)\n        break\n    }\n}\n(println s)', 'inner\nouter\n')
add('block_shadow_return_value', 'fn pick(n: int) -> int {\n    let r: int = 5\n    if (> n 0) {\n        let r: int = (* n 2)\n        if (> r 5) {\n            return r\n        }\n    }\n    return r\n}\nshadow pick { assert true }', '(println (pick 4))\n(println (pick 1))\n(println (pick 0))', '8\n5\n5\n')

# float literals that need 16 or 17 significant digits denote exactly that double (only comparisons are printed)
add('float_literal_full_precision', 'let gthird: float = 0.6666666666666666\nlet gnext: float = 1.0000000000000002',
    '(println (== (+ 0.1 0.2) 0.30000000000000004))\n(println (> 0.30000000000000004 0.3))\n(println (== 0.6666666666666666 (/ 2.0 3.0)))\n(println (< 1.0 1.0000000000000002))\n(println (== gthird (/ 2.0 3.0)))\n(println (> gnext 1.0))\n(println (== 0.1234567890123456 0.12345678901234561))\n(println (< 0.1234567890123456 0.1234567890123457))\n(println (== 123456.78901234567 123456.78901234568))\n(println (> 4503599627370497.5 4503599627370497.0))',
    'true\ntrue\ntrue\ntrue\ntrue\ntrue\nfalse\ntrue\ntrue\ntrue\n')

# a loop whose last executed iteration ends with continue / break is over: the statements after it run
add('while_continue_last', 'fn wcl(n: int) -> int {\n    let mut i: int = 0\n    let mut acc: int = 0\n    while (< i n) {\n        set i (+ i 1)\n        if (== i n) {\n            continue\n        }\n        set acc (+ acc i)\n    }\n    set acc (+ acc 100)\n    (println "after")\n    return acc\n}\nshadow wcl { assert true }', '(println (wcl 3))\n(println (wcl 1))', 'after\n103\nafter\n100\n')
add('for_continue_last', 'fn fcl(n: int) -> int {\n    let mut acc: int = 0\n    for i in (range 0 n) {\n        if (== i (- n 1)) {\n            continue\n        }\n        set acc (+ acc 1)\n    }\n    (println "after")\n    return (+ acc 10)\n}\nshadow fcl { assert true }', '(println (fcl 3))\nlet mut k: int = 0\nwhile (< k 2) {\n    set k (+ k 1)\n    continue\n}\n(println k)', 'after\n12\n2\n')
add('nested_loop_inner_continue_last', '', 'let mut total: int = 0\nfor a in (range 0 2) {\n    let mut b: int = 0\n    while (< b 2) {\n        set b (+ b 1)\n        if (== b 2) {\n            continue\n        }\n        set total (+ total 1)\n    }\n    set total (+ total 10)\n}\n(println total)', '22\n')
add('while_break_first_then_stmt', '', 'let mut i: int = 0\nwhile (< i 5) {\n    set i (+ i 1)\n    break\n}\n(println i)\nlet mut j: int = 0\nfor q in (range 0 5) {\n    set j (+ j 1)\n    if (== q 0) {\n        break\n    }\n}\n(println j)', '1\n1\n')

# a map that has grown several times still finds every key
add('hashmap_grow', 'fn hk(i: int) -> string {\n    return (+ "k" (int_to_string i))\n}\nshadow hk { assert true }',
    'let m: HashMap<string, int> = (map_new)\nlet q: HashMap<int, int> = (map_new)\nlet mut i: int = 0\nwhile (< i 40) {\n    (map_put m (hk i) (* i 2))\n    (map_put q (- (* i 7) 50) i)\n    set i (+ i 1)\n}\nlet mut tt: int = 0\nlet mut u: int = 0\nset i 0\nwhile (< i 40) {\n    set tt (+ tt (map_get m (hk i)))\n    set u (+ u (map_get q (- (* i 7) 50)))\n    set i (+ i 1)\n}\n(println tt)\n(println u)\n(println (map_length m))\n(map_remove m (hk 39))\n(println (map_has m (hk 39)))\n(println (map_has m (hk 38)))\n(println (map_length m))',
    '1560\n780\n40\nfalse\ntrue\n39\n')

# a local variable may have the name of a function (static scoping: the innermost binding wins)
add('local_named_like_function', 'fn total() -> int {\n    return 5\n}\nshadow total { assert true }\nfn usef() -> int {\n    let mut total: int = 1\n    set total (+ total 2)\n    return total\n}\nshadow usef { assert true }', '(println (usef))\n(println (total))', '3\n5\n')

# forward references: the callee is defined after its caller (and after main)
add('forward_call', '', '(println (later 4))\n(println (later2 "x"))', '41\nin-later2\nxx\n',
    after='fn later(x: int) -> int {\n    return (+ (* x 10) 1)\n}\nshadow later { assert true }\nfn later2(s: string) -> string {\n    (println "in-later2")\n    return (+ s s)\n}\nshadow later2 { assert true }')
add('forward_fnvalue_print', 'fn ap2(f: fn(int) -> int, v: int) -> int {\n    let r: int = (f v)\n    (println "after-call")\n    return (+ r 1)\n}\nshadow ap2 { assert true }',
    '(println (ap2 noisy 5))\nlet g: fn(int) -> int = noisy\n(println (g 7))\n(println "end")', 'noisy 5\nnoisy-again\nafter-call\n11\nnoisy 7\nnoisy-again\n14\nend\n',
    after='fn noisy(x: int) -> int {\n    (println (+ "noisy " (int_to_string x)))\n    (println "noisy-again")\n    return (* x 2)\n}\nshadow noisy { assert true }')

EXTRA_FILES = {
    'import_call_in_shadow': {"census_m1.nano": 'pub fn imp_seven() -> int {\n    (println "in-imp")\n    return 7\n}\nshadow imp_seven { assert (== (imp_seven) 7) }\n'},
}


def files(name):
    """all files of a census program: {'main.nano': ..., extra modules...}"""
    text, _ = program(name)
    out = {"main.nano": text}
    out.update(EXTRA_FILES.get(name, {}))
    return out


def program(name):
    decls, body, expected = F[name]
    body = '\n'.join('    ' + l for l in body.split('\n'))
    text = ('%s\nfn t() -> int {\n%s\n    return 0\n}\nshadow t {\n    (println "<<S")\n    (t)\n    (println ">>E")\n}\n'
            'fn main() -> int {\n    (println "<<S")\n    (t)\n    (println ">>E")\n    return 0\n}\nshadow main { assert true }\n' % (decls, body))
    if name in AFTER:
        text += AFTER[name] + "\n"
    return text, expected
