"""Build flavors of /repo's current working tree (DESIGN §2.1).

A flavor is a slim copy of the tree built with hooks enabled (-DNANOLANG_VERIF)
and flavor specific compiler flags.  The cache key is a content hash of the
build-relevant files of /repo plus the probe / wrapper sources of /verif, so an
edited tree can never be served a stale build.
"""
import fcntl
import hashlib
import os
import shutil
import subprocess
import sys
import time

REPO = os.environ.get("NLVERIF_REPO", "/repo")
VERIF = os.path.dirname(os.path.dirname(os.path.abspath(__file__)))
CACHE = os.environ.get("NLVERIF_CACHE", "/var/tmp/nlverif")
GUARD = "NANOLANG_VERIF"

HASH_DIRS = ["src", "schema", "modules", "std", "stdlib", "scripts"]
HASH_FILES = ["Makefile.gnu", "Makefile"]
COPY_EXCLUDE = [".git", "obj", "bin", "examples", "docs", "userguide", "planning",
                "build", "editors", "C-samples", "tools", "tests", "src_nano", "formal"]

FLAVORS = {
    # the Makefile's own flags (minus -Werror so that a hook-only warning cannot break the build)
    "plain": dict(
        cflags="-Wall -Wextra -std=c99 -g -Isrc -D_GNU_SOURCE -D%s" % GUARD,
        ldflags="-lm -rdynamic"),
    "asan": dict(
        cflags="-std=c99 -O1 -g -fno-omit-frame-pointer -fsanitize=address,undefined "
               "-fno-sanitize=signed-integer-overflow -fno-sanitize-recover=undefined "
               "-Isrc -D_GNU_SOURCE -D%s" % GUARD,
        ldflags="-lm -rdynamic -fsanitize=address,undefined"),
    "tsan": dict(
        cflags="-std=c99 -O1 -g -fno-omit-frame-pointer -fsanitize=thread -Isrc -D_GNU_SOURCE -D%s" % GUARD,
        ldflags="-lm -rdynamic -fsanitize=thread"),
    # hooks OFF: used to show that guarded code is inert (C-level baseline comparisons)
    "nohook": dict(
        cflags="-Wall -Wextra -std=c99 -g -Isrc -D_GNU_SOURCE",
        ldflags="-lm -rdynamic"),
}

# objects that contain a main() and must not be linked into probes
MAIN_OBJS = {"obj/main.o", "obj/nanovm/main.o", "obj/nanovm/vmd_main.o", "obj/nanovm/cop_main.o",
             "obj/nanovirt/main.o", "obj/ffi_bindgen.o", "obj/main_stage1_5.o", "obj/lexer_bridge.o"}


class BuildError(Exception):
    pass


def _iter_files(root):
    for d in HASH_DIRS:
        top = os.path.join(root, d)
        for dp, dn, fn in os.walk(top):
            dn.sort()
            for f in sorted(fn):
                yield os.path.join(dp, f)
    for f in HASH_FILES:
        p = os.path.join(root, f)
        if os.path.exists(p):
            yield p


def tree_hash():
    h = hashlib.sha256()
    for p in _iter_files(REPO):
        try:
            if os.path.islink(p):
                h.update(b"L" + os.readlink(p).encode())
                continue
            with open(p, "rb") as f:
                data = f.read()
        except OSError:
            continue
        h.update(os.path.relpath(p, REPO).encode() + b"\0")
        h.update(hashlib.sha256(data).digest())
    for sub in ("probes", "tools"):
        top = os.path.join(VERIF, sub)
        for dp, dn, fn in os.walk(top):
            dn.sort()
            for f in sorted(fn):
                if f.endswith(".pyc"):
                    continue
                p = os.path.join(dp, f)
                h.update(os.path.relpath(p, VERIF).encode() + b"\0")
                with open(p, "rb") as fh:
                    h.update(hashlib.sha256(fh.read()).digest())
    with open(os.path.abspath(__file__), "rb") as fh:
        h.update(fh.read())
    return h.hexdigest()[:20]


_TREE_HASH = None


def current_hash():
    global _TREE_HASH
    if _TREE_HASH is None:
        _TREE_HASH = tree_hash()
    return _TREE_HASH


def _prune(flavor, keep):
    """Remove cache entries of this flavor that have not been used for 5 hours.  Purely age based: a running check
    touches its flavor directory on every get(), and other checks (or mutant runs) may be using older entries."""
    try:
        ents = [e for e in os.listdir(CACHE) if e.startswith(flavor + "-") and not e.endswith(".lock")]
    except OSError:
        return
    now = time.time()
    for e in ents:
        if e == keep:
            continue
        try:
            mt = os.path.getmtime(os.path.join(CACHE, e))
        except OSError:
            continue
        if now - mt > 5 * 3600:
            shutil.rmtree(os.path.join(CACHE, e), ignore_errors=True)
            try:
                os.unlink(os.path.join(CACHE, e + ".lock"))
            except OSError:
                pass


class Flavor:
    def __init__(self, name, root):
        self.name = name
        self.root = root
        self.bin = os.path.join(root, "bin")
        self.nanoc = os.path.join(root, "bin", "nanoc")
        self.nano_virt = os.path.join(root, "bin", "nano_virt")
        self.nano_vm = os.path.join(root, "bin", "nano_vm")
        self.nano_cop = os.path.join(root, "bin", "nano_cop")
        self.nano_vmd = os.path.join(root, "bin", "nano_vmd")
        self.fastcc = os.path.join(VERIF, "tools", "fastcc")

    def probe(self, name):
        return os.path.join(self.root, "probes", name)

    def fastcc_env(self, extra=None):
        """Environment for nanoc so that the C compile step uses the fastcc wrapper."""
        e = {"NANO_CC": self.fastcc, "NLV_FASTCC_ROOT": self.root,
             "NLV_FASTCC_SAN": "1" if self.name == "asan" else "0"}
        if extra:
            e.update(extra)
        return e


def _run(cmd, cwd, log):
    with open(log, "ab") as lf:
        lf.write(("\n$ %s\n" % cmd).encode())
        lf.flush()
        r = subprocess.run(cmd, shell=True, cwd=cwd, stdout=lf, stderr=subprocess.STDOUT)
    return r.returncode


def _build_probes(root, fl, log):
    pdir = os.path.join(VERIF, "probes")
    out = os.path.join(root, "probes")
    os.makedirs(out, exist_ok=True)
    if not os.path.isdir(pdir):
        return
    objs = []
    for dp, dn, fn in os.walk(os.path.join(root, "obj")):
        for f in fn:
            if f.endswith(".o"):
                rel = os.path.relpath(os.path.join(dp, f), root)
                if rel in MAIN_OBJS or "build_bootstrap" in rel or "nano_modules" in rel:
                    continue
                objs.append(rel)
    objs.sort()
    # vmd_server/vmd_client objects are not needed by probes but harmless; keep a stable list
    cflags = fl["cflags"].replace("-Wall -Wextra", "")
    jobs = []
    for f in sorted(os.listdir(pdir)):
        if not f.endswith(".c"):
            continue
        name = f[:-2]
        cmd = "gcc %s -Isrc/nanoisa -Isrc/nanovm -Isrc/nanovirt -o probes/%s %s %s %s" % (
            cflags, name, os.path.join(pdir, f), " ".join(objs), fl["ldflags"] + " -lpthread -ldl")
        jobs.append((name, subprocess.Popen(cmd, shell=True, cwd=root, stdout=open(log, "ab"),
                                            stderr=subprocess.STDOUT)))
    for name, p in jobs:
        if p.wait() != 0:
            raise BuildError("probe %s failed to build (see %s)" % (name, log))


def get(flavor):
    """Return a built Flavor for /repo's current working tree (build if needed)."""
    fl = FLAVORS[flavor]
    key = "%s-%s" % (flavor, current_hash())
    os.makedirs(CACHE, exist_ok=True)
    root = os.path.join(CACHE, key)
    lockp = root + ".lock"
    with open(lockp, "w") as lk:
        fcntl.flock(lk, fcntl.LOCK_EX)
        if os.path.exists(os.path.join(root, ".built")):
            os.utime(root)
            return Flavor(flavor, root)
        t0 = time.time()
        shutil.rmtree(root, ignore_errors=True)
        os.makedirs(root)
        log = os.path.join(root, "build.log")
        ex = " ".join("--exclude=/%s" % e for e in COPY_EXCLUDE)
        if _run("rsync -a %s %s/ %s/" % (ex, REPO, root), "/", log) != 0:
            raise BuildError("rsync failed")
        os.makedirs(os.path.join(root, "obj"), exist_ok=True)
        os.makedirs(os.path.join(root, "bin"), exist_ok=True)
        targets = "bin/nanoc_c vm"
        if flavor == "tsan":
            targets = "nano_vmd nano_vm nano_cop nano_virt"
        cmd = ("make -j16 -f Makefile.gnu %s CC=gcc CFLAGS='%s' LDFLAGS='%s'"
               % (targets, fl["cflags"], fl["ldflags"]))
        rc = _run(cmd, root, log)
        if rc != 0:
            # parallel make can trip over missing order-only prerequisites; retry serially once
            rc = _run(cmd.replace("-j16", "-j1"), root, log)
        if rc != 0:
            tail = open(log, "rb").read()[-3000:].decode("utf-8", "replace")
            raise BuildError("flavor %s failed to build:\n%s" % (flavor, tail))
        if os.path.exists(os.path.join(root, "bin", "nanoc_c")) and not os.path.exists(os.path.join(root, "bin", "nanoc")):
            os.symlink("nanoc_c", os.path.join(root, "bin", "nanoc"))
        _build_probes(root, fl, log)
        # the tree is hashed first and copied afterwards: if /repo (or the probes) changed in between, the copy
        # does not correspond to its key - never serve it
        if tree_hash() != current_hash():
            shutil.rmtree(root, ignore_errors=True)
            raise BuildError("the tree under %s changed while flavor %s was being built; run the check again" % (REPO, flavor))
        with open(os.path.join(root, ".built"), "w") as f:
            f.write("%.1f\n" % (time.time() - t0))
        _prune(flavor, key)
        return Flavor(flavor, root)


if __name__ == "__main__":
    for f in sys.argv[1:] or ["plain"]:
        t = time.time()
        fl = get(f)
        print(f, fl.root, "%.1fs" % (time.time() - t))
