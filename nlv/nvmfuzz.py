"""Structure-aware mutator for NanoISA .nvm modules (property C13; reusable by C18).

Nothing about the instruction set is hard-coded: `Isa` is built from the text printed by
`vm_probe --dump-isa` / `isa_probe --dump` (lines `OP <hex> <name> <n> <kind>...`, read from the
repository's own isa_get_info).  Hand-made programs (`craft.*`) refer to opcodes by NAME only and are
skipped when the dumped table has no such name.

The container layout (32-byte header, 12-byte directory entries, 18-byte function entries, u32-length
prefixed strings, CRC32 poly 0xEDB88320 over everything after the header) is the one documented in
src/nanoisa/nvm_format.h; the check validates it at run time with control cases (every unmutated seed,
re-assembled by this module, must load and verify).

Every generated case is (kind, bytes).  `kind` names the mutation family, e.g. "opnd.i32", "sec.wrap".
"""
import struct
import zlib

KSZ = {"U8": 1, "U16": 2, "U32": 4, "I32": 4, "I64": 8, "F64": 8}
HDR = 32
T_CODE, T_STR, T_FN, T_IMP, T_DBG = 1, 2, 3, 8, 9
FN_SZ = 18
I64_MIN = -(1 << 63)
END = "END"     # jump-target sentinel: the end of the function


def u(v, size):
    return (v & ((1 << (8 * size)) - 1)).to_bytes(size, "little")


def s32(v):
    v &= 0xFFFFFFFF
    return v - (1 << 32) if v & 0x80000000 else v


def fix_crc(b):
    b[28:32] = struct.pack("<I", zlib.crc32(bytes(b[HDR:])) & 0xFFFFFFFF)
    return b


def boundaries(mx, size):
    """{0, 1, max-1, max, max+1, 2^16-1, 2^31, 2^32-1} (+ a few neighbours), cut to the operand width."""
    m = (1 << (8 * size)) - 1
    vs = {0, 1, mx - 1, mx, mx + 1, 0x7FFF, 0x8000, 0xFFFF, 0x10000, 0x7FFFFFFF, 0x80000000, 0xFFFFFFF0, 0xFFFFFFFF}
    return sorted({v & m for v in vs if v >= 0})


I64_B = [0, 1, -1, 2, I64_MIN, I64_MIN + 1, (1 << 63) - 1, 1 << 31, (1 << 31) - 1, -(1 << 31), 1 << 32, (1 << 32) - 1,
         0xFFFF, 0x10000, -2, 1 << 62, 4096, 65535]
F64_B = [0.0, -0.0, 1.0, -1.0, float("inf"), float("-inf"), float("nan"), 1e308, -1e308, 5e-324, 9.3e18, -9.3e18, 4294967296.0]
U8_B = [0, 1, 2, 5, 7, 13, 14, 15, 16, 0x7F, 0x80, 0xFE, 0xFF]


class Isa:
    def __init__(self, text):
        self.ops = {}                       # opcode -> (name, kinds, encoded length)
        for line in text.splitlines():
            p = line.split()
            if len(p) >= 4 and p[0] == "OP":
                n = int(p[3])
                kinds = tuple(p[4:4 + n])
                if len(kinds) != n or any(k not in KSZ for k in kinds):
                    continue
                self.ops[int(p[1], 16)] = (p[2], kinds, 1 + sum(KSZ[k] for k in kinds))
        self.by_name = {v[0]: k for k, v in self.ops.items()}
        self.by_len = {}
        for op, (_, _, ln) in self.ops.items():
            self.by_len.setdefault(ln, []).append(op)
        self.defined = sorted(self.ops)
        self.undefined = [b for b in range(256) if b not in self.ops]
        self.zero = [op for op in self.defined if not self.ops[op][1]]
        self.jumps = [op for op in self.defined if "I32" in self.ops[op][1]]

    def has(self, *names):
        return all(n in self.by_name for n in names)

    def enc(self, op, vals=()):
        if isinstance(op, str):
            op = self.by_name[op]
        kinds = self.ops[op][1]
        out = bytearray([op])
        for k, v in zip(kinds, vals):
            if k == "F64" and isinstance(v, float):
                out += struct.pack("<d", v)
            else:
                out += u(int(v), KSZ[k])
        return bytes(out)


class Ins:
    __slots__ = ("op", "vals", "tgt")

    def __init__(self, op, vals, tgt=None):
        self.op = op
        self.vals = vals
        self.tgt = tgt          # None | Ins | END  (resolved target of the I32 operand)

    def copy(self):
        return Ins(self.op, list(self.vals), None)


def decode(isa, code, start, end):
    """Linear walk of code[start:end] -> ([(pos, Ins)], bytes decoded); stops at the first undecodable byte."""
    out = []
    pos = start
    ops = isa.ops
    while pos < end:
        ent = ops.get(code[pos])
        if ent is None or pos + ent[2] > end:
            break
        vals = []
        p = pos + 1
        for k in ent[1]:
            sz = KSZ[k]
            vals.append(int.from_bytes(code[p:p + sz], "little"))
            p += sz
        out.append((pos - start, Ins(code[pos], vals)))
        pos = p
    return out, pos - start


def resolve_jumps(isa, dec, length):
    at = {pos: ins for pos, ins in dec}
    for pos, ins in dec:
        kinds = isa.ops[ins.op][1]
        if "I32" in kinds:
            t = pos + s32(ins.vals[kinds.index("I32")])
            ins.tgt = END if t == length else at.get(t)


def encode_fn(isa, ins_list):
    """Encode a list of Ins, re-deriving the I32 operand of every instruction whose target survived."""
    pos = 0
    where = {}
    for ins in ins_list:
        where[id(ins)] = pos
        pos += isa.ops[ins.op][2]
    total = pos
    out = bytearray()
    for ins in ins_list:
        kinds = isa.ops[ins.op][1]
        vals = ins.vals
        if ins.tgt is not None and "I32" in kinds:
            t = total if ins.tgt is END else where.get(id(ins.tgt))
            if t is not None:
                vals = list(vals)
                vals[kinds.index("I32")] = t - where[id(ins)]
        out.append(ins.op)
        for k, v in zip(kinds, vals):
            out += u(int(v), KSZ[k])
    return bytes(out)


def assemble(flags, entry, sections, spo=None, spl=None, nsec=None, crc=True):
    """sections: [(type, payload)] laid out in directory order directly behind the directory."""
    n = len(sections)
    pos = HDR + 12 * n
    d = bytearray()
    body = bytearray()
    so = sl = 0
    for t, pl in sections:
        d += struct.pack("<III", t & 0xFFFFFFFF, pos, len(pl))
        if t == T_STR and not sl:
            so, sl = pos, len(pl)
        body += pl
        pos += len(pl)
    h = bytearray(b"NVM\x01") + struct.pack("<IIIIIII", 1, flags & 0xFFFFFFFF, entry & 0xFFFFFFFF,
                                            n if nsec is None else nsec, so if spo is None else spo,
                                            sl if spl is None else spl, 0)
    b = h + d + body
    return fix_crc(b) if crc else b


def pack_strings(strs):
    out = bytearray()
    for s in strs:
        out += struct.pack("<I", len(s)) + s
    return bytes(out)


def pack_fns(fns):
    out = bytearray()
    for f in fns:
        out += struct.pack("<IHIIHH", f[0] & 0xFFFFFFFF, f[1] & 0xFFFF, f[2] & 0xFFFFFFFF, f[3] & 0xFFFFFFFF,
                           f[4] & 0xFFFF, f[5] & 0xFFFF)
    return bytes(out)


class Seed:
    """A compiler-produced module, indexed for in-place patching and for rebuilding."""

    def __init__(self, data, isa, name=""):
        self.data = bytes(data)
        self.isa = isa
        self.name = name
        d = self.data
        if len(d) < HDR or d[:4] != b"NVM\x01":
            raise ValueError("not an nvm file")
        self.flags, self.entry, self.nsec, self.spo, self.spl, self.crc = struct.unpack_from("<IIIIII", d, 8)
        if HDR + 12 * self.nsec > len(d) or self.nsec > 16:
            raise ValueError("directory does not fit")
        self.secs = [list(struct.unpack_from("<III", d, HDR + 12 * i)) for i in range(self.nsec)]
        for t, o, sz in self.secs:
            if o + sz > len(d):
                raise ValueError("section outside file")
        self.first = {}
        for i, (t, o, sz) in enumerate(self.secs):
            self.first.setdefault(t, i)
        self.strings = []       # (position of the length field, length)
        if T_STR in self.first:
            _, o, sz = self.secs[self.first[T_STR]]
            p = 0
            while p + 4 <= sz:
                ln = struct.unpack_from("<I", d, o + p)[0]
                if p + 4 + ln > sz:
                    break
                self.strings.append((o + p, ln))
                p += 4 + ln
        self.fns = []           # [file position, name, arity, off, len, locals, upv]
        if T_FN in self.first:
            _, o, sz = self.secs[self.first[T_FN]]
            for k in range(sz // FN_SZ):
                self.fns.append([o + FN_SZ * k] + list(struct.unpack_from("<IHIIHH", d, o + FN_SZ * k)))
        self.imports = []       # (file position, param_count)
        if T_IMP in self.first:
            _, o, sz = self.secs[self.first[T_IMP]]
            p = 0
            while p + 11 <= sz:
                pc = struct.unpack_from("<H", d, o + p + 8)[0]
                if p + 11 + pc > sz:
                    break
                self.imports.append((o + p, pc))
                p += 11 + pc
        self.code_off, self.code_size = 0, 0
        if T_CODE in self.first:
            _, self.code_off, self.code_size = self.secs[self.first[T_CODE]]
        self._dec = {}
        self.codefns = [i for i, f in enumerate(self.fns) if f[4] > 0 and f[3] + f[4] <= self.code_size]

    def fn_ins(self, i):
        """[(pos, Ins)] of function i (decoded lazily, jumps resolved)."""
        if i not in self._dec:
            f = self.fns[i]
            st = self.code_off + f[3]
            dec, n = decode(self.isa, self.data, st, st + f[4])
            resolve_jumps(self.isa, dec, f[4])
            self._dec[i] = dec
        return self._dec[i]

    def payloads(self):
        return [(t, self.data[o:o + sz]) for t, o, sz in self.secs]

    def string_bytes(self):
        return [self.data[p + 4:p + 4 + ln] for p, ln in self.strings]


# ------------------------------------------------------------------------------------------------
# in-place mutations: patch a copy of the seed's bytes; return kind or None when not applicable
# ------------------------------------------------------------------------------------------------

def _ctx_max(s, r, fi=None):
    c = [len(s.strings), len(s.fns), len(s.imports), s.code_size, 4096, 1024, 15, 256]
    if fi is not None:
        f = s.fns[fi]
        c += [f[5], f[5], f[2], f[6], f[4]]
    return r.choice(c)


def m_operand(s, b, r):
    if not s.codefns:
        return None
    fi = r.choice(s.codefns)
    dec = s.fn_ins(fi)
    cand = [(p, i) for p, i in dec if i.vals]
    if not cand:
        return None
    pos, ins = r.choice(cand)
    kinds = s.isa.ops[ins.op][1]
    k = r.randrange(len(kinds))
    kind = kinds[k]
    fpos = s.code_off + s.fns[fi][3] + pos + 1 + sum(KSZ[x] for x in kinds[:k])
    f = s.fns[fi]
    if kind == "I32":
        ln = f[4]
        nxt = pos + s.isa.ops[ins.op][2]
        v = r.choice([-pos, ln - pos, ln - pos + 1, ln - pos - 1, -pos - 1, 0, 1, 2, nxt - pos, nxt - pos + 1,
                      0x7FFFFFFF, -0x80000000, -1, r.randrange(-pos, ln - pos + 1), r.randrange(-pos, ln - pos + 1)])
        b[fpos:fpos + 4] = u(v, 4)
    elif kind == "I64":
        b[fpos:fpos + 8] = u(r.choice(I64_B), 8)
    elif kind == "F64":
        b[fpos:fpos + 8] = struct.pack("<d", r.choice(F64_B))
    elif kind == "U8":
        b[fpos] = r.choice(U8_B)
    else:
        sz = KSZ[kind]
        b[fpos:fpos + sz] = u(r.choice(boundaries(_ctx_max(s, r, fi), sz)), sz)
    return "opnd." + kind.lower()


def m_opcode(s, b, r):
    if not s.codefns:
        return None
    fi = r.choice(s.codefns)
    dec = s.fn_ins(fi)
    if not dec:
        return None
    pos, ins = r.choice(dec)
    fpos = s.code_off + s.fns[fi][3] + pos
    x = r.random()
    if x < 0.6:
        b[fpos] = r.choice(s.isa.by_len[s.isa.ops[ins.op][2]])
        return "opc.samelen"
    if x < 0.85:
        b[fpos] = r.choice(s.isa.defined)
        return "opc.defined"
    b[fpos] = r.choice(s.isa.undefined) if s.isa.undefined else r.randrange(256)
    return "opc.undefined"


FN_FIELDS = (("name", 0, 4), ("arity", 4, 2), ("off", 6, 4), ("len", 10, 4), ("locals", 14, 2), ("upv", 16, 2))


def m_fntable(s, b, r):
    if not s.fns:
        return None
    fi = r.randrange(len(s.fns))
    f = s.fns[fi]
    name, rel, sz = r.choice(FN_FIELDS)
    cs = s.code_size
    if name == "off":
        vs = boundaries(cs, 4) + [cs - f[4], cs - f[4] + 1, (1 << 32) - f[4], (1 << 32) - f[4] + 1, f[3] + 1, max(0, f[3] - 1)]
    elif name == "len":
        vs = boundaries(cs - f[3], 4) + [(1 << 32) - f[3], (1 << 32) - f[3] + 1, (1 << 32) - f[3] + cs, (1 << 32) - f[3] - 1,
                                         f[4] + 1, max(0, f[4] - 1), cs]
    elif name == "name":
        vs = boundaries(len(s.strings), 4)
    elif name == "arity":
        vs = boundaries(f[5], 2) + [4095, 4096, 4097]
    elif name == "locals":
        vs = boundaries(f[2], 2) + [255, 256, 4095, 4096]
    else:
        vs = boundaries(f[6], 2)
    b[f[0] + rel:f[0] + rel + sz] = u(r.choice(vs), sz)
    return "fn." + name


def m_header(s, b, r):
    x = r.random()
    if x < 0.4:
        b[12:16] = u(r.choice(boundaries(len(s.fns), 4)), 4)
        return "hdr.entry"
    if x < 0.6:
        b[8:12] = u(r.choice([0, 1, 2, 3, 4, 7, 0xFFFFFFFF, 0xFFFFFFFE, s.flags ^ 1, r.getrandbits(32)]), 4)
        return "hdr.flags"
    if x < 0.85:
        b[16:20] = u(r.choice([0, 1, max(0, s.nsec - 1), s.nsec + 1, 15, 16, 17, 0xFFFFFFFF, 0x15555556, 0x15555555]), 4)
        return "hdr.nsec"
    f = r.choice((20, 24))
    b[f:f + 4] = u(r.choice(boundaries(len(s.data), 4)), 4)
    return "hdr.strpool"


def m_secdir(s, b, r):
    if not s.secs:
        return None
    i = r.randrange(s.nsec)
    base = HDR + 12 * i
    t, o, sz = s.secs[i]
    n = len(s.data)
    x = r.random()
    if x < 0.22:
        # offset + size wraps 2^32 and lands inside the file again
        k = r.choice([1, 4, 8, 16, 0x10, 0x100, 0x1000, 0x10000, 1 << 20, 1 << 31, r.randrange(1, 1 << 31)])
        so = ((1 << 32) - k) & 0xFFFFFFFF
        ss = (k + r.choice([0, 1, 4, sz, n, n - 1, r.randrange(0, n + 1)])) & 0xFFFFFFFF
        b[base + 4:base + 12] = struct.pack("<II", so, ss)
        return "sec.wrap"
    if x < 0.5:
        vs = boundaries(n, 4) + [n - sz, n - sz + 1, o + 1, max(0, o - 1), HDR, HDR + 12 * s.nsec, (1 << 32) - sz, (1 << 32) - sz + 1]
        b[base + 4:base + 8] = u(r.choice(vs), 4)
        return "sec.offset"
    if x < 0.8:
        vs = boundaries(n - o, 4) + [sz + 1, max(0, sz - 1), (1 << 32) - o, (1 << 32) - o + 1, (1 << 32) - o + n, n, sz + 17, sz - 17 if sz > 17 else 0]
        b[base + 8:base + 12] = u(r.choice(vs), 4)
        return "sec.size"
    b[base:base + 4] = u(r.choice([0, 1, 2, 3, 4, 5, 6, 7, 8, 9, 10, 11, 12, 0xFFFF, 0x10001, 0xFFFFFFFF, r.choice(s.secs)[0]]), 4)
    return "sec.type"


def m_strlen(s, b, r):
    if not s.strings:
        return None
    _, so, ssz = s.secs[s.first[T_STR]]
    p, ln = r.choice(s.strings)
    pos = p - so + 4            # value of `pos` in the loader when it adds the length
    rest = ssz - pos
    vs = [0, 1, rest - 1, rest, rest + 1, 0xFFFFFFFF, 0xFFFFFFFC, 0xFFFFFFFB, 0x80000000, 0x7FFFFFFF, ln + 1, max(0, ln - 1),
          (1 << 32) - pos, (1 << 32) - pos + 1, (1 << 32) - pos + rest, (1 << 32) - pos + r.randrange(0, ssz + 1), (1 << 32) - 1 - pos]
    b[p:p + 4] = u(r.choice(vs), 4)
    return "str.len"


def m_import(s, b, r):
    if not s.imports:
        return None
    p, pc = r.choice(s.imports)
    x = r.random()
    if x < 0.5:
        b[p + 8:p + 10] = u(r.choice(boundaries(pc, 2) + [16, 17, 15, 255, 256]), 2)
        return "imp.params"
    if x < 0.85:
        f = r.choice((0, 4))
        b[p + f:p + f + 4] = u(r.choice(boundaries(len(s.strings), 4)), 4)
        return "imp.name"
    b[p + 10] = r.choice(U8_B)
    return "imp.rettype"


def m_bytes(s, b, r):
    n = len(b)
    if n <= HDR:
        return None
    for _ in range(r.choice((1, 1, 2, 4, 8))):
        at = r.randrange(HDR, n)
        b[at] = r.choice((0, 0xFF, b[at] ^ (1 << r.randrange(8)), r.randrange(256)))
    return "bytes.rand"


INPLACE = [(m_operand, 30), (m_opcode, 8), (m_fntable, 12), (m_header, 4), (m_secdir, 7), (m_strlen, 5), (m_import, 3), (m_bytes, 4)]


# ------------------------------------------------------------------------------------------------
# rebuilding mutations: return (kind, bytearray) or None
# ------------------------------------------------------------------------------------------------

def _rand_ins(isa, s, r, fi=None, length_hint=64):
    """A random defined instruction with boundary operands."""
    op = r.choice(isa.defined)
    vals = []
    for k in isa.ops[op][1]:
        if k == "I32":
            vals.append(r.choice([0, 1, -1, 2, length_hint, -length_hint, r.randrange(-length_hint, length_hint + 1)]))
        elif k == "I64":
            vals.append(r.choice(I64_B))
        elif k == "F64":
            vals.append(int.from_bytes(struct.pack("<d", r.choice(F64_B)), "little"))
        elif k == "U8":
            vals.append(r.choice(U8_B))
        else:
            mx = _ctx_max(s, r, fi) if s is not None else r.choice([0, 1, 2, 3, 8, 65535])
            vals.append(r.choice(boundaries(mx, KSZ[k]) + [0, 0, 1, 1, 2, 3]))
    return Ins(op, vals)


def _replace_fn(s, fi, code_bytes, fn_patch=None):
    """Append new code for function fi at the end of the code section and repoint its table entry."""
    pl = s.payloads()
    ci, ti = s.first[T_CODE], s.first[T_FN]
    code = pl[ci][1]
    fns = [f[1:] for f in s.fns]
    f = list(fns[fi])
    f[2], f[3] = len(code), len(code_bytes)
    if fn_patch:
        for k, v in fn_patch.items():
            f[k] = v
    fns[fi] = f
    tail = pl[ti][1][FN_SZ * len(fns):]
    pl[ci] = (T_CODE, code + code_bytes)
    pl[ti] = (T_FN, pack_fns(fns) + tail)
    return assemble(s.flags, s.entry, pl)


def m_instr(s, r, seeds):
    if not s.codefns or T_CODE not in s.first or T_FN not in s.first:
        return None
    isa = s.isa
    fi = r.choice(s.codefns)
    dec = s.fn_ins(fi)
    if not dec:
        return None
    ins = [i for _, i in dec]
    n = len(ins)
    x = r.random()
    if x < 0.10:
        k = r.randrange(n)
        c = ins[k].copy()
        c.tgt = ins[k].tgt
        ins.insert(k, c)
        kind = "ins.dup"
    elif x < 0.20:
        k = r.randrange(n)
        del ins[k:k + r.choice((1, 1, 2, 5))]
        kind = "ins.del"
    elif x < 0.30 and n >= 2:
        a, c = r.randrange(n), r.randrange(n)
        ins[a], ins[c] = ins[c], ins[a]
        kind = "ins.swap"
    elif x < 0.38 and n >= 3:
        a = r.randrange(n)
        ln = r.randint(1, min(8, n - a))
        run = ins[a:a + ln]
        del ins[a:a + ln]
        at = r.randrange(len(ins) + 1)
        ins[at:at] = run
        kind = "ins.move"
    elif x < 0.55:
        # splice a run of instructions from another function (possibly of another module)
        s2 = r.choice(seeds) if r.random() < 0.5 else s
        if not s2.codefns:
            return None
        d2 = s2.fn_ins(r.choice(s2.codefns))
        if not d2:
            return None
        a = r.randrange(len(d2))
        run = [i.copy() for _, i in d2[a:a + r.randint(1, 12)]]
        at = r.randrange(n + 1)
        if r.random() < 0.3:
            ins[at:at + len(run)] = run
        else:
            ins[at:at] = run
        kind = "ins.splice"
    elif x < 0.70:
        at = r.randrange(n + 1)
        ins[at:at] = [_rand_ins(isa, s, r, fi, s.fns[fi][4]) for _ in range(r.choice((1, 1, 2, 3, 6)))]
        kind = "ins.random"
    elif x < 0.88 and isa.has("PUSH_I64", "POP"):
        # replace the top 1..3 arguments of an operand-less instruction by boundary integers
        zs = [k for k, i in enumerate(ins) if not i.vals]
        if not zs:
            return None
        k = r.choice(zs)
        m = r.choice((1, 1, 2, 2, 3))
        pre = [Ins(isa.by_name["POP"], []) for _ in range(m)] + [Ins(isa.by_name["PUSH_I64"], [r.choice(I64_B)]) for _ in range(m)]
        ins[k:k] = pre
        kind = "ins.args"
    elif isa.has("PUSH_I64", "POP"):
        # a fresh operand-less operation on two boundary integers, result dropped
        at = r.randrange(n + 1)
        ins[at:at] = [Ins(isa.by_name["PUSH_I64"], [r.choice(I64_B)]), Ins(isa.by_name["PUSH_I64"], [r.choice(I64_B)]),
                      Ins(r.choice(isa.zero), []), Ins(isa.by_name["POP"], [])]
        kind = "ins.binop"
    else:
        return None
    code = encode_fn(isa, ins)
    if r.random() < 0.05 and len(code) > 2:
        code = code[:r.randrange(1, len(code))]
        kind += "+cut"
    return kind, _replace_fn(s, fi, code)


def m_fnstruct(s, r, seeds):
    if not s.fns or T_FN not in s.first:
        return None
    pl = s.payloads()
    ti = s.first[T_FN]
    raw = pl[ti][1]
    x = r.random()
    if x < 0.3:
        k = r.randrange(len(s.fns))
        pl[ti] = (T_FN, raw + raw[FN_SZ * k:FN_SZ * (k + 1)] * r.choice((1, 1, 2, 40, 600)))
        kind = "fn.dupentry"
    elif x < 0.55:
        pl[ti] = (T_FN, raw[:max(0, len(raw) - r.choice((1, 2, 9, 17, 18, 19)))])
        kind = "fn.tabletrunc"
    elif x < 0.8 and len(s.fns) >= 2:
        fns = [f[1:] for f in s.fns]
        a, c = r.randrange(len(fns)), r.randrange(len(fns))
        fa = list(fns[a])
        fa[2] = (fns[c][2] + r.choice((0, 1, 2, 3, 5))) & 0xFFFFFFFF
        fa[3] = r.choice((fns[c][3], fns[a][3], max(0, fns[c][3] - 1), 1))
        fns[a] = fa
        pl[ti] = (T_FN, pack_fns(fns))
        kind = "fn.overlap"
    else:
        fns = [f[1:] for f in s.fns]
        r.shuffle(fns)
        pl[ti] = (T_FN, pack_fns(fns))
        kind = "fn.shuffle"
    return kind, assemble(s.flags, s.entry, pl)


def m_sections(s, r, seeds):
    pl = s.payloads()
    if not pl:
        return None
    x = r.random()
    nsec = None
    if x < 0.25:
        k = r.randrange(len(pl))
        if r.random() < 0.5:
            pl.insert(r.randrange(len(pl) + 1), pl[k])
        else:
            s2 = r.choice(seeds)
            same = [p for p in s2.payloads() if p[0] == pl[k][0]]
            pl.insert(r.randrange(len(pl) + 1), r.choice(same) if same else pl[k])
        kind = "sec.dup"
    elif x < 0.45:
        del pl[r.randrange(len(pl))]
        kind = "sec.absent"
    elif x < 0.55:
        r.shuffle(pl)
        kind = "sec.reorder"
    elif x < 0.65:
        k = r.randrange(len(pl))
        pl[k] = (pl[k][0], b"")
        kind = "sec.empty"
    elif x < 0.8:
        while len(pl) < r.choice((15, 16, 17, 18)):
            pl.append((r.choice((0, 4, 5, 6, 7, 10, 11, 12, 0x7FFFFFFF, pl[0][0])), bytes(r.getrandbits(8) for _ in range(r.choice((0, 1, 7))))))
        kind = "sec.many"
    elif x < 0.9:
        # directory entry count larger/smaller than the entries present
        nsec = r.choice((0, max(0, len(pl) - 1), len(pl) + 1, len(pl) + 2))
        kind = "sec.count"
    else:
        # two entries describing overlapping byte ranges
        b = assemble(s.flags, s.entry, pl)
        if len(pl) < 2:
            return None
        a, c = r.sample(range(len(pl)), 2)
        ta, oa, sa = struct.unpack_from("<III", b, HDR + 12 * a)
        b[HDR + 12 * c + 4:HDR + 12 * c + 12] = struct.pack("<II", oa + r.choice((0, 1, 2, 4)), max(0, sa - r.choice((0, 1, 4))))
        return "sec.overlap", fix_crc(b)
    return kind, assemble(s.flags, s.entry, pl, nsec=nsec)


def m_strings(s, r, seeds):
    if T_STR not in s.first:
        return None
    pl = s.payloads()
    si = s.first[T_STR]
    strs = s.string_bytes()
    x = r.random()
    if x < 0.2:
        strs += [b"s%d" % i for i in range(r.choice((4000, 4096, 4097, 5000)))]
        kind = "str.many"
    elif x < 0.35:
        strs.append(bytes([r.randrange(1, 256)]) * r.choice((65535, 65536, 200000)))
        kind = "str.big"
    elif x < 0.5 and strs:
        k = r.randrange(len(strs))
        strs[k] = strs[k][:len(strs[k]) // 2] + b"\0" + strs[k][len(strs[k]) // 2:]
        kind = "str.nul"
    elif x < 0.7 and strs:
        del strs[r.randrange(len(strs)):]
        kind = "str.drop"
    elif x < 0.8 and strs:
        strs.append(strs[r.randrange(len(strs))])       # duplicate entry: the loader de-duplicates, indices shift
        r.shuffle(strs)
        kind = "str.dupshuffle"
    else:
        raw = pack_strings(strs)
        pl[si] = (T_STR, raw[:max(0, len(raw) - r.choice((1, 2, 3, 4, 5, 8)))])
        return "str.trunc", assemble(s.flags, s.entry, pl)
    pl[si] = (T_STR, pack_strings(strs))
    return kind, assemble(s.flags, s.entry, pl)


def m_imports(s, r, seeds):
    pl = s.payloads()
    x = r.random()
    if T_IMP in s.first and x < 0.5:
        del pl[s.first[T_IMP]]
        return "imp.strip", assemble(s.flags, s.entry, pl)
    ns = max(1, len(s.strings))
    ent = bytearray()
    for _ in range(r.choice((1, 1, 2, 33, 70))):
        pc = r.choice((0, 1, 2, 16, 17, 255, 65535)) if r.random() < 0.5 else r.randrange(0, 5)
        ent += struct.pack("<IIHB", r.choice(boundaries(ns, 4) + [0] * 6), r.choice(boundaries(ns, 4) + [0] * 6), pc, r.choice(U8_B))
        ent += bytes(r.choice(U8_B) for _ in range(min(pc, r.choice((pc, pc, max(0, pc - 1))))))
    if T_IMP in s.first:
        i = s.first[T_IMP]
        pl[i] = (T_IMP, pl[i][1] + bytes(ent))
    else:
        pl.append((T_IMP, bytes(ent)))
    return "imp.add", assemble(s.flags, s.entry, pl)


REBUILD = [(m_instr, 30), (m_fnstruct, 4), (m_sections, 6), (m_strings, 4), (m_imports, 2)]


# ------------------------------------------------------------------------------------------------
# raw inputs
# ------------------------------------------------------------------------------------------------

def raw_case(seeds, r):
    x = r.random()
    if x < 0.2:
        n = r.choice((0, 1, 4, 31, 32, 33, 44, 64, 200, r.randrange(0, 4097)))
        return "raw.random", bytes(r.getrandbits(8) for _ in range(n))
    if x < 0.45:
        # random bytes behind a well-formed header with a correct checksum
        n = r.choice((0, 12, 24, 36, r.randrange(0, 600)))
        body = bytearray(r.getrandbits(8) for _ in range(n))
        nsec = r.choice((0, 1, 2, 3, 16))
        if r.random() < 0.7:
            # plausible directory entries pointing into the file
            for i in range(min(nsec, n // 12)):
                struct.pack_into("<III", body, 12 * i, r.choice((1, 2, 3, 8, 9)), r.randrange(0, HDR + n + 1), r.randrange(0, n + 1))
        h = bytearray(b"NVM\x01") + struct.pack("<IIIIIII", 1, r.choice((0, 1, 3)), r.choice((0, 1, 0xFFFFFFFF)), nsec, 0, 0, 0)
        return "raw.header+random", bytes(fix_crc(h + body))
    s = r.choice(seeds)
    d = s.data
    if x < 0.7:
        cut = r.choice((0, 31, 32, 33, HDR + 12 * s.nsec - 1, HDR + 12 * s.nsec, len(d) - 1, len(d) // 2, r.randrange(0, len(d))))
        b = bytearray(d[:max(0, cut)])
        if len(b) >= HDR and r.random() < 0.8:
            return "raw.trunc+crc", bytes(fix_crc(b))
        return "raw.trunc", bytes(b)
    if x < 0.85:
        b = bytearray(d) + bytes(r.getrandbits(8) for _ in range(r.choice((1, 4, 18, 64, 4096))))
        return "raw.tail+crc", bytes(fix_crc(b))
    if x < 0.93:
        b = bytearray(d)
        at = r.randrange(HDR, len(b)) if len(b) > HDR else 0
        b[at] ^= 1 << r.randrange(8)
        return "raw.badcrc", bytes(b)
    b = bytearray(d)
    f = r.choice((0, 1, 2, 3, 4, 5, 6, 7))
    b[f] ^= 1 << r.randrange(8)
    return "raw.magic", bytes(b)


# ------------------------------------------------------------------------------------------------
# hand-made programs (opcodes by name; table from the dump)
# ------------------------------------------------------------------------------------------------

class Asm:
    """Tiny assembler over the dumped table: items are (name, *operands); an operand '@label' on an I32 slot
    is resolved to the offset relative to the start of its own instruction; ('label', name) defines a label."""

    def __init__(self, isa):
        self.isa = isa

    def code(self, items):
        isa = self.isa
        pos = 0
        labels = {}
        for it in items:
            if it[0] == "label":
                labels[it[1]] = pos
            else:
                pos += isa.ops[isa.by_name[it[0]]][2]
        labels["@end"] = pos
        out = bytearray()
        for it in items:
            if it[0] == "label":
                continue
            here = len(out)
            vals = [labels[v[1:]] - here if isinstance(v, str) and v.startswith("@") and v != "@end" else
                    (labels["@end"] - here if v == "@end" else v) for v in it[1:]]
            out += isa.enc(it[0], vals)
        return bytes(out)

    def module(self, fns, strings=(b"main",), entry=0, flags=1):
        """fns: [(name_idx, arity, locals, upv, items)]"""
        code = bytearray()
        tab = []
        for name_idx, arity, nloc, upv, items in fns:
            c = self.code(items)
            tab.append((name_idx, arity, len(code), len(c), nloc, upv))
            code += c
        secs = [(T_STR, pack_strings(list(strings))), (T_CODE, bytes(code)), (T_FN, pack_fns(tab))]
        return bytes(assemble(flags, entry, secs))


def _need(isa, *names):
    if not isa.has(*names):
        raise KeyError(names)


def craft_divmin(isa, r):
    _need(isa, "PUSH_I64", "DIV", "MOD", "RET", "POP")
    a = Asm(isa)
    shape = r.choice(("int", "int", "arr/arr", "arr/int", "int/arr"))
    op = r.choice(("DIV", "MOD")) if shape == "int" else "DIV"
    x, y = r.choice(((I64_MIN, -1), (I64_MIN, -1), (I64_MIN, 1), (I64_MIN + 1, -1), (-1, I64_MIN), (I64_MIN, 0), (0, -1)))

    def arr(v):
        _need(isa, "ARR_NEW", "ARR_PUSH")
        return [("ARR_NEW", 1), ("PUSH_I64", v), ("ARR_PUSH",)]
    items = []
    if shape == "int":
        items += [("PUSH_I64", x), ("PUSH_I64", y)]
    elif shape == "arr/arr":
        items += arr(x) + arr(y)
    elif shape == "arr/int":
        items += arr(x) + [("PUSH_I64", y)]
    else:
        items += [("PUSH_I64", x)] + arr(y)
    items += [(op,), ("POP",), ("PUSH_I64", 0), ("RET",)]
    return "craft.divmin", a.module([(0, 0, 0, 0, items)])


def craft_deeprec(isa, r):
    _need(isa, "CALL", "RET", "PUSH_I64")
    a = Asm(isa)
    nloc = r.choice((0, 1, 3, 16, 255, 2000))
    arity = r.choice((0, 0, 1, 2))
    nloc = max(nloc, arity)
    # the recursive function sits behind `pad` one-instruction functions: large function tables put large
    # indices into call frames (and make index arithmetic on the frame array visible)
    pad = r.choice((0, 0, 0, 600, 1100, 3000))
    me = 1 + pad
    body = [("PUSH_I64", 7)] * arity + [("CALL", me), ("RET",)]
    how = r.choice(("call", "call", "closure", "indirect"))
    if how == "closure" and isa.has("CLOSURE_NEW", "CLOSURE_CALL"):
        body = [("PUSH_I64", 7)] * arity + [("CLOSURE_NEW", me, 0), ("CLOSURE_CALL",), ("RET",)]
    elif how == "indirect" and isa.has("CLOSURE_NEW", "CALL_INDIRECT"):
        body = [("PUSH_I64", 7)] * arity + [("CLOSURE_NEW", me, 0), ("CALL_INDIRECT",), ("RET",)]
    main = [("PUSH_I64", 1)] * arity + [("CALL", me), ("RET",)]
    fns = [(0, 0, 0, 0, main)] + [(1, 0, 0, 0, [("RET",)])] * pad + [(1, arity, nloc, 0, body)]
    return "craft.deeprec", a.module(fns, strings=(b"main", b"f"))


def craft_selfref(isa, r):
    _need(isa, "ARR_NEW", "DUP", "ARR_PUSH", "RET", "PUSH_I64")
    a = Asm(isa)
    shape = r.choice(("array", "array", "struct", "hashmap"))
    if shape == "struct" and isa.has("STRUCT_LITERAL", "STRUCT_SET"):
        mk = [("PUSH_I64", 1), ("STRUCT_LITERAL", 0, 1), ("DUP",), ("DUP",), ("STRUCT_SET", 0)]
    elif shape == "hashmap" and isa.has("HM_NEW", "HM_SET"):
        mk = [("HM_NEW", 1, 13), ("DUP",), ("PUSH_I64", 1), ("SWAP",), ("HM_SET",)] if isa.has("SWAP") else \
             [("ARR_NEW", 7), ("DUP",), ("DUP",), ("ARR_PUSH",)]
    else:
        mk = [("ARR_NEW", 7), ("DUP",), ("DUP",), ("ARR_PUSH",)]
    use = r.choice(("PRINT", "PRINTLN", "EQ", "POP", "CAST_STRING", "RET", "HM_KEYS", "ADD"))
    tail = []
    if use in ("PRINT", "PRINTLN", "POP", "CAST_STRING", "HM_KEYS") and isa.has(use):
        tail = [(use,)]
    elif use in ("EQ", "ADD") and isa.has(use):
        tail = [("DUP",), (use,)]
    return "craft.selfref", a.module([(0, 0, 0, 0, mk + tail + [("PUSH_I64", 0), ("RET",)])])


def craft_deepnest(isa, r):
    _need(isa, "ARR_NEW", "SWAP", "ARR_PUSH", "JMP", "RET")
    a = Asm(isa)
    shape = r.choice(("array", "array", "tuple", "struct", "union", "closure"))
    if shape == "tuple" and isa.has("TUPLE_NEW"):
        wrap = [("TUPLE_NEW", 1)]
    elif shape == "struct" and isa.has("STRUCT_LITERAL"):
        wrap = [("STRUCT_LITERAL", 0, 1)]
    elif shape == "union" and isa.has("UNION_CONSTRUCT"):
        wrap = [("UNION_CONSTRUCT", 0, 0, 1)]
    elif shape == "closure" and isa.has("CLOSURE_NEW"):
        wrap = [("CLOSURE_NEW", 0, 1)]
    else:
        wrap = [("ARR_NEW", 7), ("SWAP",), ("ARR_PUSH",)]
    depth = r.choice((10, 100, 1000, 5000, 20000, None))
    items = [("ARR_NEW", 1)]
    if depth is None or not isa.has("LOAD_LOCAL", "STORE_LOCAL", "SUB", "JMP_FALSE"):
        # unbounded: runs until the fuel is gone, the nest is released by vm_destroy
        items += [("label", "top")] + wrap + [("JMP", "@top")]
        nloc = 0
    else:
        # the accumulator lives in local 1: L0 = depth, L1 = nest
        items = [("PUSH_I64", depth), ("STORE_LOCAL", 0), ("ARR_NEW", 1), ("STORE_LOCAL", 1),
                 ("label", "top"), ("LOAD_LOCAL", 0), ("JMP_FALSE", "@done"),
                 ("LOAD_LOCAL", 0), ("PUSH_I64", 1), ("SUB",), ("STORE_LOCAL", 0),
                 ("LOAD_LOCAL", 1)] + wrap + [("STORE_LOCAL", 1), ("JMP", "@top"), ("label", "done"), ("LOAD_LOCAL", 1)]
        use = r.choice(("PRINT", "POP", "RET", "EQ", "CAST_STRING"))
        if use in ("PRINT", "POP", "CAST_STRING") and isa.has(use):
            items += [(use,)]
        elif use == "EQ" and isa.has("EQ", "DUP"):
            items += [("DUP",), ("EQ",)]
        items += [("PUSH_I64", 0), ("RET",)]
        nloc = 2
    return "craft.deepnest", a.module([(0, 0, nloc, 0, items)])


def craft_counts(isa, r):
    _need(isa, "RET", "PUSH_I64")
    a = Asm(isa)
    cands = [n for n in ("TUPLE_NEW", "ARR_LITERAL", "STRUCT_LITERAL", "UNION_CONSTRUCT", "CLOSURE_NEW") if isa.has(n)]
    if not cands:
        raise KeyError("counts")
    name = r.choice(cands)
    cnt = r.choice((0, 1, 2, 3, 255, 256, 4095, 4096, 4097, 32767, 32768, 32769, 65534, 65535))
    pre = [("PUSH_I64", i) for i in range(r.choice((0, 1, 2, 3, 5)))]
    kinds = isa.ops[isa.by_name[name]][1]
    vals = [cnt if k == "U16" else (r.choice(U8_B) if k == "U8" else 0) for k in kinds]
    if name == "UNION_CONSTRUCT":
        vals = [0, r.choice((0, 1, 65535)), cnt]
    # the accessor that belongs to the constructor, index at the boundaries of the count just used
    idx = r.choice((0, max(0, cnt - 1), cnt, cnt, min(65535, cnt + 1), 65535))
    acc = {"TUPLE_NEW": [[("TUPLE_GET", idx)]],
           "STRUCT_LITERAL": [[("STRUCT_GET", idx)], [("PUSH_I64", 5), ("STRUCT_SET", idx)]],
           "UNION_CONSTRUCT": [[("UNION_FIELD", idx)], [("UNION_TAG",)]],
           "ARR_LITERAL": [[("PUSH_I64", idx), ("ARR_GET",)], [("PUSH_I64", idx), ("PUSH_I64", 7), ("ARR_SET",)], [("PUSH_I64", idx), ("ARR_REMOVE",)], [("ARR_LEN",)]],
           "CLOSURE_NEW": [[("CLOSURE_CALL",)], [("CALL_INDIRECT",)]]}[name]
    if r.random() < 0.7:
        follow = r.choice(acc)
    else:
        follow = r.choice(([], [("PRINT",)], [("POP",)], [("DUP",), ("EQ",)]))
    follow = [f for f in follow if isa.has(f[0])]
    return "craft.counts", a.module([(0, 0, 0, 0, pre + [tuple([name] + vals)] + follow + [("PUSH_I64", 0), ("RET",)])])


def craft_strings(isa, r):
    _need(isa, "PUSH_STR", "DUP", "ADD", "RET", "PUSH_I64")
    a = Asm(isa)
    strs = (b"main", r.choice((b"a", b"", b"ab\0cd", b"x" * 255, b"%s%n", bytes(range(1, 256)))), b"b")
    k = r.choice((0, 1, 5, 10, 16, 20, 22))
    while k and (len(strs[1]) << k) > (1 << 24):        # keep the doubled string below 16 MiB
        k -= 1
    items = [("PUSH_STR", 1)] + [("DUP",), ("ADD",)] * k
    use = r.choice(("STR_SUBSTR", "STR_SUBSTR", "STR_CHAR_AT", "STR_CONTAINS", "STR_EQ", "STR_LEN", "CAST_INT", "CAST_FLOAT", "PRINT", "STR_CONCAT"))
    if not isa.has(use):
        use = "PRINT"
    if use == "STR_SUBSTR":
        items += [("PUSH_I64", r.choice(I64_B)), ("PUSH_I64", r.choice(I64_B)), (use,)]
    elif use == "STR_CHAR_AT":
        items += [("PUSH_I64", r.choice(I64_B)), (use,)]
    elif use in ("STR_CONTAINS", "STR_EQ", "STR_CONCAT"):
        items += [("PUSH_STR", r.choice((0, 1, 2))), (use,)]
    else:
        items += [(use,)]
    items += [("PUSH_I64", 0), ("RET",)]
    return "craft.strings", a.module([(0, 0, 0, 0, items)], strings=strs)


def craft_arrays(isa, r):
    _need(isa, "ARR_NEW", "ARR_PUSH", "PUSH_I64", "RET")
    a = Asm(isa)
    n = r.choice((0, 1, 7, 8, 9, 100))
    items = [("ARR_NEW", r.choice(U8_B))]
    for i in range(n):
        items += [("PUSH_I64", i), ("ARR_PUSH",)]
    use = r.choice(("ARR_GET", "ARR_SET", "ARR_REMOVE", "ARR_SLICE", "ARR_POP", "ARR_LEN", "ADD", "SUB", "MUL", "DIV"))
    if not isa.has(use):
        use = "ARR_LEN"
    b1, b2 = r.choice(I64_B + [n, n - 1, n + 1]), r.choice(I64_B + [n, n - 1, n + 1])
    reps = r.choice((1, 1, 2, 12))
    if use in ("ARR_GET", "ARR_REMOVE"):
        body = [("DUP",), ("PUSH_I64", b1), (use,), ("POP",)] if use == "ARR_GET" else [("PUSH_I64", b1), (use,)]
    elif use == "ARR_SET":
        body = [("PUSH_I64", b1), ("PUSH_I64", b2), (use,)]
    elif use == "ARR_SLICE":
        body = [("DUP",), ("PUSH_I64", b1), ("PUSH_I64", b2), (use,), ("POP",)]
    elif use == "ARR_POP":
        body = [(use,), ("SWAP",), ("POP",)] if isa.has("SWAP") else [(use,)]
    elif use == "ARR_LEN":
        body = [("DUP",), (use,), ("POP",)]
    else:
        body = [("DUP",), (use,)]
    if not isa.has("DUP", "POP"):
        raise KeyError("dup/pop")
    items += body * reps + [("PRINT",) if isa.has("PRINT") else ("POP",), ("PUSH_I64", 0), ("RET",)]
    return "craft.arrays", a.module([(0, 0, 0, 0, items)])


def craft_control(isa, r):
    _need(isa, "JMP", "RET", "PUSH_I64", "CALL")
    a = Asm(isa)
    shape = r.choice(("jmp_end", "fall", "self", "mid", "callee_fall", "ret_empty", "halt", "jmp_true_end"))
    callee = [("PUSH_I64", 5), ("RET",)]
    if shape == "jmp_end":
        main = [("PUSH_I64", 1), ("JMP", "@end")]
    elif shape == "fall":
        main = [("PUSH_I64", 1), ("PUSH_I64", 2)]
    elif shape == "self":
        main = [("label", "l"), ("JMP", "@l")]
    elif shape == "mid":
        # a jump into the operand bytes of the next instruction (undefined opcode bytes there): the verifier only
        # range-checks the target, the VM must answer with a decode error that is NOT on the verifier's walk
        jl = isa.ops[isa.by_name["JMP"]][2]
        ub = isa.undefined[0] if isa.undefined else 0xEE
        main = [("JMP", jl + 1 + r.randrange(8)), ("PUSH_I64", int.from_bytes(bytes([ub]) * 8, "little")), ("RET",)]
    elif shape == "callee_fall":
        main = [("CALL", 1), ("PUSH_I64", 3), ("RET",)]
        callee = [("PUSH_I64", 5)]
    elif shape == "ret_empty":
        main = [("RET",)]
    elif shape == "halt" and isa.has("HALT"):
        main = [("CALL", 1), ("HALT",)]
        callee = [("HALT",)]
    else:
        main = [("PUSH_I64", 1), ("JMP_TRUE", "@end")] if isa.has("JMP_TRUE") else [("RET",)]
    return "craft.control", a.module([(0, 0, 0, 0, main), (1, 0, 0, 0, callee)], strings=(b"main", b"g"))


def craft_frames(isa, r):
    _need(isa, "CALL", "RET", "PUSH_I64", "LOAD_LOCAL", "STORE_LOCAL")
    a = Asm(isa)
    arity = r.choice((0, 1, 2, 3, 255, 4095, 4096, 4097, 65535))
    nloc = r.choice((arity, arity, min(65535, arity + 1), 65535, max(0, arity - 1), 0))
    npush = r.choice((0, 1, 2, 3))
    slot = r.choice((0, 1, max(0, nloc - 1), max(0, arity - 1)))
    body = []
    if nloc > slot:
        body += r.choice(([("LOAD_LOCAL", slot), ("POP",)] if isa.has("POP") else [("LOAD_LOCAL", slot)],
                          [("PUSH_I64", 9), ("STORE_LOCAL", slot)],
                          [("LOAD_LOCAL", slot), ("STORE_LOCAL", slot)]))
    body += r.choice(([("RET",)], [("PUSH_I64", 1), ("RET",)], [], [("POP",)] * r.choice((1, 3, 9)) + [("RET",)] if isa.has("POP") else [("RET",)]))
    main = [("PUSH_I64", i) for i in range(npush)] + [("CALL", 1)] + r.choice(([], [("POP",)] if isa.has("POP") else [], [("PRINT",)] if isa.has("PRINT") else [])) + [("PUSH_I64", 0), ("RET",)]
    return "craft.frames", a.module([(0, 0, r.choice((0, 2)), 0, main), (1, arity, nloc, 0, body)], strings=(b"main", b"g"))


def craft_globals(isa, r):
    _need(isa, "LOAD_GLOBAL", "STORE_GLOBAL", "PUSH_I64", "RET")
    a = Asm(isa)
    g = r.choice((0, 1, 4094, 4095, 4096, 4097, 65535, 0x7FFFFFFF, 0x80000000, 0xFFFFFFFF))
    val = r.choice(([("PUSH_I64", 3)], [("PUSH_STR", 0)] if isa.has("PUSH_STR") else [("PUSH_I64", 1)], [("ARR_NEW", 1)] if isa.has("ARR_NEW") else [("PUSH_I64", 2)]))
    items = val + [("STORE_GLOBAL", g), ("LOAD_GLOBAL", g), ("LOAD_GLOBAL", r.choice((g, 0, 4095)))] + val + [("STORE_GLOBAL", g), ("PUSH_I64", 0), ("RET",)]
    with_init = r.random() < 0.5
    fns = [(0, 0, 0, 0, items)]
    strs = [b"main"]
    if with_init:
        fns.append((1, 0, 0, 0, val + [("STORE_GLOBAL", r.choice((0, g, 4095))), ("RET",)]))
        strs.append(b"__init__")
    return "craft.globals", a.module(fns, strings=tuple(strs))


def craft_closures(isa, r):
    _need(isa, "CLOSURE_NEW", "CLOSURE_CALL", "LOAD_UPVALUE", "STORE_UPVALUE", "RET", "PUSH_I64")
    a = Asm(isa)
    ncap = r.choice((0, 1, 2, 3))
    upv = r.choice((ncap, ncap + 1, 0, 65535))
    d = r.choice((0, max(0, upv - 1)))       # the verifier compares the first operand with upvalue_count
    idx = r.choice((0, 1, ncap, max(0, ncap - 1), 65535))
    body = r.choice(([("LOAD_UPVALUE", d, idx), ("RET",)], [("PUSH_I64", 4), ("STORE_UPVALUE", d, idx), ("PUSH_I64", 0), ("RET",)],
                     [("LOAD_UPVALUE", d, idx), ("STORE_UPVALUE", d, idx), ("LOAD_UPVALUE", d, idx), ("RET",)]))
    caps = [r.choice((("PUSH_I64", 1), ("PUSH_STR", 0) if isa.has("PUSH_STR") else ("PUSH_I64", 2), ("ARR_NEW", 1) if isa.has("ARR_NEW") else ("PUSH_I64", 3)))
            for _ in range(ncap)]
    call = r.choice(("CLOSURE_CALL", "CALL_INDIRECT" if isa.has("CALL_INDIRECT") else "CLOSURE_CALL"))
    main = caps + [("CLOSURE_NEW", 1, ncap)] + r.choice(([], [("DUP",)] if isa.has("DUP") else [])) + [(call,)]
    main += r.choice(([], [("POP",)] if isa.has("POP") else [], [("PRINT",)] if isa.has("PRINT") else [])) + [("PUSH_I64", 0), ("RET",)]
    if upv == 0:
        body = [("PUSH_I64", 1), ("RET",)]
    return "craft.closures", a.module([(0, 0, 0, 0, main), (1, 0, 0, upv, body)], strings=(b"main", b"c"))


def craft_hashmap(isa, r):
    _need(isa, "HM_NEW", "HM_SET", "HM_GET", "PUSH_I64", "RET", "DUP", "POP")
    a = Asm(isa)
    n = r.choice((0, 1, 12, 13, 40))
    items = [("HM_NEW", r.choice(U8_B), r.choice(U8_B))]
    for i in range(n):
        key = r.choice((("PUSH_I64", r.choice(I64_B + [i])), ("PUSH_STR", r.choice((0, 1))) if isa.has("PUSH_STR") else ("PUSH_I64", i),
                        ("PUSH_BOOL", i & 1) if isa.has("PUSH_BOOL") else ("PUSH_I64", i), ("PUSH_VOID",) if isa.has("PUSH_VOID") else ("PUSH_I64", i),
                        ("PUSH_F64", r.choice((0.0, 1.5, float("nan")))) if isa.has("PUSH_F64") else ("PUSH_I64", i)))
        items += [key, ("PUSH_I64", i), ("HM_SET",)]
    for use in r.sample(("HM_GET", "HM_HAS", "HM_DELETE", "HM_KEYS", "HM_VALUES", "HM_LEN"), 3):
        if not isa.has(use):
            continue
        if use in ("HM_GET", "HM_HAS"):
            items += [("DUP",), ("PUSH_I64", r.choice(I64_B)), (use,), ("POP",)]
        elif use == "HM_DELETE":
            items += [("PUSH_I64", r.choice(I64_B + [0, 1, 2])), (use,)]
        else:
            items += [("DUP",), (use,), ("PRINT",) if isa.has("PRINT") else ("POP",)]
    items += [("POP",), ("PUSH_I64", 0), ("RET",)]
    return "craft.hashmap", a.module([(0, 0, 0, 0, items)], strings=(b"main", b"k"))


def craft_random(isa, r):
    """A random straight-line/jumping program over the whole dumped table, operands at boundaries, jumps on
    instruction boundaries (so the verifier accepts most of them and the handlers get exercised)."""
    _need(isa, "RET", "PUSH_I64")
    nfn = r.choice((1, 1, 2, 3))
    strs = [b"main", b"f1", b"f2", b"", b"str", b"a\0b"][:max(3, nfn + 2)]
    pushes = [n for n in ("PUSH_I64", "PUSH_F64", "PUSH_BOOL", "PUSH_STR", "PUSH_VOID", "PUSH_U8", "ARR_NEW", "HM_NEW", "OPAQUE_NULL", "DUP") if isa.has(n)]
    skip = {isa.by_name[n] for n in ("CALL_EXTERN", "HALT") if isa.has(n)}
    fns = []
    code = bytearray()
    for fi in range(nfn):
        arity = r.choice((0, 0, 1, 2)) if fi else 0
        nloc = arity + r.choice((0, 1, 2, 4))
        upv = r.choice((0, 0, 2))
        n = r.randint(3, 40)
        ins = []
        for _ in range(n):
            if r.random() < 0.35:
                op = isa.by_name[r.choice(pushes)]
            else:
                op = r.choice(isa.defined)
                if op in skip:
                    op = isa.by_name["PUSH_I64"]
            vals = []
            name = isa.ops[op][0]
            for k in isa.ops[op][1]:
                if k == "I32":
                    vals.append(0)
                elif k == "I64":
                    vals.append(r.choice(I64_B + [0, 1, 2, 3]))
                elif k == "F64":
                    vals.append(int.from_bytes(struct.pack("<d", r.choice(F64_B)), "little"))
                elif k == "U8":
                    vals.append(r.choice(U8_B + [1, 1, 5, 7]))
                elif k == "U16":
                    mx = nloc if "LOCAL" in name else (upv if "UPVALUE" in name else r.choice((1, 2, 3, 4)))
                    vals.append(r.randrange(mx) if mx and r.random() < 0.85 else r.choice((0, 1, 2, mx, 65535)))
                else:
                    mx = nfn if ("CALL" in name or "CLOSURE" in name) else (len(strs) if "STR" in name else r.choice((1, 4, 4096)))
                    vals.append(r.randrange(mx) if r.random() < 0.85 else r.choice((0, mx - 1, mx, 0xFFFFFFFF)))
            ins.append(Ins(op, vals))
        ins.append(Ins(isa.by_name["RET"], []))
        for i in ins:
            if "I32" in isa.ops[i.op][1]:
                i.tgt = r.choice(ins + [END]) if r.random() < 0.9 else None
                if i.tgt is None:
                    i.vals[isa.ops[i.op][1].index("I32")] = r.choice((1, -1, 3, 0x7FFFFFFF))
        c = encode_fn(isa, ins)
        fns.append((min(fi, len(strs) - 1), arity, len(code), len(c), nloc, upv))
        code += c
    secs = [(T_STR, pack_strings(strs)), (T_CODE, bytes(code)), (T_FN, pack_fns(fns))]
    return "craft.random", bytes(assemble(1, 0, secs))


def craft_hidden(isa, r):
    """"Hidden instruction": the verifier range-checks a jump target but not its alignment, so a jump to the FIRST
    IMMEDIATE BYTE of a PUSH_I64 / PUSH_F64 makes the VM execute bytes the verifier never decoded.  The immediate spells
    `<opcode> <operands at boundary values>` (any opcode of the dumped table that fits, or that spills over into the
    following code), padded with operand-less opcodes.  Verifier-accepted by construction as long as misaligned targets
    are accepted; the VM's own run-time checks are all that stands between these operands and memory."""
    _need(isa, "PUSH_I64", "JMP", "RET")
    carrier = r.choice([n for n in ("PUSH_I64", "PUSH_F64") if isa.has(n)])
    pads = [isa.by_name[n] for n in ("NOP", "POP", "HALT", "RET") if isa.has(n)] or isa.zero[:1]
    nfn, strs = 2, [b"main", b"g", b"s"]
    nloc = r.choice((0, 1, 2, 3))
    # ---- the hidden bytes --------------------------------------------------------------------
    hid = bytearray()
    hidden_names = []
    at = r.choice((0, 0, 0, 0, 1, 2, 3, 5, 7))
    hid += bytes(r.choice(pads) if r.random() < 0.7 else isa.by_name.get("NOP", pads[0]) for _ in range(at))
    while len(hid) < 8:
        cand = [op for op in isa.defined if isa.ops[op][1]]
        if r.random() < 0.85:
            cand = [op for op in cand if len(hid) + isa.ops[op][2] <= 8] or cand
        if r.random() < 0.5:
            # operands that index a table or a frame (the ones a verifier checks statically)
            cand = [op for op in cand if "U32" in isa.ops[op][1] or "U16" in isa.ops[op][1]] or cand
        op = r.choice(cand)
        name, kinds, ln = isa.ops[op]
        vals = []
        for k in kinds:
            if k == "U32":
                mx = r.choice((nfn, len(strs), 0, 1, 4096, 32, 64))
                vals.append(r.choice(boundaries(mx, 4) + [31, 32, 33, 40, 63, 64, 65, 0x7FFFFFF0, 0x0FFFFFFF, 0x10000000]))
            elif k == "U16":
                mx = r.choice((nloc, 1, 2, 3, 256, 4096))
                vals.append(r.choice(boundaries(mx, 2) + [255, 256, 4095, 4096, 4097]))
            elif k == "I32":
                vals.append(r.choice((0x7FFFFFFF, -0x80000000, -1, -2, 1, 2, 0x7FFFFFF0, -0x7FFFFFF0, 0x10000, -0x10000, r.randrange(-64, 65))))
            elif k == "U8":
                vals.append(r.choice(U8_B))
            elif k == "F64":
                vals.append(int.from_bytes(struct.pack("<d", r.choice(F64_B)), "little"))
            else:
                vals.append(r.choice(I64_B))
        hid += isa.enc(op, vals)
        hidden_names.append(name)
        if len(hid) < 8 and r.random() < 0.6:
            hid += bytes(r.choice(pads) for _ in range(8 - len(hid)))
    imm = bytes(hid[:8])                        # a hidden instruction that does not fit takes the rest of its operands from
    #                                             the real code behind the carrier: the stream stays misaligned
    # ---- values for the hidden instruction to work on -----------------------------------------
    setup = bytearray()
    for _ in range(r.choice((0, 1, 2, 3))):
        c = r.choice(("int", "str", "arr", "tuple", "struct", "union", "closure", "bool"))
        if c == "str" and isa.has("PUSH_STR"):
            setup += isa.enc("PUSH_STR", [r.randrange(len(strs))])
        elif c == "arr" and isa.has("ARR_NEW"):
            setup += isa.enc("ARR_NEW", [1])
        elif c == "tuple" and isa.has("TUPLE_NEW"):
            setup += isa.enc("PUSH_I64", [5]) + isa.enc("TUPLE_NEW", [1])
        elif c == "struct" and isa.has("STRUCT_LITERAL"):
            setup += isa.enc("PUSH_I64", [5]) + isa.enc("STRUCT_LITERAL", [0, 1])
        elif c == "union" and isa.has("UNION_CONSTRUCT"):
            setup += isa.enc("PUSH_I64", [5]) + isa.enc("UNION_CONSTRUCT", [0, 1, 1])
        elif c == "closure" and isa.has("CLOSURE_NEW"):
            setup += isa.enc("CLOSURE_NEW", [1, 0])
        elif c == "bool" and isa.has("PUSH_BOOL"):
            setup += isa.enc("PUSH_BOOL", [1])
        else:
            setup += isa.enc("PUSH_I64", [r.choice(I64_B)])
    # ---- the jump to the first immediate byte -------------------------------------------------
    jn = r.choice([n for n in ("JMP", "JMP", "JMP_TRUE", "JMP_FALSE", "MATCH_TAG") if isa.has(n)])
    pre = b""
    if jn == "JMP_TRUE":
        pre = isa.enc("PUSH_I64", [1])
    elif jn == "JMP_FALSE":
        pre = isa.enc("PUSH_I64", [0])
    elif jn == "MATCH_TAG":
        if not isa.has("UNION_CONSTRUCT"):
            jn = "JMP"
        else:
            pre = isa.enc("UNION_CONSTRUCT", [0, 3, 0])
    jl = isa.ops[isa.by_name[jn]][2]
    between = b"".join(isa.enc("PUSH_I64", [r.choice(I64_B)]) for _ in range(r.choice((0, 0, 1))))   # skipped by the jump
    off = jl + len(between) + 1                 # from the start of the jump to the carrier's first immediate byte
    jump = isa.enc(jn, [3, off] if jn == "MATCH_TAG" else [off])
    tailshape = r.choice(("ret", "ret", "code", "end", "overlap"))
    tail = b"" if tailshape in ("end", "overlap") else isa.enc("RET")
    if tailshape == "code":
        tail = b"".join(isa.enc("PUSH_I64", [r.choice(I64_B)]) for _ in range(2)) + isa.enc("RET")
    body0 = bytes(setup) + pre + jump + between + bytes([isa.by_name[carrier]]) + imm + tail
    # the function behind it: what a stream that runs off a carrier at the end of main decodes next
    body1 = b"".join(isa.enc("PUSH_I64", [r.choice(I64_B)]) for _ in range(r.choice((1, 2)))) + isa.enc("RET")
    len0 = len(body0) + (len(body1) if tailshape == "overlap" else 0)      # overlap: main's range covers g's code too
    fns = [(0, 0, 0, len0, nloc, r.choice((0, 0, 2))), (1, r.choice((0, 0, 1)), len(body0), len(body1), r.choice((0, 1, 2)), 0)]
    secs = [(T_STR, pack_strings(strs)), (T_CODE, body0 + body1), (T_FN, pack_fns(fns))]
    return "craft.hidden", bytes(assemble(1, 0, secs))


CRAFT = [(craft_random, 40), (craft_divmin, 3), (craft_deeprec, 3), (craft_selfref, 3), (craft_deepnest, 3), (craft_counts, 4),
         (craft_strings, 5), (craft_arrays, 5), (craft_control, 3), (craft_frames, 5), (craft_globals, 3), (craft_closures, 4),
         (craft_hashmap, 4), (craft_hidden, 18)]


def _wchoice(r, table):
    tot = sum(w for _, w in table)
    x = r.random() * tot
    for f, w in table:
        x -= w
        if x < 0:
            return f
    return table[-1][0]


class Fuzzer:
    """case(r) -> (kind, bytes).  Shares: 62 % structure-aware mutation of a seed (half in place: 1-3 stacked
    patches; half rebuilding), 8 % raw byte strings / truncations, 30 % hand-made programs."""

    def __init__(self, isa, seed_blobs):
        self.isa = isa
        self.seeds = []
        self.rejected = 0
        for name, data in seed_blobs:
            try:
                self.seeds.append(Seed(data, isa, name))
            except (ValueError, struct.error):
                self.rejected += 1
        # modules without imports are executed by the oracle: prefer them 3:1
        self.pick = [s for s in self.seeds for _ in range(1 if s.imports else 3)]
        self.craft_skipped = set()

    def control(self, s):
        """The seed re-assembled by this module (validates layout + CRC assumptions)."""
        return "control.reassembled", bytes(assemble(s.flags, s.entry, s.payloads()))

    def case(self, r):
        x = r.random()
        if x < 0.08 or not self.pick:
            if self.pick:
                return raw_case(self.pick, r)
            return "raw.random", bytes(r.getrandbits(8) for _ in range(r.randrange(0, 600)))
        if x < 0.38:
            for _ in range(20):
                f = _wchoice(r, CRAFT)
                if f in self.craft_skipped:
                    continue
                try:
                    return f(self.isa, r)
                except KeyError:
                    self.craft_skipped.add(f)
            return raw_case(self.pick, r)
        s = r.choice(self.pick)
        if x < 0.69:
            b = bytearray(s.data)
            kinds = []
            for _ in range(r.choice((1, 1, 1, 2, 2, 3))):
                k = _wchoice(r, INPLACE)(s, b, r)
                if k:
                    kinds.append(k)
            if not kinds:
                kinds.append(m_bytes(s, b, r) or "bytes.rand")
            return "+".join(sorted(set(kinds))), bytes(fix_crc(b))
        for _ in range(8):
            res = _wchoice(r, REBUILD)(s, r, self.pick)
            if res:
                kind, b = res
                if r.random() < 0.25:
                    # one more in-place patch on top of the rebuilt module
                    try:
                        s2 = Seed(bytes(b), self.isa)
                        b2 = bytearray(s2.data)
                        k2 = _wchoice(r, INPLACE)(s2, b2, r)
                        if k2:
                            return kind + "+" + k2, bytes(fix_crc(b2))
                    except (ValueError, struct.error):
                        pass
                return kind, bytes(b)
        b = bytearray(s.data)
        return m_bytes(s, b, r) or "bytes.rand", bytes(fix_crc(b))
