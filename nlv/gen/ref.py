"""Reference evaluator: an executable transcription of docs/SPECIFICATION.md §4-§8 over the generator's AST
(DESIGN §3.2).  Strict left-to-right evaluation of operands and arguments, short-circuit and/or, static
scoping with block shadowing, immutable by default, 64-bit wrapping integers, truncating division.
Builtins follow docs/STDLIB.md and are only defined inside the documented domain; anything else is a Fault.
"""
M64 = 1 << 64
I64_MAX = (1 << 63) - 1
I64_MIN = -(1 << 63)


class Fault(Exception):
    """A documented run-time fault (or an undefined partial operation)."""

    def __init__(self, kind, detail=""):
        Exception.__init__(self, "%s %s" % (kind, detail))
        self.kind = kind


class Budget(Exception):
    pass


class _Return(Exception):
    def __init__(self, v):
        self.v = v


class _Break(Exception):
    pass


class _Continue(Exception):
    pass


def wrap(x):
    x &= M64 - 1
    return x - M64 if x >= (1 << 63) else x


def tdiv(a, b):
    q = abs(a) // abs(b)
    return -q if (a < 0) != (b < 0) else q


def tmod(a, b):
    return a - tdiv(a, b) * b


def fmt(v):
    if v is True:
        return "true"
    if v is False:
        return "false"
    if isinstance(v, int):
        return str(v)
    if isinstance(v, str):
        return v
    raise Fault("unprintable", repr(v)[:40])


class Env:
    __slots__ = ("scopes",)

    def __init__(self):
        self.scopes = [{}]

    def push(self):
        self.scopes.append({})

    def pop(self):
        self.scopes.pop()

    def declare(self, name, v, mut):
        self.scopes[-1][name] = [v, mut]

    def cell(self, name):
        for s in reversed(self.scopes):
            if name in s:
                return s[name]
        return None


class Interp:
    def __init__(self, prog, max_steps=1000000, max_depth=400, max_out=4 << 20, max_str=1 << 20):
        self.prog = prog
        self.funcs = {f.name: f for f in prog.all_funcs()}
        self.unions = {}
        self.enums = {}
        mods = list(prog.modules) + [prog.main]
        for m in mods:
            for n, vs in m.unions:
                self.unions[n] = dict((v, [f for f, _ in fs]) for v, fs in vs)
            for n, vs in m.enums:
                self.enums[n] = dict(vs)
        self.globals = {}
        self.steps = 0
        self.max_steps = max_steps
        self.depth = 0
        self.max_depth = max_depth
        self.max_depth_seen = 0
        self.out = []
        self.out_len = 0
        self.max_out = max_out
        self.max_str = max_str
        self.overflowed = False
        self.asserts = []        # truth values of executed assertions (in the current run)
        self.builtins_used = set()
        for m in mods:
            for n, t, mut, e in m.globals:
                self.globals[n] = [self.ev(e, Env()), mut]

    # ---- helpers ----------------------------------------------------------
    def tick(self):
        self.steps += 1
        if self.steps > self.max_steps:
            raise Budget("steps")

    def emit(self, s):
        self.out.append(s)
        self.out_len += len(s)
        if self.out_len > self.max_out:
            raise Budget("output")

    def arith(self, op, a, b):
        if isinstance(a, float) or isinstance(b, float):
            if op == "+":
                return a + b
            if op == "-":
                return a - b
            if op == "*":
                return a * b
            if op == "/":
                if b == 0.0:
                    raise Fault("fdiv0")
                return a / b
            raise Fault("float-mod")
        if isinstance(a, str):
            if op != "+":
                raise Fault("string-arith")
            r = a + b
            if len(r) > self.max_str:
                raise Budget("string")
            return r
        if op == "+":
            r = a + b
        elif op == "-":
            r = a - b
        elif op == "*":
            r = a * b
        elif op in ("/", "%"):
            if b == 0:
                raise Fault("div0")
            r = tdiv(a, b) if op == "/" else tmod(a, b)
        else:
            raise ValueError(op)
        w = wrap(r)
        if w != r:
            self.overflowed = True
        return w

    def compare(self, op, a, b):
        if op == "==":
            return self.equal(a, b)
        if op == "!=":
            return not self.equal(a, b)
        if isinstance(a, (str, bool)) or isinstance(a, tuple):
            raise Fault("ordered-compare-on-non-number")
        if op == "<":
            return a < b
        if op == "<=":
            return a <= b
        if op == ">":
            return a > b
        return a >= b

    def equal(self, a, b):
        if isinstance(a, tuple) and a and a[0] == "E":
            return a[3] == b[3]
        if isinstance(a, (list, dict)):
            raise Fault("aggregate-equality")
        return a == b

    # ---- expressions ------------------------------------------------------
    def ev(self, x, env):
        self.tick()
        k = x[0]
        if k in ("int", "bool", "str", "float"):
            return x[1]
        if k == "var":
            c = env.cell(x[1])
            if c is None:
                c = self.globals.get(x[1])
            if c is None:
                if x[1] in self.funcs:
                    return ("F", x[1])
                raise Fault("unbound", x[1])
            return c[0]
        if k == "fnref":
            return ("F", x[1])
        if k == "bin":
            op = x[1]
            if op == "and":
                a = self.ev(x[2], env)
                if not a:
                    return False
                return bool(self.ev(x[3], env))
            if op == "or":
                a = self.ev(x[2], env)
                if a:
                    return True
                return bool(self.ev(x[3], env))
            a = self.ev(x[2], env)
            b = self.ev(x[3], env)
            if op in ("+", "-", "*", "/", "%"):
                return self.arith(op, a, b)
            return self.compare(op, a, b)
        if k == "un":
            a = self.ev(x[2], env)
            if x[1] == "not":
                return not a
            if isinstance(a, float):
                return -a
            r = wrap(-a)
            if r != -a:
                self.overflowed = True
            return r
        if k == "call":
            args = [self.ev(a, env) for a in x[2]]
            f = self.funcs.get(x[1])
            if f is not None:
                return self.call(f, args)
            # a local/global variable holding a function value is called by name too
            c = env.cell(x[1]) or self.globals.get(x[1])
            if c is not None and isinstance(c[0], tuple) and c[0][0] == "F":
                return self.call(self.funcs[c[0][1]], args)
            return self.builtin(x[1], args)
        if k == "callv":
            fv = self.ev(x[1], env)
            args = [self.ev(a, env) for a in x[2]]
            return self.call(self.funcs[fv[1]], args)
        if k == "cond":
            for c, v in x[1]:
                if self.ev(c, env):
                    return self.ev(v, env)
            return self.ev(x[2], env)
        if k == "arr":
            return [self.ev(a, env) for a in x[2]]
        if k == "structlit":
            return {"__s": x[1], **{f: self.ev(v, env) for f, v in x[2]}}
        if k == "field":
            o = self.ev(x[1], env)
            if isinstance(o, tuple) and o[0] == "U":
                return o[3][x[2]]
            return o[x[2]]
        if k == "tuple":
            return ("T",) + tuple(self.ev(a, env) for a in x[1])
        if k == "tidx":
            return self.ev(x[1], env)[1 + x[2]]
        if k == "enumv":
            return ("E", x[1], x[2], self.enums[x[1]][x[2]])
        if k == "unionlit":
            return ("U", x[1], x[2], {f: self.ev(v, env) for f, v in x[3]})
        if k == "matche":
            u = self.ev(x[1], env)
            for v, b, a in x[2]:
                if v == u[2]:
                    env.push()
                    try:
                        env.declare(b, u, False)
                        return self.ev(a, env)
                    finally:
                        env.pop()
            raise Fault("match-nonexhaustive")
        raise ValueError(k)

    def call(self, f, args):
        self.depth += 1
        if self.depth > self.max_depth_seen:
            self.max_depth_seen = self.depth
        if self.depth > self.max_depth:
            raise Budget("depth")
        env = Env()
        for (n, t), v in zip(f.params, args):
            env.declare(n, v, False)
        try:
            self.block(f.body, env, new_scope=False)
        except _Return as r:
            return r.v
        finally:
            self.depth -= 1
        if f.ret == "void":
            return None
        raise Fault("missing-return", f.name)

    def builtin(self, name, a):
        self.builtins_used.add(name)
        if name == "abs":
            r = -a[0] if a[0] < 0 else a[0]
            if isinstance(r, int) and wrap(r) != r:
                self.overflowed = True
                return wrap(r)
            return r
        if name == "min":
            return a[0] if a[0] <= a[1] else a[1]
        if name == "max":
            return a[0] if a[0] >= a[1] else a[1]
        if name == "str_length":
            return len(a[0].encode("utf-8", "surrogateescape"))
        if name == "str_concat":
            r = a[0] + a[1]
            if len(r) > self.max_str:
                raise Budget("string")
            return r
        if name == "str_substring":
            s, st, ln = a
            if ln < 0 or st < 0:
                raise Fault("substring-negative")
            if st > len(s):
                raise Fault("substring-start-out-of-bounds")   # documented as "" but kept out of the compared zone
            return s[st:st + ln]
        if name == "str_contains":
            return a[1] in a[0]
        if name == "str_equals":
            return a[0] == a[1]
        if name == "char_at":
            s, i = a
            if i < 0 or i >= len(s):
                raise Fault("oob", "char_at")
            return ord(s[i])
        if name == "string_from_char":
            if not (1 <= a[0] <= 126):
                raise Fault("char-range")
            return chr(a[0])
        if name == "int_to_string":
            return str(a[0])
        if name == "string_to_int":
            s = a[0]
            body = s[1:] if s[:1] == "-" else s
            if not body or not body.isdigit() or len(body) > 18:
                raise Fault("string_to_int-domain")
            return int(s)
        if name == "is_digit":
            return 48 <= a[0] <= 57
        if name == "is_alpha":
            return 65 <= a[0] <= 90 or 97 <= a[0] <= 122
        if name == "is_alnum":
            return 48 <= a[0] <= 57 or 65 <= a[0] <= 90 or 97 <= a[0] <= 122
        if name == "is_whitespace":
            return a[0] in (32, 9, 10, 13)
        if name == "is_upper":
            return 65 <= a[0] <= 90
        if name == "is_lower":
            return 97 <= a[0] <= 122
        if name == "digit_value":
            if not (48 <= a[0] <= 57):
                raise Fault("digit_value-domain")
            return a[0] - 48
        if name == "char_to_lower":
            return a[0] + 32 if 65 <= a[0] <= 90 else a[0]
        if name == "char_to_upper":
            return a[0] - 32 if 97 <= a[0] <= 122 else a[0]
        if name == "at":
            arr, i = a
            if i < 0 or i >= len(arr):
                raise Fault("oob", "at")
            return arr[i]
        if name == "array_length":
            return len(a[0])
        if name == "array_slice":
            arr, st, ln = a
            if st < 0 or ln < 0 or st + ln > len(arr):
                raise Fault("oob", "array_slice")      # only the in-range domain is defined by docs/STDLIB.md
            return list(arr[st:st + ln])
        if name == "array_new":
            if a[0] < 0 or a[0] > 100000:
                raise Fault("array_new-size")
            return [a[1]] * a[0]
        if name == "array_push":
            a[0].append(a[1])
            return a[0]
        if name == "array_set":
            arr, i, v = a
            if i < 0 or i >= len(arr):
                raise Fault("oob", "array_set")
            arr[i] = v
            return None
        if name == "array_pop":
            if not a[0]:
                raise Fault("oob", "array_pop")
            return a[0].pop()
        if name == "array_remove_at":
            arr, i = a
            if i < 0 or i >= len(arr):
                raise Fault("oob", "array_remove_at")
            del arr[i]
            return None
        raise Fault("unknown-builtin", name)

    # ---- statements -------------------------------------------------------
    def block(self, stmts, env, new_scope=True):
        if new_scope:
            env.push()
        try:
            for s in stmts:
                self.st(s, env)
        finally:
            if new_scope:
                env.pop()

    def st(self, x, env):
        self.tick()
        k = x[0]
        if k == "let":
            env.declare(x[1], self.ev(x[4], env), x[3])
        elif k == "set":
            v = self.ev(x[2], env)
            c = env.cell(x[1]) or self.globals.get(x[1])
            if c is None or not c[1]:
                raise Fault("set-immutable", x[1])
            c[0] = v
        elif k == "if":
            if self.ev(x[1], env):
                self.block(x[2], env)
            elif x[3] is not None:
                self.block(x[3], env)
        elif k == "while":
            while self.ev(x[1], env):
                try:
                    self.block(x[2], env)
                except _Break:
                    break
                except _Continue:
                    continue
        elif k == "for":
            lo = self.ev(x[2], env)
            hi = self.ev(x[3], env)
            i = lo
            while i < hi:
                env.push()
                try:
                    env.declare(x[1], i, False)
                    self.block(x[4], env, new_scope=False)
                except _Break:
                    break
                except _Continue:
                    pass
                finally:
                    env.pop()
                i += 1
                self.tick()
        elif k == "break":
            raise _Break()
        elif k == "continue":
            raise _Continue()
        elif k == "return":
            raise _Return(None if x[1] is None else self.ev(x[1], env))
        elif k == "print":
            self.emit(fmt(self.ev(x[1], env)) + ("\n" if x[2] else ""))
        elif k == "assert":
            v = bool(self.ev(x[1], env))
            self.asserts.append(v)
            if not v:
                raise Fault("assert")
        elif k == "expr":
            self.ev(x[1], env)
        elif k == "match":
            u = self.ev(x[1], env)
            for v, b, body in x[2]:
                if v == u[2]:
                    env.push()
                    try:
                        env.declare(b, u, False)
                        self.block(body, env, new_scope=False)
                    finally:
                        env.pop()
                    return
            raise Fault("match-nonexhaustive")
        else:
            raise ValueError(k)

    # ---- entry points -----------------------------------------------------
    def run_main(self):
        """Returns (stdout, exit_status_mod_256, fault_kind|None)."""
        f = self.funcs["main"]
        try:
            v = self.call(f, [])
            return "".join(self.out), (v if isinstance(v, int) and not isinstance(v, bool) else 0) & 0xFF, None
        except Fault as ex:
            return "".join(self.out), None, ex.kind

    def run_shadow(self, f):
        """Evaluate f's shadow block in a fresh output buffer: (stdout, [assert truth values], fault|None)."""
        saved = (self.out, self.out_len, self.asserts)
        self.out, self.out_len, self.asserts = [], 0, []
        fault = None
        try:
            self.block(f.shadow or [], Env(), new_scope=False)
        except Fault as ex:
            fault = ex.kind
        except _Return:
            pass
        res = ("".join(self.out), self.asserts, fault)
        self.out, self.out_len, self.asserts = saved
        return res
