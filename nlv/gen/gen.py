"""Seeded, type-directed random program generator over the documented core language (DESIGN §3.1, App. B).

Programs are well-typed by construction (the generator's own typing discipline), every observable event is a
uniquely labelled output line, and every program is accepted by the reference evaluator (no fault, no int64
overflow, inside the step budget) before it is used.
"""
from . import ast as A
from .ref import Interp, Fault, Budget

# Feature switches.  A switch that is False keeps a construct out of generated programs.  Switches bound to
# known findings are turned off by the checks that list the finding (DESIGN §2.4); the census turns each on.
DEFAULT_FEATURES = {
    "strings": True, "floats": True, "arrays": True, "structs": True, "enums": True, "unions": True,
    "tuples": True, "globals": True, "recursion": True, "fnvalues": True, "while": True, "for": True,
    "break_continue": True, "cond": True, "match_expr": True, "multifile": True, "effects": True,
    "array_mut": True, "struct_param": True, "early_return": True, "string_loop": True, "charops": True,
    "exit_codes": True, "print_noline": True, "project_call_result": True, "array_slice": True,
    # ---- constructs bound to known findings / outside the clean zone (off by default) ----
    "for_continue": True,       # fixed in the VM (was: hang); `continue` inside `for` (VM)
    "logic_effect": True,       # fixed in the VM (was: both operands evaluated); and/or with an effectful right operand (VM)
    "block_shadow": True,  # fixed in the evaluator (was: inner let leaked out of its block) inner let shadowing an outer name
    "enum_print": True,         # fixed in the VM (was: enum(N)); printing an enum value
    "min_builtin": False,        # (min a b) on the VM
    "charclass_vm": True,        # fixed (was: wrong results on the VM) is_alpha / is_alnum / is_whitespace / is_upper / is_lower on the VM
    "cmp_same_operand": True,  # fixed (was: cc -Werror=tautological-compare) (< a a)
    "strlen_in_cmp": True,  # fixed (was: cc -Werror=sign-compare) str_length directly inside a comparison / cond
    "import_fnvalue": False,     # imported function used as a value: cc fails
    "array_struct": False,       # array of structs: nanoc fails
    "tuple_string": False,       # tuple with a string component: cc fails
    "nested_array": False,       # array<array<T>>
    "global_call_init": False,   # global initialised by a call: cc fails
    "neg_negative_literal": True,  # fixed (was: transpiled to --3) (- -3)
    "cmp_of_cmp": True,  # fixed (was: transpiled without parentheses) (== (< a b) (< c d))
    "match_scrutinee_expr": False,  # match on a non-variable scrutinee: payload binding has no type
    "match_expr_string": False,  # string-valued match expression nested in an expression: transpiler assumes int64
    "multi_effect_args": False,  # more than one order-sensitive operand or argument in one list (native evaluates right-to-left)
    "abs_effect_arg": False,     # (abs e) / (min a b) / (max a b) evaluate their arguments twice natively: effects duplicated
    "tuple_param": False,        # tuple-typed parameter: cc fails (unknown type name Tuple_...)
    "fnvalue_copy": True,  # fixed (was: evaluator double free) let f2: fn.. = <fn-typed variable>
    "neg_const_global": True,  # fixed (was: transpiled to --1) (- g) with a negative constant global
    "fnvalue_let_nested": False, # let of a function type inside a nested block: cc fails (unknown type name FnType_N)
    "match_expr_nested": False,  # match expression anywhere but directly as the returned value: transpiler types it as the function's return type
    "zero_arg_fnvalue": False,   # (p) with p a zero-parameter function value is not a call
    "self_assign": True,  # fixed (was: evaluator freed it) set s <expr that can evaluate to s itself>
    "break_in_match": True,  # fixed (was: natively it only left the C switch) break inside a match arm inside a loop
    "void_bare_return": True,    # fixed in the VM (was: a void function with a bare return in a nested block ran off its end)
    "array_literal_effect": False,  # effectful element in an array literal: nanoc's evaluator evaluates the first element twice (and native right-to-left)
    "string_field_direct": True,  # fixed (was: evaluator freed it) a struct's string field used directly as a let/set value
    "aggregate_string_alias": True,  # fixed (was: evaluator left the field dangling) a string variable stored into an aggregate and reassigned later
    "block_shadow_selfref": False,  # inner `let x = f(x)` shadowing an outer x: natively the initialiser reads the new, uninitialised x
    "block_shadow_mut_mismatch": False,  # inner immutable `let x` shadowing a mutable outer x: the type checker then rejects `set x` after the block
    "tuple_index_of_call": False,  # (f x).0 : the type checker cannot type a tuple index applied to a call result (valid program rejected)
    "print_indirect_call": True,  # fixed (was: <unknown> natively) (println (f args)) through a function value
}

BUILTIN_NAMES = set("""abs min max str_length str_concat str_substring str_contains str_equals char_at string_from_char
int_to_string string_to_int is_digit is_alpha is_alnum is_whitespace is_upper is_lower digit_value char_to_lower
char_to_upper at array_length array_new array_push array_set array_pop array_remove_at array_slice""".split())

STR_POOL = ["", "a", "bc", "xyz", "hello", "nano", "A1", "q r", "Zz9", "lang", "0", "-7", "42"]
INT_POOL = [0, 1, 2, 3, 5, 7, 10, -1, -3, 12, 100, 64, -50, 9]


def leaves(e):
    """sorted multiset of the variables and literals of an expression (gcc's tautological-compare warning sees through
    commutativity, so 'different' operands must differ in their leaves)"""
    out = []
    stack = [e]
    while stack:
        x = stack.pop()
        if isinstance(x, list):
            stack.extend(x)
        elif isinstance(x, tuple) and x:
            if not isinstance(x[0], str):
                stack.extend(y for y in x if isinstance(y, (tuple, list)))
            elif x[0] in ("var", "int", "bool", "str", "float", "fnref", "enumv"):
                out.append(repr(x))
            else:
                stack.extend(y for y in x[1:] if isinstance(y, (tuple, list)))
    return sorted(out)


class Scope:
    def __init__(self):
        self.frames = [{}]
        self.hidden = set()

    def push(self):
        self.frames.append({})

    def pop(self):
        self.frames.pop()

    def add(self, name, t, mut=False, known_len=None, owned=False):
        self.frames[-1][name] = dict(t=t, mut=mut, known_len=known_len, owned=owned)

    def vars(self, pred=None):
        out = []
        seen = set()
        for fr in reversed(self.frames):
            for n, d in fr.items():
                if n in seen:
                    continue
                seen.add(n)
                if n in self.hidden:
                    continue
                if pred is None or pred(n, d):
                    out.append((n, d))
        return out

    def of_type(self, t):
        return [n for n, d in self.vars() if d["t"] == t]


class FnSig:
    def __init__(self, name, params, ret, pure=True, kind="plain", imported=False):
        self.prints = not kind.startswith("rec:")
        self.name = name
        self.params = params
        self.ret = ret
        self.pure = pure
        self.kind = kind
        self.imported = imported


class Gen:
    def __init__(self, rng, features=None, size=1.0):
        self.r = rng
        self.f = dict(DEFAULT_FEATURES)
        if features:
            self.f.update(features)
        self.size = size
        self.n = 0
        self.tags = set()
        self.prog = A.Program()
        self.sigs = []            # callable user functions generated so far
        self.structs = {}         # name -> [(f,T)]
        self.enums = {}
        self.unions = {}
        self.tuple_types = []
        self.mut_globals = []     # [(name, T)]
        self.const_globals = []
        self.cur_pure = True
        self.cur_fn = None
        self.loop_depth = 0
        self.in_let_init = False
        self.in_match = 0
        self.in_for = 0
        self.block_depth = 0

    # ---- utilities --------------------------------------------------------
    def fresh(self, p="v"):
        self.n += 1
        return "%s%d" % (p, self.n)

    def tag(self, t):
        self.tags.add(t)

    def chance(self, p):
        return self.r.random() < p

    def scalar_types(self):
        ts = ["int", "int", "bool"]
        if self.f["strings"]:
            ts += ["string", "string"]
        return ts

    def pick_scalar(self):
        return self.r.choice(self.scalar_types())

    def printable(self, t):
        return t in ("int", "bool", "string")

    # ---- declarations -----------------------------------------------------
    def gen_decls(self):
        m = self.prog.main
        r = self.r
        if self.f["structs"] and self.chance(0.7):
            for _ in range(r.randint(1, 2)):
                name = "S%d" % (len(self.structs) + 1)
                fields = []
                for i in range(r.randint(1, 4)):
                    ft = self.pick_scalar()
                    if self.structs and self.chance(0.2):
                        ft = ("struct", r.choice(list(self.structs)))
                        self.tag("struct.nested")
                    elif self.f["arrays"] and self.chance(0.12):
                        ft = ("array", "int")
                        self.tag("struct.arrayfield")
                    fields.append(("f%d" % i, ft))
                self.structs[name] = fields
                m.structs.append((name, fields))
        if self.f["enums"] and self.chance(0.5):
            name = "E1"
            vals = sorted(r.sample(range(0, 9), r.randint(2, 4)))
            vs = [("K%d" % i, v) for i, v in enumerate(vals)]
            self.enums[name] = vs
            m.enums.append((name, vs))
        if self.f["unions"] and self.chance(0.5):
            name = "U1"
            vs = []
            for i in range(r.randint(2, 3)):
                fs = [("a%d" % j, self.pick_scalar()) for j in range(r.randint(1, 2))]
                vs.append(("V%d" % i, fs))
            self.unions[name] = vs
            m.unions.append((name, vs))
        if self.f["tuples"] and self.chance(0.5):
            for _ in range(r.randint(1, 2)):
                comps = ["int", "bool"] + (["string"] if self.f["tuple_string"] and self.f["strings"] else [])
                tt = ("tuple", tuple(r.choice(comps) for _ in range(r.randint(2, 3))))
                if tt not in self.tuple_types:
                    self.tuple_types.append(tt)
        if self.f["globals"] and self.chance(0.7):
            for _ in range(r.randint(1, 3)):
                t = self.pick_scalar()
                name = self.fresh("g")
                e = self.literal(t)
                mut = self.chance(0.4)
                m.globals.append((name, t, mut, e))
                (self.mut_globals if mut else self.const_globals).append((name, t))
                self.tag("global.mut" if mut else "global.const")

    # ---- expressions ------------------------------------------------------
    def literal(self, t):
        r = self.r
        if t == "int":
            return ("int", r.choice(INT_POOL) if self.chance(0.8) else r.randint(-1000, 1000))
        if t == "bool":
            return ("bool", self.chance(0.5))
        if t == "string":
            return ("str", r.choice(STR_POOL))
        if t == "float":
            return ("float", r.choice([0.0, 0.5, 1.0, 1.5, 2.0, -0.25, 3.75, 10.0, -8.0, 0.125]))
        if t[0] == "array":
            return ("arr", t[1], [self.literal(t[1]) for _ in range(r.randint(0, 4))])
        if t[0] == "struct":
            return ("structlit", t[1], [(f, self.literal(ft)) for f, ft in self.structs[t[1]]])
        if t[0] == "tuple":
            return ("tuple", [self.literal(x) for x in t[1]])
        if t[0] == "enum":
            return ("enumv", t[1], r.choice(self.enums[t[1]])[0])
        if t[0] == "union":
            v, fs = r.choice(self.unions[t[1]])
            return ("unionlit", t[1], v, [(f, self.literal(ft)) for f, ft in fs])
        raise ValueError(t)

    def visible_globals(self, t, for_write=False):
        out = []
        if not for_write:
            out += [n for n, gt in self.const_globals if gt == t]
        if not self.cur_pure_only and not self.no_mut_reads:
            out += [n for n, gt in self.mut_globals if gt == t]
        return out

    # ---- order sensitivity ------------------------------------------------
    def sensitivity(self, e):
        """(has_effect, reads_mutable_global) of an expression"""
        eff = rd = False
        mg = set(n for n, _ in self.mut_globals)
        sig = {s.name: s for s in self.sigs}
        stack = [e]
        while stack:
            x = stack.pop()
            if not isinstance(x, tuple) or not x:
                if isinstance(x, list):
                    stack.extend(x)
                continue
            k = x[0]
            if not isinstance(k, str):
                stack.extend(y for y in x if isinstance(y, (tuple, list)))
                continue
            if k == "var" and x[1] in mg:
                rd = True
            elif k == "call":
                if x[1] in ("tr_int", "tr_bool", "tr_str"):
                    eff = True
                elif x[1] in sig:
                    if sig[x[1]].prints or not sig[x[1]].pure:
                        eff = True
                elif x[1] not in BUILTIN_NAMES:
                    eff = True      # call through a function-typed variable
            elif k == "callv":
                eff = True
            for y in x[1:]:
                if isinstance(y, (tuple, list)):
                    stack.append(y)
        return eff, rd

    def arg_list(self, sc, types, d):
        """generate the expressions of one argument list; unless multi_effect_args is on, at most one of them is
        order sensitive (the C compiler evaluates call arguments in an unspecified order)"""
        args = [self.expr(sc, t, d) for t in types]
        if self.f["multi_effect_args"] or len(args) < 2:
            return args
        sens = [self.sensitivity(a) for a in args]
        n_eff = sum(1 for e_, r_ in sens if e_)
        n_rd = sum(1 for e_, r_ in sens if r_ and not e_)
        if n_eff == 0 or n_eff + n_rd < 2:
            return args
        keep = [i for i, (e_, r_) in enumerate(sens) if e_][0]
        save = (self.no_effects, self.no_mut_reads)
        self.no_effects = self.no_mut_reads = True
        try:
            for i in range(len(args)):
                if i != keep and (sens[i][0] or sens[i][1]):
                    args[i] = self.expr(sc, types[i], d)
        finally:
            self.no_effects, self.no_mut_reads = save
        return args

    def var_of(self, sc, t):
        c = sc.of_type(t) + self.visible_globals(t)
        return self.r.choice(c) if c else None

    def callable_sigs(self, ret):
        out = []
        for s in self.sigs:
            if s.ret != ret:
                continue
            if self.cur_pure_only and not s.pure:
                continue
            if s.name == self.cur_fn:
                continue
            if self.no_effects and (s.prints or not s.pure):
                continue
            out.append(s)
        return out

    def gen_call(self, sc, sig, d):
        args = self.arg_list(sc, [t for _, t in sig.params], d - 1)
        if not sig.pure:
            self.cur_touched_impure = True
        self.tag("call.user")
        return ("call", sig.name, args)

    def expr(self, sc, t, d):
        r = self.r
        if isinstance(t, tuple):
            return self.expr_aggregate(sc, t, d)
        if t == "float":
            return self.expr_float(sc, d)
        # leaf?
        if d <= 0 or self.chance(0.22):
            v = self.var_of(sc, t)
            if v and self.chance(0.65):
                return ("var", v)
            return self.literal(t)
        k = r.random()
        # projections and calls (any scalar type)
        if k < 0.14:
            sigs = self.callable_sigs(t)
            if sigs:
                return self.gen_call(sc, r.choice(sigs), d)
        if k < 0.22:
            p = self.projection(sc, t, d)
            if p is not None:
                return p
        if k < 0.25 and self.f["project_call_result"]:
            p = self.call_projection(sc, t, d)
            if p is not None:
                return p
        if k < 0.27 and self.f["cond"]:
            self.tag("cond")
            n = r.randint(1, 2)
            return ("cond", [(self.expr(sc, "bool", d - 1), self.expr(sc, t, d - 1)) for _ in range(n)], self.expr(sc, t, d - 1))
        if k < 0.31 and self.f["effects"] and not self.no_effects:
            self.tag("effect.trace")
            return ("call", {"int": "tr_int", "bool": "tr_bool", "string": "tr_str"}[t], [self.expr(sc, t, d - 1)])
        if k < 0.34 and self.f["match_expr"] and self.f["match_expr_nested"] and self.unions and (t != "string" or self.f["match_expr_string"]):
            me = self.match_expr(sc, t, d)
            if me is not None:
                return me
        if t == "int":
            return self.expr_int(sc, d)
        if t == "bool":
            return self.expr_bool(sc, d)
        return self.expr_str(sc, d)

    def abs_arg(self, sc, d):
        if self.f["abs_effect_arg"]:
            return self.expr(sc, "int", d)
        save = self.no_effects
        self.no_effects = True
        try:
            return self.expr(sc, "int", d)
        finally:
            self.no_effects = save

    def expr_int(self, sc, d):
        r = self.r
        k = r.random()
        if k < 0.45:
            op = r.choice(["+", "-", "+", "-", "*"])
            self.tag("int.arith")
            a, b = self.arg_list(sc, ["int", "int"], d - 1)
            return ("bin", op, a, b)
        if k < 0.58:
            op = r.choice(["/", "%"])
            self.tag("int.divmod")
            return ("bin", op, self.abs_arg(sc, d - 1) if self.chance(0.3) else self.expr(sc, "int", d - 1), ("bin", "+", ("call", "abs", [self.abs_arg(sc, d - 1)]), ("int", 1)))
        if k < 0.66:
            self.tag("builtin.abs_max")
            if self.chance(0.5):
                return ("call", "abs", [self.abs_arg(sc, d - 1)])
            name = "max" if not self.f["min_builtin"] or self.chance(0.5) else "min"
            return ("call", name, [self.abs_arg(sc, d - 1), self.abs_arg(sc, d - 1)])
        if k < 0.72:
            self.tag("int.neg")
            e = self.expr(sc, "int", d - 1)
            if e[0] == "int" and e[1] < 0 and not self.f["neg_negative_literal"]:
                e = ("int", -e[1])
            if e[0] == "var" and not self.f["neg_const_global"] and any(n == e[1] for n, _ in self.const_globals):
                return ("bin", "-", ("int", 0), e)
            return ("un", "neg", e)
        if k < 0.80 and self.f["strings"] and self.f["charops"]:
            self.tag("string.char_at")
            s = r.choice([x for x in STR_POOL if x])
            return ("call", "char_at", [("str", s), ("int", r.randrange(len(s)))])
        if k < 0.86 and self.f["strings"]:
            self.tag("string.to_int")
            return ("call", "string_to_int", [("call", "int_to_string", [self.expr(sc, "int", d - 1)])])
        if k < 0.92 and self.f["charops"]:
            self.tag("char.convert")
            fn = r.choice(["char_to_lower", "char_to_upper"])
            return ("call", fn, [("int", r.choice([65, 97, 90, 122, 48, 32, 77, 109]))])
        return ("bin", "+", self.expr(sc, "int", d - 1), self.literal("int"))

    def distinct_pair(self, sc, t, d):
        a = self.expr(sc, t, d)
        b = self.expr(sc, t, d)
        a, b = self.desens(sc, t, d, a, b)
        if self.f["cmp_same_operand"]:
            return a, b
        for _ in range(4):
            if leaves(a) != leaves(b):
                return a, b
            b = self.expr(sc, t, d)
            a, b = self.desens(sc, t, d, a, b)
        if leaves(a) == leaves(b):
            if t == "int":
                b = ("bin", "+", b, ("int", 1))
            elif t == "string":
                b = ("bin", "+", b, ("str", "x"))
            elif t == "float":
                b = ("bin", "+", b, ("float", 1.0))
            elif t == "bool":
                b = ("un", "not", b)
            else:
                return None, None
        return a, b

    def expr_bool(self, sc, d):
        r = self.r
        k = r.random()
        if k < 0.42:
            op = r.choice(A.BINOPS_CMP)
            a, b = self.distinct_pair(sc, "int", d - 1)
            self.tag("cmp.int")
            return ("bin", op, a, b)
        if k < 0.62:
            op = r.choice(["and", "or"])
            self.tag("logic")
            a = self.expr(sc, "bool", d - 1)
            save = self.no_effects
            if not self.f["logic_effect"]:
                self.no_effects = True
            try:
                b = self.expr(sc, "bool", d - 1)
            finally:
                self.no_effects = save
            return ("bin", op, a, b)
        if k < 0.72:
            self.tag("logic.not")
            return ("un", "not", self.expr(sc, "bool", d - 1))
        if k < 0.82 and self.f["strings"]:
            self.tag("cmp.string")
            op = r.choice(["==", "!="])
            if self.chance(0.3):
                return ("call", r.choice(["str_equals", "str_contains"]), self.arg_list(sc, ["string", "string"], d - 1))
            a, b = self.distinct_pair(sc, "string", d - 1)
            return ("bin", op, a, b)
        if k < 0.88 and self.f["floats"]:
            self.tag("cmp.float")
            a, b = self.distinct_pair(sc, "float", d - 1)
            return ("bin", r.choice(A.BINOPS_CMP), a, b)
        if k < 0.93 and self.f["enums"] and self.enums:
            en = r.choice(list(self.enums))
            a, b = self.distinct_pair(sc, ("enum", en), d - 1)
            if a is not None:
                self.tag("enum.compare")
                return ("bin", r.choice(["==", "!="]), a, b)
        if k < 0.97 and self.f["charops"]:
            self.tag("char.class")
            fns = ["is_digit"] + (["is_alpha", "is_whitespace", "is_upper", "is_alnum", "is_lower"] if self.f["charclass_vm"] else [])
            return ("call", r.choice(fns), [("int", r.choice([48, 57, 65, 97, 32, 95, 122, 10, 64]))])
        if self.f["cmp_of_cmp"]:
            a, b = self.distinct_pair(sc, "bool", d - 1)
            return ("bin", "==", a, b)
        return ("un", "not", self.expr(sc, "bool", d - 1))

    def expr_str(self, sc, d):
        r = self.r
        k = r.random()
        if k < 0.4:
            self.tag("string.concat")
            if self.chance(0.3):
                return ("call", "str_concat", self.arg_list(sc, ["string", "string"], d - 1))
            a, b = self.arg_list(sc, ["string", "string"], d - 1)
            return ("bin", "+", a, b)
        if k < 0.65:
            self.tag("string.from_int")
            return ("call", "int_to_string", [self.expr(sc, "int", d - 1)])
        if k < 0.8:
            self.tag("string.substring")
            s = r.choice([x for x in STR_POOL if len(x) >= 2])
            st = r.randrange(len(s))
            return ("call", "str_substring", [("str", s), ("int", st), ("int", r.randint(0, len(s) + 2))])
        if k < 0.9 and self.f["charops"]:
            self.tag("string.from_char")
            return ("call", "string_from_char", [("int", r.choice([65, 90, 97, 122, 48, 57, 33, 126]))])
        return ("bin", "+", self.expr(sc, "string", d - 1), self.literal("string"))

    def desens(self, sc, t, d, a, b):
        """make (a, b) have at most one order-sensitive member"""
        if self.f["multi_effect_args"]:
            return a, b
        sa, sb = self.sensitivity(a), self.sensitivity(b)
        if (sa[0] and (sb[0] or sb[1])) or (sb[0] and sa[1]):
            save = (self.no_effects, self.no_mut_reads)
            self.no_effects = self.no_mut_reads = True
            try:
                b = self.expr(sc, t, d)
            finally:
                self.no_effects, self.no_mut_reads = save
        return a, b

    def expr_float(self, sc, d):
        r = self.r
        self.tag("float")
        if d <= 0 or self.chance(0.4):
            v = self.var_of(sc, "float")
            if v and self.chance(0.5):
                return ("var", v)
            return self.literal("float")
        op = r.choice(["+", "-", "*"])
        return ("bin", op, self.expr_float(sc, d - 1), self.expr_float(sc, d - 1))

    def projection(self, sc, t, d):
        """field / tuple index / array element of a variable in scope, of scalar type t"""
        r = self.r
        cands = []
        for n, dsc in sc.vars():
            vt = dsc["t"]
            if isinstance(vt, tuple):
                if vt[0] == "struct":
                    for f, ft in self.structs[vt[1]]:
                        if ft == t:
                            cands.append(("field", ("var", n), f))
                        elif isinstance(ft, tuple) and ft[0] == "struct":
                            for f2, ft2 in self.structs[ft[1]]:
                                if ft2 == t:
                                    cands.append(("field", ("field", ("var", n), f), f2))
                elif vt[0] == "tuple":
                    for i, ct in enumerate(vt[1]):
                        if ct == t:
                            cands.append(("tidx", ("var", n), i))
                elif vt[0] == "array" and vt[1] == t and dsc["known_len"]:
                    cands.append(("call", "at", [("var", n), ("int", r.randrange(dsc["known_len"]))]))
                elif vt[0] == "array" and t == "int":
                    cands.append(("call", "array_length", [("var", n)]))
        if not cands:
            return None
        c = r.choice(cands)
        self.tag({"field": "struct.field", "tidx": "tuple.index", "call": "array.read"}[c[0]])
        if t == "string" and c[0] == "field" and not self.f["string_field_direct"]:
            return ("bin", "+", ("str", ""), c)
        return c

    def call_projection(self, sc, t, d):
        """field / tuple index applied directly to a call result: (f args).x"""
        cands = []
        for sg in self.sigs:
            if sg.name == self.cur_fn or (self.cur_pure_only and not sg.pure) or (self.no_effects and (sg.prints or not sg.pure)):
                continue
            rt = sg.ret
            if isinstance(rt, tuple) and rt[0] == "struct":
                for f, ft in self.structs[rt[1]]:
                    if ft == t:
                        cands.append((sg, ("field", f)))
            elif isinstance(rt, tuple) and rt[0] == "tuple" and self.f["tuple_index_of_call"]:
                for i, ct in enumerate(rt[1]):
                    if ct == t:
                        cands.append((sg, ("tidx", i)))
        if not cands:
            return None
        sg, (kind, sel) = self.r.choice(cands)
        call = self.gen_call(sc, sg, d)
        self.tag("project.call_result")
        e = ("field", call, sel) if kind == "field" else ("tidx", call, sel)
        if t == "string" and kind == "field" and not self.f["string_field_direct"]:
            return ("bin", "+", ("str", ""), e)
        return e

    def match_expr(self, sc, t, d):
        r = self.r
        un = r.choice(list(self.unions))
        vs = self.unions[un]
        uvars = sc.of_type(("union", un))
        if not uvars and not self.f["match_scrutinee_expr"]:
            return None
        arms = []
        for v, fs in vs:
            b = self.fresh("m")
            sc.push()
            sc.add(b, ("unionv", un, v))
            # arm expression may use the bound payload fields of type t
            pf = [f for f, ft in fs if ft == t]
            if pf and self.chance(0.7):
                e = ("field", ("var", b), r.choice(pf))
                if t == "int" and self.chance(0.5):
                    e = ("bin", "+", e, self.expr(sc, "int", 0))
            else:
                e = self.expr(sc, t, min(d - 1, 1))
            sc.pop()
            arms.append((v, b, e))
        self.tag("union.match_expr")
        scrut = ("var", r.choice(uvars)) if uvars else self.expr(sc, ("union", un), d - 1)
        return ("matche", scrut, arms)

    def fresh_strings(self, types, exprs):
        """string members of an aggregate literal are made fresh values (see switch aggregate_string_alias)"""
        if self.f["aggregate_string_alias"]:
            return exprs
        out = []
        for t, e in zip(types, exprs):
            if t == "string" and not (e[0] == "str" or (e[0] == "bin" and e[1] == "+") or
                                      (e[0] == "call" and e[1] in ("int_to_string", "str_concat", "str_substring", "string_from_char"))):
                e = ("bin", "+", ("str", ""), e)
            out.append(e)
        return out

    def expr_aggregate(self, sc, t, d):
        r = self.r
        v = sc.of_type(t)
        if t[0] == "fn" and self.in_let_init and not self.f["fnvalue_copy"]:
            v = []
        if v and self.chance(0.5):
            # never hand out a mutable (owned) array by name: aliasing is outside the asserted zone
            v = [n for n in v if not dict(sc.vars())[n]["owned"]]
            if v:
                return ("var", r.choice(v))
        sigs = self.callable_sigs(t)
        if sigs and d > 0 and self.chance(0.4):
            return self.gen_call(sc, r.choice(sigs), d)
        k = t[0]
        if k == "array" and self.f["array_slice"] and self.chance(0.15):
            src = [(n, dd) for n, dd in sc.vars() if dd["t"] == t and dd["known_len"] and not dd["owned"]]
            if src:
                n, dd = r.choice(src)
                st = r.randrange(dd["known_len"] + 1)
                ln = r.randrange(dd["known_len"] - st + 1)
                self.tag("array.slice")
                return ("call", "array_slice", [("var", n), ("int", st), ("int", ln)])
        if k == "array":
            self.tag("array.literal." + A.tstr(t[1]))
            n = r.randint(0, 4) if self.chance(0.85) else r.randint(5, 12)
            save = self.no_effects
            if not self.f["array_literal_effect"]:
                self.no_effects = True
            try:
                return ("arr", t[1], self.fresh_strings([t[1]] * n, self.arg_list(sc, [t[1]] * n, max(0, d - 1))))
            finally:
                self.no_effects = save
        if k == "struct":
            self.tag("struct.literal")
            fs = self.structs[t[1]]
            tys = [ft for _, ft in fs]
            return ("structlit", t[1], list(zip([f for f, _ in fs], self.fresh_strings(tys, self.arg_list(sc, tys, max(0, d - 1))))))
        if k == "tuple":
            self.tag("tuple.literal")
            return ("tuple", self.arg_list(sc, list(t[1]), max(0, d - 1)))
        if k == "enum":
            self.tag("enum.value")
            return ("enumv", t[1], r.choice(self.enums[t[1]])[0])
        if k == "union":
            self.tag("union.construct")
            v, fs = r.choice(self.unions[t[1]])
            tys = [ft for _, ft in fs]
            return ("unionlit", t[1], v, list(zip([f for f, _ in fs], self.fresh_strings(tys, self.arg_list(sc, tys, max(0, d - 1))))))
        if k == "fn":
            c = [s for s in self.sigs if tuple(pt for _, pt in s.params) == t[1] and s.ret == t[2]
                 and (not s.imported or self.f["import_fnvalue"]) and s.name != self.cur_fn
                 and (s.pure or not self.cur_pure_only)]
            vs = sc.of_type(t)
            if vs and self.chance(0.4) and (self.f["fnvalue_copy"] or not self.in_let_init):
                return ("var", r.choice(vs))
            if c:
                self.tag("fn.value")
                s = r.choice(c)
                if not s.pure:
                    self.cur_touched_impure = True
                return ("fnref", s.name)
            return None
        raise ValueError(t)

    # ---- statements -------------------------------------------------------
    def stmts(self, sc, n, depth, ret_t=None):
        out = []
        for _ in range(n):
            s = self.stmt(sc, depth, ret_t)
            if s:
                out.extend(s)
        return out

    def label(self):
        self.n += 1
        return "L%d" % self.n

    def print_stmt(self, sc, t=None):
        t = t or self.pick_scalar()
        e = self.expr(sc, t, 2)
        lab = self.label()
        self.tag("print." + t)
        if t == "string":
            return [("print", ("bin", "+", ("str", lab + ":"), e), True)]
        if self.f["print_noline"]:
            self.tag("print.noline")
            return [("print", ("str", lab + ":"), False), ("print", e, True)]
        return [("print", ("str", lab + ":"), True), ("print", e, True)]

    def stmt(self, sc, depth, ret_t):
        r = self.r
        k = r.random()
        if k < 0.22:
            return self.let_stmt(sc)
        if k < 0.34:
            return self.set_stmt(sc)
        if k < 0.56:
            return self.print_stmt(sc)
        if k < 0.68 and depth > 0:
            return self.if_stmt(sc, depth, ret_t)
        if k < 0.78 and depth > 0 and self.loop_depth < 2 and self.f["while"]:
            return self.while_stmt(sc, depth, ret_t)
        if k < 0.85 and depth > 0 and self.loop_depth < 2 and self.f["for"]:
            return self.for_stmt(sc, depth, ret_t)
        if k < 0.89 and self.f["array_mut"] and self.f["arrays"]:
            return self.array_mut_stmt(sc)
        if k < 0.92 and self.unions and depth > 0:
            return self.match_stmt(sc, depth)
        if k < 0.95:
            sigs = [s for s in self.sigs if (s.pure or not self.cur_pure_only) and s.name != self.cur_fn and s.ret == "void"]
            if sigs:
                return [("expr", self.gen_call(sc, r.choice(sigs), 2))]
        if k < 0.97 and self.loop_depth > 0 and self.f["break_continue"] and (self.in_match == 0 or self.f["break_in_match"]):
            return self.break_continue(sc)
        if self.f["string_loop"] and self.f["strings"] and depth > 0 and self.loop_depth == 0:
            return self.string_loop(sc)
        return self.print_stmt(sc)

    def let_stmt(self, sc):
        r = self.r
        k = r.random()
        t = self.pick_scalar()
        if k < 0.12 and self.f["floats"]:
            t = "float"
        elif k < 0.24 and self.f["arrays"]:
            et = r.choice(["int", "int", "string", "bool"] if self.f["strings"] else ["int", "bool"])
            t = ("array", et)
        elif k < 0.34 and self.structs:
            t = ("struct", r.choice(list(self.structs)))
        elif k < 0.40 and self.tuple_types:
            t = r.choice(self.tuple_types)
        elif k < 0.45 and self.enums:
            t = ("enum", r.choice(list(self.enums)))
        elif k < 0.50 and self.unions:
            t = ("union", r.choice(list(self.unions)))
        elif k < 0.55 and self.f["fnvalues"] and (self.block_depth == 0 or self.f["fnvalue_let_nested"]):
            ft = self.pick_fn_type()
            if ft:
                t = ft
        elif k < 0.60 and self.f["strings"]:
            # str_length only as a let initialiser (see switch strlen_in_cmp)
            name = self.fresh()
            self.tag("string.length")
            e = ("call", "str_length", [self.expr(sc, "string", 2)])
            sc.add(name, "int")
            return [("let", name, "int", False, e)]
        name = self.fresh()
        shadowed = None
        if self.f["block_shadow"] and self.block_depth > 0 and self.chance(0.3):
            cur = sc.frames[-1]     # a second `let` of a name in the SAME block is not shadowing (and natively a C redefinition)
            outer = [n for n, d in sc.vars() if n not in cur and d["t"] == t and not d["owned"] and n.startswith("v")]
            if outer:
                name = shadowed = r.choice(outer)
                self.tag("block.shadow")
        # `let x = <expr mentioning the outer x>` in an inner block is the native self-reference defect
        hide = shadowed is not None and not self.f["block_shadow_selfref"]
        if hide:
            sc.hidden.add(shadowed)
        self.in_let_init = True
        try:
            e = self.expr(sc, t, 3)
        finally:
            self.in_let_init = False
            if hide:
                sc.hidden.discard(shadowed)
        if e is None:
            return None
        mut = self.chance(0.45) and not isinstance(t, tuple)
        if shadowed is not None and not self.f["block_shadow_mut_mismatch"]:
            # the type checker does not end the inner scope: an immutable inner `let x` makes a later `set x` of the
            # mutable outer x fail ("Cannot assign to immutable variable")
            mut = bool(dict(sc.vars())[shadowed]["mut"])
        known = len(e[2]) if e[0] == "arr" else None
        if isinstance(t, tuple) and t[0] == "array" and e[0] == "arr" and self.f["array_mut"] and self.chance(0.4):
            mut = True
            sc.add(name, t, mut=True, known_len=None, owned=True)
            self.tag("let.mut_array")
            return [("let", name, t, True, e)]
        sc.add(name, t, mut=mut, known_len=known)
        self.tag("let." + (t if isinstance(t, str) else t[0]))
        return [("let", name, t, mut, e)]

    def pick_fn_type(self):
        c = []
        for s in self.sigs:
            if s.name == self.cur_fn or (s.imported and not self.f["import_fnvalue"]):
                continue
            if not s.pure and self.cur_pure_only:
                continue
            if not s.params and not self.f["zero_arg_fnvalue"]:
                continue
            if all(isinstance(pt, str) for _, pt in s.params) and isinstance(s.ret, str) and s.ret != "void" and s.kind != "hof":
                c.append(("fn", tuple(pt for _, pt in s.params), s.ret))
        return self.r.choice(c) if c else None

    def set_stmt(self, sc):
        c = [(n, d) for n, d in sc.vars() if d["mut"] and isinstance(d["t"], str) and not d.get("counter")]
        g = [] if self.cur_pure_only else self.mut_globals
        if not c and not g:
            return self.let_stmt(sc)
        if g and (not c or self.chance(0.3)):
            n, t = self.r.choice(g)
            self.cur_touched_impure = True
            self.tag("global.set")
            return [("set", n, self.expr(sc, t, 2))]
        n, d = self.r.choice(c)
        self.tag("set")
        hide = d["t"] == "string" and not self.f["self_assign"]
        if hide:
            # `set s <expression that may evaluate to s itself>` (e.g. through cond) is the self-assignment defect
            sc.hidden.add(n)
        try:
            e = self.expr(sc, d["t"], 2)
        finally:
            sc.hidden.discard(n)
        if e == ("var", n) and not self.f["self_assign"]:
            e = self.literal(d["t"])
        return [("set", n, e)]

    def block(self, sc, depth, ret_t, n=None):
        sc.push()
        self.block_depth += 1
        try:
            body = self.stmts(sc, n or self.r.randint(1, 3), depth, ret_t)
            if ret_t is not None and self.f["early_return"] and self.chance(0.15) and (ret_t != "void" or self.f["void_bare_return"]):
                body.append(("return", self.expr(sc, ret_t, 2) if ret_t != "void" else None))
                self.tag("return.early")
            return body
        finally:
            self.block_depth -= 1
            sc.pop()

    def if_stmt(self, sc, depth, ret_t):
        c = self.expr(sc, "bool", 2)
        then = self.block(sc, depth - 1, ret_t)
        els = None
        k = self.r.random()
        if k < 0.5:
            els = self.block(sc, depth - 1, ret_t)
            self.tag("if.else")
        elif k < 0.7:
            c2 = self.expr(sc, "bool", 2)
            els = [("if", c2, self.block(sc, depth - 1, ret_t), self.block(sc, depth - 1, ret_t))]
            self.tag("if.elseif")
        else:
            self.tag("if")
        return [("if", c, then, els)]

    def while_stmt(self, sc, depth, ret_t):
        c = self.fresh("c")
        bound = self.r.randint(1, 5)
        sc.add(c, "int", mut=True)
        dict(sc.vars())[c]["counter"] = True
        self.loop_depth += 1
        try:
            sc.push()
            self.block_depth += 1
            body = self.stmts(sc, self.r.randint(1, 3), depth - 1, ret_t)
            self.block_depth -= 1
            sc.pop()
        finally:
            self.loop_depth -= 1
        self.tag("while")
        # the counter update comes first so that `continue` cannot skip it
        return [("let", c, "int", True, ("int", 0)),
                ("while", ("bin", "<", ("var", c), ("int", bound)), [("set", c, ("bin", "+", ("var", c), ("int", 1)))] + body)]

    def for_stmt(self, sc, depth, ret_t):
        i = self.fresh("i")
        lo = self.r.randint(-2, 3)
        hi = lo + self.r.randint(0, 5)
        self.loop_depth += 1
        self.in_for += 1
        try:
            sc.push()
            sc.add(i, "int")
            self.block_depth += 1
            body = self.stmts(sc, self.r.randint(1, 3), depth - 1, ret_t)
            self.block_depth -= 1
            sc.pop()
        finally:
            self.loop_depth -= 1
            self.in_for -= 1
        self.tag("for")
        return [("for", i, ("int", lo), ("int", hi), body)]

    def break_continue(self, sc):
        c = self.expr(sc, "bool", 2)
        if self.chance(0.5):
            self.tag("break")
            return [("if", c, [("break",)], None)]
        if self.in_for > 0 and not self.f["for_continue"]:
            self.tag("break")
            return [("if", c, [("break",)], None)]
        self.tag("continue.for" if self.in_for > 0 else "continue.while")
        return [("if", c, [("continue",)], None)]

    def array_mut_stmt(self, sc):
        owned = [(n, d) for n, d in sc.vars() if d["owned"]]
        if not owned:
            return self.let_stmt(sc)
        n, d = self.r.choice(owned)
        et = d["t"][1]
        k = self.r.random()
        if k < 0.5:
            self.tag("array.push")
            return [("set", n, ("call", "array_push", [("var", n), self.expr(sc, et, 2)]))]
        if k < 0.75:
            self.tag("array.set_guarded")
            idx = self.r.randint(0, 3)
            return [("if", ("bin", ">", ("call", "array_length", [("var", n)]), ("int", idx)),
                     [("expr", ("call", "array_set", [("var", n), ("int", idx), self.expr(sc, et, 2)]))], None)]
        self.tag("array.read_guarded")
        idx = self.r.randint(0, 3)
        lab = self.label()
        pe = ("call", "at", [("var", n), ("int", idx)])
        if et == "string":
            pr = [("print", ("bin", "+", ("str", lab + ":"), pe), True)]
        else:
            pr = [("print", ("str", lab + ":"), True), ("print", pe, True)]
        return [("if", ("bin", ">", ("call", "array_length", [("var", n)]), ("int", idx)), pr, None)]

    def match_stmt(self, sc, depth):
        un = self.r.choice(list(self.unions))
        pre = []
        uvars = sc.of_type(("union", un))
        if uvars:
            scrut = ("var", self.r.choice(uvars))
        elif self.f["match_scrutinee_expr"]:
            scrut = self.expr(sc, ("union", un), 2)
        else:
            uv = self.fresh()
            pre = [("let", uv, ("union", un), False, self.expr(sc, ("union", un), 2))]
            sc.add(uv, ("union", un))
            scrut = ("var", uv)
        arms = []
        for v, fs in self.unions[un]:
            b = self.fresh("m")
            sc.push()
            sc.add(b, ("unionv", un, v))
            body = []
            for f, ft in fs:
                if self.chance(0.7):
                    lab = self.label()
                    pe = ("field", ("var", b), f)
                    if ft == "string":
                        body.append(("print", ("bin", "+", ("str", lab + ":"), pe), True))
                    else:
                        body.append(("print", ("str", lab + ":"), True))
                        body.append(("print", pe, True))
            self.in_match += 1
            self.block_depth += 1
            body += self.stmts(sc, self.r.randint(0, 2), depth - 1, None)
            self.block_depth -= 1
            self.in_match -= 1
            if not body:
                body = self.print_stmt(sc)
            sc.pop()
            arms.append((v, b, body))
        self.tag("union.match_stmt")
        return pre + [("match", scrut, arms)]

    def string_loop(self, sc):
        s = self.fresh()
        c = self.fresh("c")
        sc.add(s, "string", mut=True)
        self.tag("string.loop")
        n = self.r.randint(1, 6)
        lab = self.label()
        return [("let", s, "string", True, ("str", "")),
                ("let", c, "int", True, ("int", 0)),
                ("while", ("bin", "<", ("var", c), ("int", n)),
                 [("set", s, ("bin", "+", ("var", s), ("call", "int_to_string", [("var", c)]))),
                  ("set", c, ("bin", "+", ("var", c), ("int", 1)))]),
                ("print", ("bin", "+", ("str", lab + ":"), ("var", s)), True)]

    # ---- functions --------------------------------------------------------
    def helper_funcs(self):
        m = self.prog.main
        defs = [("tr_int", "int", ("call", "int_to_string", [("var", "x")])),
                ("tr_bool", "bool", ("cond", [(("var", "x"), ("str", "T"))], ("str", "F"))),
                ("tr_str", "string", ("var", "x"))]
        for name, t, se in defs:
            if t == "string" and not self.f["strings"]:
                continue
            f = A.Func(name, [("x", t)], t, [("print", ("bin", "+", ("str", "t:"), se), True), ("return", ("var", "x"))],
                       shadow=[("assert", ("bool", True))])
            m.funcs.append(f)

    def gen_function(self, idx, module=None, pure=None, scalar_only=False):
        r = self.r
        name = "f%d" % idx
        self.cur_fn = name
        self.cur_pure_only = pure if pure is not None else self.chance(0.7) or not self.mut_globals
        self.cur_touched_impure = False
        self.no_effects = False
        self.no_mut_reads = False
        sc = Scope()
        params = []
        for _ in range(r.randint(0, 3)):
            t = self.pick_scalar()
            k = r.random()
            if not scalar_only:
                if k < 0.1 and self.structs and self.f["struct_param"]:
                    t = ("struct", r.choice(list(self.structs)))
                    self.tag("param.struct")
                elif k < 0.18 and self.f["arrays"]:
                    t = ("array", r.choice(["int", "string"] if self.f["strings"] else ["int"]))
                    self.tag("param.array")
                elif k < 0.23 and self.unions:
                    t = ("union", r.choice(list(self.unions)))
                    self.tag("param.union")
                elif k < 0.28 and self.tuple_types and self.f["tuple_param"]:
                    t = r.choice(self.tuple_types)
                    self.tag("param.tuple")
                elif k < 0.33 and self.f["fnvalues"]:
                    ft = self.pick_fn_type()
                    if ft:
                        t = ft
                        self.tag("param.fn")
                elif k < 0.36 and self.f["floats"]:
                    t = "float"
            pn = self.fresh("p")
            params.append((pn, t))
            sc.add(pn, t)
        ret = self.pick_scalar()
        k = r.random()
        if not scalar_only:
            if k < 0.08 and self.structs:
                ret = ("struct", r.choice(list(self.structs)))
                self.tag("return.struct")
            elif k < 0.14 and self.tuple_types:
                ret = r.choice(self.tuple_types)
                self.tag("return.tuple")
            elif k < 0.2 and self.f["arrays"]:
                ret = ("array", "int")
                self.tag("return.array")
            elif k < 0.24:
                ret = "void"
                self.tag("return.void")
        body = self.stmts(sc, r.randint(1, int(2 + 4 * self.size)), 2, ret)
        # calling through function-typed parameters
        for pn, pt in params:
            if isinstance(pt, tuple) and pt[0] == "fn" and self.printable(pt[2]):
                lab = self.label()
                call = ("callv", ("var", pn), self.arg_list(sc, list(pt[1]), 1))
                self.tag("call.indirect")
                if not self.f["print_indirect_call"]:
                    rv = self.fresh()
                    body.append(("let", rv, pt[2], False, call))
                    call = ("var", rv)
                if pt[2] == "string":
                    body.append(("print", ("bin", "+", ("str", lab + ":"), call), True))
                else:
                    body.append(("print", ("str", lab + ":"), True))
                    body.append(("print", call, True))
        if ret != "void":
            e = None
            if self.f["match_expr"] and self.unions and (ret in ("int", "bool") or (ret == "string" and self.f["match_expr_string"])) and self.chance(0.3):
                save = self.f["match_scrutinee_expr"]
                e = self.match_expr(sc, ret, 2)
            if e is None:
                e = self.expr(sc, ret, 2)
            if e is None:
                return None
            body.append(("return", e))
        f = A.Func(name, params, ret, body, pub=module is not None)
        f.pure = not self.cur_touched_impure
        kind = "hof" if any(isinstance(pt, tuple) and pt[0] == "fn" for _, pt in params) else "plain"
        sig = FnSig(name, params, ret, pure=f.pure, kind=kind, imported=module is not None)
        self.cur_fn = None
        return f, sig

    def recursive_function(self, idx):
        r = self.r
        name = "f%d" % idx
        k = r.choice(["fact", "fib", "sumto", "evenodd", "gcd", "strrep"] if self.f["strings"] else ["fact", "fib", "sumto", "evenodd", "gcd"])
        n = ("var", "n")
        self.tag("recursion." + k)
        if k == "fact":
            body = [("if", ("bin", "<=", n, ("int", 1)), [("return", ("int", 1))],
                     [("return", ("bin", "*", n, ("call", name, [("bin", "-", n, ("int", 1))])))])]
            return [(A.Func(name, [("n", "int")], "int", body), FnSig(name, [("n", "int")], "int", kind="rec:15"))]
        if k == "fib":
            body = [("if", ("bin", "<", n, ("int", 2)), [("return", n)], None),
                    ("return", ("bin", "+", ("call", name, [("bin", "-", n, ("int", 1))]), ("call", name, [("bin", "-", n, ("int", 2))])))]
            return [(A.Func(name, [("n", "int")], "int", body), FnSig(name, [("n", "int")], "int", kind="rec:12"))]
        if k == "sumto":
            body = [("if", ("bin", "<=", n, ("int", 0)), [("return", ("var", "acc"))], None),
                    ("return", ("call", name, [("bin", "-", n, ("int", 1)), ("bin", "+", ("var", "acc"), n)]))]
            ps = [("n", "int"), ("acc", "int")]
            return [(A.Func(name, ps, "int", body), FnSig(name, ps, "int", kind="rec:60"))]
        if k == "gcd":
            body = [("if", ("bin", "==", ("var", "b"), ("int", 0)), [("return", ("var", "a"))], None),
                    ("return", ("call", name, [("var", "b"), ("bin", "%", ("var", "a"), ("var", "b"))]))]
            ps = [("a", "int"), ("b", "int")]
            return [(A.Func(name, ps, "int", body), FnSig(name, ps, "int", kind="rec:gcd"))]
        if k == "strrep":
            body = [("if", ("bin", "<=", n, ("int", 0)), [("return", ("str", ""))], None),
                    ("return", ("bin", "+", ("var", "s"), ("call", name, [("var", "s"), ("bin", "-", n, ("int", 1))])))]
            ps = [("s", "string"), ("n", "int")]
            return [(A.Func(name, ps, "string", body), FnSig(name, ps, "string", kind="rec:20"))]
        other = name + "b"
        b1 = [("if", ("bin", "==", n, ("int", 0)), [("return", ("bool", True))], [("return", ("call", other, [("bin", "-", n, ("int", 1))]))])]
        b2 = [("if", ("bin", "==", n, ("int", 0)), [("return", ("bool", False))], [("return", ("call", name, [("bin", "-", n, ("int", 1))]))])]
        return [(A.Func(name, [("n", "int")], "bool", b1), FnSig(name, [("n", "int")], "bool", kind="rec:40")),
                (A.Func(other, [("n", "int")], "bool", b2), FnSig(other, [("n", "int")], "bool", kind="rec:40"))]

    def shadow_args(self, sig):
        """literal argument tuple for a shadow call"""
        r = self.r
        if sig.kind.startswith("rec:"):
            lim = sig.kind[4:]
            if lim == "gcd":
                return [("int", r.randint(0, 200)), ("int", r.randint(0, 60))]
            return [("str", r.choice(STR_POOL)) if t == "string" else ("int", r.randint(0, int(lim))) if n == "n" else ("int", r.randint(0, 9))
                    for n, t in sig.params]
        args = []
        for _, t in sig.params:
            if isinstance(t, tuple) and t[0] == "fn":
                c = [s for s in self.sigs if tuple(pt for _, pt in s.params) == t[1] and s.ret == t[2] and s.pure
                     and s.name != sig.name and s.kind != "hof" and (not s.imported or self.f["import_fnvalue"])]
                if not c:
                    return None
                args.append(("fnref", r.choice(c).name))
            else:
                args.append(self.literal(t))
        return args

    def observe(self, call, t, lab):
        """statements that print an observation of `call` (of type t), labelled"""
        if t == "string":
            return [("print", ("bin", "+", ("str", lab + "="), call), True)]
        if t in ("int", "bool"):
            return [("print", ("str", lab + "="), False), ("print", call, True)] if self.f["print_noline"] else \
                   [("print", ("str", lab + "="), True), ("print", call, True)]
        if t == "void":
            return [("expr", call), ("print", ("str", lab + "=void"), True)]
        if t == "float":
            return [("print", ("str", lab + "=f"), False), ("print", ("bin", "<", call, ("float", 1.0)), True)]
        v = self.fresh("o")
        out = [("let", v, t, False, call)]
        if t[0] == "struct":
            for f, ft in self.structs[t[1]]:
                if ft in ("int", "bool", "string"):
                    out += self.observe(("field", ("var", v), f), ft, lab + "." + f)
        elif t[0] == "tuple":
            for i, ct in enumerate(t[1]):
                out += self.observe(("tidx", ("var", v), i), ct, lab + ".%d" % i)
        elif t[0] == "array":
            out += self.observe(("call", "array_length", [("var", v)]), "int", lab + ".len")
            if t[1] in ("int", "bool", "string"):
                out.append(("if", ("bin", ">", ("call", "array_length", [("var", v)]), ("int", 0)),
                            self.observe(("call", "at", [("var", v), ("int", 0)]), t[1], lab + ".0"), None))
        elif t[0] == "enum":
            out += self.observe(("bin", "==", ("var", v), ("enumv", t[1], self.enums[t[1]][0][0])), "bool", lab + ".is0")
        else:
            out.append(("print", ("str", lab + "=obj"), True))
        return out

    # ---- whole program ----------------------------------------------------
    def generate(self):
        r = self.r
        self.cur_pure_only = True
        self.no_effects = False
        self.no_mut_reads = False
        self.cur_touched_impure = False
        self.gen_decls()
        self.helper_funcs()
        main_mod = self.prog.main
        nfun = r.randint(2, int(3 + 5 * self.size))
        use_module = self.f["multifile"] and self.chance(0.33)
        module = None
        if use_module:
            module = A.Module("m1")
            self.prog.modules.append(module)
            self.tag("multifile")
        idx = 0
        pairs = []
        while idx < nfun:
            idx += 1
            if self.f["recursion"] and self.chance(0.18):
                for f, sig in self.recursive_function(idx):
                    main_mod.funcs.append(f)
                    self.sigs.append(sig)
                    pairs.append((f, sig))
                continue
            in_mod = module is not None and len(module.funcs) < 3 and self.chance(0.5)
            if in_mod:
                # module functions: scalar-only, pure, may only call earlier module functions
                saved = self.sigs
                self.sigs = [s for s in saved if s.imported]
                saved_f = dict(self.f)
                for k in ("structs", "unions", "enums", "tuples", "effects", "globals", "match_expr"):
                    pass
                st, un, en, tt, cg = self.structs, self.unions, self.enums, self.tuple_types, self.const_globals
                self.structs, self.unions, self.enums, self.tuple_types, self.const_globals = {}, {}, {}, [], []
                self.no_effects_mod = True
                eff = self.f["effects"]
                self.f["effects"] = False
                res = self.gen_function(idx, module=module, pure=True, scalar_only=True)
                self.f["effects"] = eff
                self.structs, self.unions, self.enums, self.tuple_types, self.const_globals = st, un, en, tt, cg
                self.sigs = saved
                if res:
                    f, sig = res
                    module.funcs.append(f)
                    self.sigs.append(sig)
                    pairs.append((f, sig))
                continue
            res = self.gen_function(idx)
            if res:
                f, sig = res
                main_mod.funcs.append(f)
                self.sigs.append(sig)
                pairs.append((f, sig))
        if module is not None:
            if module.funcs:
                main_mod.imports.append(("m1.nano", [f.name for f in module.funcs]))
            else:
                self.prog.modules.remove(module)
                self.tags.discard("multifile")
        # shadow blocks + mirrored calls in main
        main_body = []
        for f, sig in pairs:
            calls = []
            if sig.pure:
                for _ in range(r.randint(1, 3)):
                    a = self.shadow_args(sig)
                    if a is not None:
                        calls.append(("call", sig.name, a))
            f.calls = calls
            f.shadow = [("assert", ("bool", True))]
        self.cur_fn = "main"
        self.cur_pure_only = False
        sc = Scope()
        extra = self.stmts(sc, r.randint(2, int(4 + 6 * self.size)), 2, None)
        code = 0
        if self.f["exit_codes"] and self.chance(0.25):
            code = r.choice([1, 3, 7, 42, 255])
            self.tag("exit.nonzero")
        self.pairs = pairs
        self.main_extra = extra
        self.exit_code = code
        return self.finish()

    def finish(self):
        """Evaluate shadow calls with the reference model, build shadow blocks with expected values and the
        mirrored main.  Returns the Program or None when the program leaves the defined zone."""
        prog = self.prog
        main_fn = A.Func("main", [], "int", [("return", ("int", 0))], shadow=[("assert", ("bool", True))])
        prog.main.funcs.append(main_fn)
        main_body = []
        try:
            it = Interp(prog, max_steps=200000)
        except (Fault, Budget, KeyError, TypeError, IndexError):
            return None
        for f, sig in self.pairs:
            good = []
            for ci, call in enumerate(f.calls):
                lab = "%s#%d" % (f.name, ci)
                obs = self.observe(call, sig.ret, lab)
                probe = A.Func("_probe", [], "void", obs)
                it2 = Interp(prog, max_steps=60000)
                try:
                    it2.call(probe, [])
                except (Fault, Budget, RecursionError):
                    continue
                if it2.overflowed:
                    continue
                expect = None
                if sig.ret in ("int", "bool", "string"):
                    it3 = Interp(prog, max_steps=60000)
                    try:
                        val = it3.ev(call, __import__("nlv.gen.ref", fromlist=["Env"]).Env())
                    except (Fault, Budget, RecursionError):
                        continue
                    expect = ("int", val) if sig.ret == "int" else ("bool", val) if sig.ret == "bool" else ("str", val)
                    if sig.ret == "string" and any(ord(ch) < 32 or ord(ch) > 126 or ch in '"\\' for ch in val):
                        expect = None
                good.append((obs, call, expect))
            if good:
                sh = [("print", ("str", "<<S " + f.name), True)]
                mb = [("print", ("str", "<<S " + f.name), True)]
                for ai, (obs, call, expect) in enumerate(good):
                    sh += obs
                    mb += obs
                    if expect is not None:
                        cond = ("bin", "==", call, expect)
                        sh.append(("assert", cond))
                        # the compiled program reports the truth value of the same assertion (C03 oracle 2)
                        av = self.fresh("a")
                        mb.append(("print", ("str", "A<"), True))
                        mb.append(("let", av, "bool", False, cond))
                        mb.append(("print", ("bin", "+", ("str", "A>%s#%d=" % (f.name, ai)), ("cond", [(("var", av), ("str", "true"))], ("str", "false"))), True))
                sh.append(("print", ("str", ">>E " + f.name), True))
                mb.append(("print", ("str", ">>E " + f.name), True))
                f.shadow = sh
                f.mirror = mb
                main_body += mb
        main_body += self.main_extra
        main_body.append(("return", ("int", self.exit_code)))
        main_fn.body = main_body
        prog.tags = set(self.tags)
        return prog


def evaluate(prog, max_steps=1000000):
    """Run the reference model on a finished program.  Returns dict(stdout, exit, shadow={fn:(out,asserts,fault)})
    or None when the program leaves the defined zone (fault, overflow, budget)."""
    try:
        it = Interp(prog, max_steps=max_steps)
        out, code, fault = it.run_main()
    except (Budget, RecursionError):
        return None
    if fault is not None or it.overflowed:
        return None
    res = {"stdout": out, "exit": code, "steps": it.steps, "depth": it.max_depth_seen, "builtins": sorted(it.builtins_used), "shadow": {}}
    for f in prog.all_funcs():
        if f.shadow:
            it2 = Interp(prog, max_steps=max_steps)
            try:
                so, asserts, sf = it2.run_shadow(f)
            except (Budget, RecursionError):
                return None
            if it2.overflowed:
                return None
            res["shadow"][f.name] = (so, asserts, sf)
    return res


# constructs on which only nanoc's compile-time evaluator is wrong: usable when the shadow blocks are neutral
EVALUATOR_ONLY_SWITCHES = {"block_shadow": True, "string_field_direct": True, "aggregate_string_alias": True,
                           "self_assign": True, "fnvalue_copy": True}


def make_program(rng, features=None, size=1.0, tries=60, neutral_shadows=False):
    """Generate until a program inside the defined zone comes out.  Returns (Program, expected) or (None, None).
    neutral_shadows: every shadow block is `assert true` (the compile-time evaluator then runs none of the
    program's code), which allows constructs on which only the evaluator is wrong."""
    import random
    for _ in range(tries):
        sub = random.Random(rng.getrandbits(64))
        g = Gen(sub, features, size)
        try:
            prog = g.generate()
            if prog is not None and neutral_shadows:
                for f in prog.all_funcs():
                    if f.shadow:
                        f.shadow = [("assert", ("bool", True))]
                prog.tags.add("neutral-shadows")
                # definition order is not part of a program's meaning (census cells forward_call, forward_fnvalue_print):
                # print the functions of the main module in a random order, so that callees also lie behind their callers
                # (the generator itself only ever calls functions it has already produced).  Restricted to neutral-shadow
                # programs, where no shadow block runs program code and the order of shadow blocks is immaterial.
                if sub.random() < 0.6:
                    sub.shuffle(prog.main.funcs)
                    prog.tags.add("fn-order-shuffled")
            if prog is not None:
                prog.files()          # an incomplete construct (None expression) cannot be printed: discard
            exp = evaluate(prog) if prog is not None else None
        except (RecursionError, TypeError, KeyError, IndexError, AttributeError):
            # a construct the generator could not complete (e.g. no function of a requested function type exists)
            prog = exp = None
        if prog is None:
            continue
        if exp is None:
            continue
        # every shadow assertion must hold in a program meant to be accepted
        if any(sf is not None or not all(a) for _, a, sf in exp["shadow"].values()):
            continue
        if len(exp["stdout"].splitlines()) < 3:
            continue
        return prog, exp
    return None, None
