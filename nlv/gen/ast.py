"""AST of the generator's core-language subset and its pretty printers (DESIGN §3.1, Appendix B).

Types are: 'int' 'bool' 'string' 'float' 'void', ('array',T), ('struct',name), ('enum',name),
('union',name), ('tuple',(T,...)), ('fn',(T,...),T).

Expressions are tuples whose first element is the node kind:
  ('int',n) ('bool',b) ('str',s) ('float',x) ('var',name) ('fnref',name)
  ('bin',op,a,b)  op in + - * / % == != < <= > >= and or
  ('un',op,a)     op in neg not
  ('call',name,[args])          user function or builtin
  ('callv',fexpr,[args])        call through a function value
  ('cond',[(c,e)...],else_e)
  ('arr',T,[e...]) ('structlit',sname,[(f,e)...]) ('field',e,f)
  ('tuple',[e...]) ('tidx',e,k) ('enumv',ename,variant) ('unionlit',uname,variant,[(f,e)...])
  ('matche',e,[(variant,bind,expr)...])
Statements:
  ('let',name,T,mut,e) ('set',name,e) ('if',c,then,else|None) ('while',c,body)
  ('for',var,lo,hi,body) ('break',) ('continue',) ('return',e|None) ('print',e,newline)
  ('assert',e) ('expr',e) ('match',e,[(variant,bind,[stmts])...])
"""

BINOPS_ARITH = ["+", "-", "*", "/", "%"]
BINOPS_CMP = ["==", "!=", "<", "<=", ">", ">="]
BINOPS_LOGIC = ["and", "or"]


def tstr(t):
    if isinstance(t, str):
        return t
    k = t[0]
    if k == "array":
        return "array<%s>" % tstr(t[1])
    if k in ("struct", "enum", "union"):
        return t[1]
    if k == "tuple":
        return "(" + ", ".join(tstr(x) for x in t[1]) + ")"
    if k == "fn":
        return "fn(" + ", ".join(tstr(x) for x in t[1]) + ") -> " + tstr(t[2])
    raise ValueError(t)


def strlit(s):
    out = ['"']
    for ch in s:
        if ch == '"':
            out.append('\\"')
        elif ch == "\\":
            out.append("\\\\")
        elif ch == "\n":
            out.append("\\n")
        elif ch == "\t":
            out.append("\\t")
        else:
            out.append(ch)
    out.append('"')
    return "".join(out)


def floatlit(x):
    s = repr(float(x))
    if "e" in s or "inf" in s or "nan" in s:
        raise ValueError("float literal %r not printable" % x)
    return s


class Printer:
    """prefix printer (default).  infix=True prints binary/unary operators in infix notation following the
    discipline of DESIGN §4 C07 (left-assoc chains without parentheses where the tree is a left comb)."""

    def __init__(self, infix=False):
        self.infix = infix

    # ---- expressions ------------------------------------------------------
    def e(self, x):
        k = x[0]
        if k == "int":
            return str(x[1])
        if k == "bool":
            return "true" if x[1] else "false"
        if k == "str":
            return strlit(x[1])
        if k == "float":
            return floatlit(x[1])
        if k in ("var", "fnref"):
            return x[1]
        if k == "bin":
            if self.infix:
                return "(" + self.infix_chain(x) + ")"
            return "(%s %s %s)" % (x[1], self.e(x[2]), self.e(x[3]))
        if k == "un":
            op = "-" if x[1] == "neg" else "not"
            return "(%s %s)" % (op, self.e(x[2]))
        if k == "call":
            if not x[2]:
                return "(%s)" % x[1]
            return "(%s %s)" % (x[1], " ".join(self.e(a) for a in x[2]))
        if k == "callv":
            if not x[2]:
                return "(%s)" % self.e(x[1])
            return "(%s %s)" % (self.e(x[1]), " ".join(self.e(a) for a in x[2]))
        if k == "cond":
            parts = ["(%s %s)" % (self.e(c), self.e(v)) for c, v in x[1]]
            parts.append("(else %s)" % self.e(x[2]))
            return "(cond " + " ".join(parts) + ")"
        if k == "arr":
            return "[" + ", ".join(self.e(a) for a in x[2]) + "]"
        if k == "structlit":
            return "%s { %s }" % (x[1], ", ".join("%s: %s" % (f, self.e(v)) for f, v in x[2]))
        if k == "field":
            return "%s.%s" % (self.e(x[1]), x[2])
        if k == "tuple":
            return "(" + ", ".join(self.e(a) for a in x[1]) + ")"
        if k == "tidx":
            return "%s.%d" % (self.e(x[1]), x[2])
        if k == "enumv":
            return "%s.%s" % (x[1], x[2])
        if k == "unionlit":
            return "%s.%s { %s }" % (x[1], x[2], ", ".join("%s: %s" % (f, self.e(v)) for f, v in x[3]))
        if k == "matche":
            arms = ", ".join("%s(%s) => %s" % (v, b, self.e(a)) for v, b, a in x[2])
            return "match %s { %s }" % (self.e(x[1]), arms)
        raise ValueError(k)

    def infix_chain(self, x):
        # left comb a op b op c ... printed flat; right operands that are binary get parentheses (via e())
        op, a, b = x[1], x[2], x[3]
        left = self.infix_chain(a) if a[0] == "bin" else self.e(a)
        return "%s %s %s" % (left, op, self.e(b))

    # ---- statements -------------------------------------------------------
    def block(self, stmts, ind):
        out = []
        for s in stmts:
            out.extend(self.s(s, ind))
        return out

    def s(self, x, ind):
        p = "    " * ind
        k = x[0]
        if k == "let":
            return ["%slet %s%s: %s = %s" % (p, "mut " if x[3] else "", x[1], tstr(x[2]), self.e(x[4]))]
        if k == "set":
            return ["%sset %s %s" % (p, x[1], self.e(x[2]))]
        if k == "if":
            out = ["%sif %s {" % (p, self.e(x[1]))]
            out += self.block(x[2], ind + 1)
            els = x[3]
            while els is not None and len(els) == 1 and els[0][0] == "if" and els[0][-1] != "noelif":
                i2 = els[0]
                out.append("%s} else if %s {" % (p, self.e(i2[1])))
                out += self.block(i2[2], ind + 1)
                els = i2[3]
            if els is not None:
                out.append("%s} else {" % p)
                out += self.block(els, ind + 1)
            out.append("%s}" % p)
            return out
        if k == "while":
            return ["%swhile %s {" % (p, self.e(x[1]))] + self.block(x[2], ind + 1) + ["%s}" % p]
        if k == "for":
            return ["%sfor %s in (range %s %s) {" % (p, x[1], self.e(x[2]), self.e(x[3]))] + self.block(x[4], ind + 1) + ["%s}" % p]
        if k == "break":
            return [p + "break"]
        if k == "continue":
            return [p + "continue"]
        if k == "return":
            return [p + ("return" if x[1] is None else "return %s" % self.e(x[1]))]
        if k == "print":
            return ["%s(%s %s)" % (p, "println" if x[2] else "print", self.e(x[1]))]
        if k == "assert":
            return ["%sassert %s" % (p, self.e(x[1]))]
        if k == "expr":
            return [p + self.e(x[1])]
        if k == "match":
            out = ["%smatch %s {" % (p, self.e(x[1]))]
            arms = x[2]
            for i, (v, b, body) in enumerate(arms):
                out.append("%s    %s(%s) => {" % (p, v, b))
                out += self.block(body, ind + 2)
                out.append("%s    }%s" % (p, "," if i < len(arms) - 1 else ""))
            out.append("%s}" % p)
            return out
        raise ValueError(k)


class Func:
    def __init__(self, name, params, ret, body, shadow=None, pub=False):
        self.name = name
        self.params = params      # [(name, type)]
        self.ret = ret
        self.body = body          # [stmts]
        self.shadow = shadow      # [stmts] or None (None => no shadow block printed)
        self.pub = pub
        self.pure = True          # does not touch mutable globals (transitively)
        self.tags = set()


class Module:
    def __init__(self, name="main"):
        self.name = name
        self.imports = []          # [(file, [names])]
        self.structs = []          # [(name, [(f, T)])]
        self.enums = []            # [(name, [(variant, int)])]
        self.unions = []           # [(name, [(variant, [(f,T)])])]
        self.globals = []          # [(name, T, mut, expr)]
        self.funcs = []            # [Func]

    def text(self, printer=None):
        pr = printer or Printer()
        out = []
        for f, names in self.imports:
            out.append('from "%s" import %s' % (f, ", ".join(names)))
        for n, fs in self.structs:
            out.append("struct %s { %s }" % (n, ", ".join("%s: %s" % (f, tstr(t)) for f, t in fs)))
        for n, vs in self.enums:
            out.append("enum %s { %s }" % (n, ", ".join("%s = %d" % (v, i) for v, i in vs)))
        for n, vs in self.unions:
            out.append("union %s {" % n)
            out.append(",\n".join("    %s { %s }" % (v, ", ".join("%s: %s" % (f, tstr(t)) for f, t in fs)) for v, fs in vs))
            out.append("}")
        for n, t, mut, e in self.globals:
            out.append("let %s%s: %s = %s" % ("mut " if mut else "", n, tstr(t), pr.e(e)))
        for fn in self.funcs:
            out.append("%sfn %s(%s) -> %s {" % ("pub " if fn.pub else "", fn.name,
                                                 ", ".join("%s: %s" % (n, tstr(t)) for n, t in fn.params), tstr(fn.ret)))
            out += pr.block(fn.body, 1)
            out.append("}")
            if fn.shadow is not None:
                out.append("shadow %s {" % fn.name)
                out += pr.block(fn.shadow, 1)
                out.append("}")
        return "\n".join(out) + "\n"


class Program:
    """A main module plus imported modules; carries feature tags and generation metadata."""

    def __init__(self):
        self.main = Module("main")
        self.modules = []          # imported Modules (file name = name + '.nano')
        self.tags = set()
        self.meta = {}

    def files(self, printer=None):
        out = {"main.nano": self.main.text(printer)}
        for m in self.modules:
            out[m.name + ".nano"] = m.text(printer)
        return out

    def all_funcs(self):
        for m in self.modules:
            for f in m.funcs:
                yield f
        for f in self.main.funcs:
            yield f
