"""Generator-level delta debugging (DESIGN App. B 'Shrinking'): remove functions / statements while an oracle
keeps failing in the same way.  Bounded by a number of oracle calls."""
import copy

from . import gen


def _stmt_lists(prog):
    """yield every statement list (as a mutable python list) of the program"""
    def walk(lst):
        yield lst
        for s in lst:
            k = s[0]
            if k == "if":
                for b in (s[2], s[3]):
                    if isinstance(b, list):
                        yield from walk(b)
            elif k in ("while",):
                yield from walk(s[2])
            elif k == "for":
                yield from walk(s[4])
            elif k == "match":
                for arm in s[2]:
                    yield from walk(arm[2])
    for f in prog.all_funcs():
        yield from walk(f.body)
        if f.shadow:
            yield from walk(f.shadow)


def _expr_calls(e, out):
    if isinstance(e, (list, tuple)):
        if isinstance(e, tuple) and e and e[0] == "call":
            out.append(e[1])
        if isinstance(e, tuple) and e and e[0] == "fnref":
            out.append(e[1])
        for x in e:
            if isinstance(x, (list, tuple)):
                _expr_calls(x, out)


def _expr_vars(e, out):
    if isinstance(e, list):
        for x in e:
            _expr_vars(x, out)
        return
    if not isinstance(e, tuple) or not e:
        return
    if e[0] == "var":
        out.append(e[1])
        return
    if e[0] == "matche":
        _expr_vars(e[1], out)
        for v, b, a in e[2]:
            sub = []
            _expr_vars(a, sub)
            out.extend(x for x in sub if x != b)
        return
    for x in e[1:]:
        if isinstance(x, (tuple, list)):
            _expr_vars(x, out)


def wellscoped(prog):
    """every variable reference resolves lexically (locals, params, globals, function names)"""
    glob = set()
    for m in list(prog.modules) + [prog.main]:
        glob.update(n for n, _, _, _ in m.globals)
    fnames = set(f.name for f in prog.all_funcs())

    def block(stmts, scope):
        scope = set(scope)
        for s in stmts:
            k = s[0]
            used = []
            if k == "let":
                _expr_vars(s[4], used)
            elif k == "set":
                used.append(s[1])
                _expr_vars(s[2], used)
            elif k in ("if", "while"):
                _expr_vars(s[1], used)
            elif k == "for":
                _expr_vars(s[2], used)
                _expr_vars(s[3], used)
            elif k in ("return", "print", "assert", "expr", "match"):
                _expr_vars(s[1], used)
            for u in used:
                if u not in scope and u not in glob and u not in fnames:
                    return False
            if k == "let":
                scope.add(s[1])
            elif k == "if":
                if not block(s[2], scope) or (s[3] is not None and not block(s[3], scope)):
                    return False
            elif k == "while":
                if not block(s[2], scope):
                    return False
            elif k == "for":
                if not block(s[4], scope | {s[1]}):
                    return False
            elif k == "match":
                for v, b, body in s[2]:
                    if not block(body, scope | {b}):
                        return False
        return True

    for f in prog.all_funcs():
        if not block(f.body, set(n for n, _ in f.params)):
            return False
        if f.shadow and not block(f.shadow, set()):
            return False
    # calls must resolve too (user functions, function-typed variables, builtins)
    for f in prog.all_funcs():
        calls = []
        _expr_calls(f.body, calls)
        _expr_calls(f.shadow or [], calls)
        for c in calls:
            if c not in fnames and c not in gen.BUILTIN_NAMES and not (c[:1] in "vpo" and c[1:].isdigit()):
                return False
    return True


def _mutable(prog):
    """deep copy with statement tuples turned into lists-of-lists where needed (tuples are immutable, blocks are lists)"""
    return copy.deepcopy(prog)


def reduce(prog, still_fails, budget=200):
    """prog: Program; still_fails(Program, expected) -> bool.  Returns the smallest failing Program found."""
    calls = [0]

    def ok(p):
        if calls[0] >= budget:
            return False
        exp = None
        if not wellscoped(p):
            return False
        try:
            exp = gen.evaluate(p, max_steps=300000)
        except Exception:
            return False
        if exp is None:
            return False
        calls[0] += 1
        try:
            return still_fails(p, exp)
        except Exception:
            return False

    best = _mutable(prog)
    # 1. neutralise shadow blocks
    cand = _mutable(best)
    for f in cand.all_funcs():
        if f.shadow:
            f.shadow = [("assert", ("bool", True))]
    if ok(cand):
        best = cand
    changed = True
    while changed and calls[0] < budget:
        changed = False
        # 2. drop whole functions (from the end)
        for mi in range(len(best.modules) + 1):
            mod_funcs = (best.modules[mi].funcs if mi < len(best.modules) else best.main.funcs)
            for i in range(len(mod_funcs) - 1, -1, -1):
                if mod_funcs[i].name == "main":
                    continue
                cand = _mutable(best)
                m = cand.modules[mi] if mi < len(cand.modules) else cand.main
                name = m.funcs[i].name
                del m.funcs[i]
                for imp in cand.main.imports:
                    if name in imp[1]:
                        imp[1].remove(name)
                cand.main.imports = [imp for imp in cand.main.imports if imp[1]]
                if ok(cand):
                    best = cand
                    changed = True
                    break
        # 3. drop statements, largest chunks first
        li = 0
        while li < len(list(_stmt_lists(best))) and calls[0] < budget:
            size = len(list(_stmt_lists(best))[li])
            chunk = max(1, size // 2)
            while chunk >= 1 and calls[0] < budget:
                i = 0
                while calls[0] < budget:
                    lists = list(_stmt_lists(best))
                    if li >= len(lists) or i >= len(lists[li]):
                        break
                    cand = _mutable(best)
                    cl = list(_stmt_lists(cand))[li]
                    if any(st[0] == "return" for st in cl[i:i + chunk]):
                        i += 1 if chunk == 1 else chunk
                        if chunk > 1:
                            continue
                        continue
                    del cl[i:i + chunk]
                    if ok(cand):
                        best = cand
                        changed = True
                    else:
                        i += chunk
                chunk //= 2
            li += 1
    return best
