"""Generator-level delta debugging (DESIGN App. B 'Shrinking'): remove functions / statements while an oracle
keeps failing in the same way.  Bounded by a number of oracle calls."""
import copy

from . import gen


def _stmt_lists(prog):
    """yield every statement list (as a mutable python list) of the program"""
    def walk(lst):
        yield lst
        for s in lst:
            k = s[0]
            if k == "if":
                for b in (s[2], s[3]):
                    if isinstance(b, list):
                        yield from walk(b)
            elif k in ("while",):
                yield from walk(s[2])
            elif k == "for":
                yield from walk(s[4])
            elif k == "match":
                for arm in s[2]:
                    yield from walk(arm[2])
    for f in prog.all_funcs():
        yield from walk(f.body)
        if f.shadow:
            yield from walk(f.shadow)


def _mutable(prog):
    """deep copy with statement tuples turned into lists-of-lists where needed (tuples are immutable, blocks are lists)"""
    return copy.deepcopy(prog)


def reduce(prog, still_fails, budget=200):
    """prog: Program; still_fails(Program, expected) -> bool.  Returns the smallest failing Program found."""
    calls = [0]

    def ok(p):
        if calls[0] >= budget:
            return False
        exp = None
        try:
            exp = gen.evaluate(p, max_steps=300000)
        except Exception:
            return False
        if exp is None:
            return False
        calls[0] += 1
        try:
            return still_fails(p, exp)
        except Exception:
            return False

    best = _mutable(prog)
    # 1. neutralise shadow blocks
    cand = _mutable(best)
    for f in cand.all_funcs():
        if f.shadow:
            f.shadow = [("assert", ("bool", True))]
    if ok(cand):
        best = cand
    changed = True
    while changed and calls[0] < budget:
        changed = False
        # 2. drop whole functions (from the end)
        for mi in range(len(best.modules) + 1):
            mod_funcs = (best.modules[mi].funcs if mi < len(best.modules) else best.main.funcs)
            for i in range(len(mod_funcs) - 1, -1, -1):
                if mod_funcs[i].name == "main":
                    continue
                cand = _mutable(best)
                m = cand.modules[mi] if mi < len(cand.modules) else cand.main
                name = m.funcs[i].name
                del m.funcs[i]
                for imp in cand.main.imports:
                    if name in imp[1]:
                        imp[1].remove(name)
                cand.main.imports = [imp for imp in cand.main.imports if imp[1]]
                if ok(cand):
                    best = cand
                    changed = True
                    break
        # 3. drop statements, largest chunks first
        li = 0
        while li < len(list(_stmt_lists(best))) and calls[0] < budget:
            size = len(list(_stmt_lists(best))[li])
            chunk = max(1, size // 2)
            while chunk >= 1 and calls[0] < budget:
                i = 0
                while calls[0] < budget:
                    lists = list(_stmt_lists(best))
                    if li >= len(lists) or i >= len(lists[li]):
                        break
                    cand = _mutable(best)
                    cl = list(_stmt_lists(cand))[li]
                    del cl[i:i + chunk]
                    if ok(cand):
                        best = cand
                        changed = True
                    else:
                        i += chunk
                chunk //= 2
            li += 1
    return best
