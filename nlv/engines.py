"""Running one program on the engines and collecting what each printed / returned (shared by C01-C04, C06)."""
import os
import re

from .run import run as sh


class Obs:
    """observations of one program on one flavor"""

    def __init__(self):
        self.nanoc = None        # Result of nanoc (build)
        self.built = False
        self.native = None       # Result of the native binary
        self.vm = None           # Result of nano_virt --run
        self.dir = None


def write_files(d, files):
    os.makedirs(d, exist_ok=True)
    for fn, text in files.items():
        with open(os.path.join(d, fn), "w") as f:
            f.write(text)


def build_native(flavor, d, main="main.nano", out="main.bin", verbose=False, cpu=120, san=False):
    try:
        os.unlink(os.path.join(d, out))
    except OSError:
        pass
    cmd = [flavor.nanoc, main, "-o", out]
    if verbose:
        cmd.append("--verbose")
    env = flavor.fastcc_env({"TMPDIR": d})
    r = sh(cmd, cwd=d, env=env, cpu=cpu, san=san)
    built = r.rc == 0 and os.path.exists(os.path.join(d, out))
    return r, built


def run_native(d, out="main.bin", cpu=10, san=False, stdin=None):
    return sh([os.path.join(d, out)], cwd=d, cpu=cpu, san=san, stdin=stdin)


def run_vm(flavor, d, main="main.nano", cpu=10, san=False, fuel=None, env=None):
    e = dict(env or {})
    if fuel:
        e["NLVERIF_FUEL"] = str(fuel)
    return sh([flavor.nano_virt, main, "--run"], cwd=d, env=e, cpu=cpu, san=san)


def observe(flavor, d, files, native=True, vm=True, verbose=False, san=False):
    o = Obs()
    o.dir = d
    write_files(d, files)
    if native:
        o.nanoc, o.built = build_native(flavor, d, verbose=verbose, san=san)
        if o.built:
            o.native = run_native(d, san=san)
    if vm:
        o.vm = run_vm(flavor, d, san=san)
    return o


def classify_nanoc_failure(r):
    """why did nanoc not produce a binary: 'cc' / 'shadow' / 'type' / 'parse' / 'crash' / 'other'"""
    t = r.errtext() + r.text()
    if r.sig:
        return "crash"
    if "C compilation failed" in t:
        return "cc"
    if "Shadow test" in t and "FAILED" in t:
        return "shadow"
    if "free():" in t or "double free" in t or "invalid pointer" in t:
        return "crash"
    if "Type checking failed" in t or "type check failed" in t:
        return "type"
    if "Parsing failed" in t:
        return "parse"
    if "Transpilation failed" in t:
        return "transpile"
    return "other"


def cc_error_class(r):
    t = r.errtext()
    m = re.search(r"error: (.*)", t)
    if not m:
        return "?"
    msg = m.group(1)
    w = re.search(r"\[-Werror=([a-z-]+)\]", msg)
    if w:
        return "-Werror=" + w.group(1)
    msg = re.sub(r"[‘'`][^’']*[’']", "'_'", msg)
    msg = re.sub(r"\d+", "N", msg)
    return msg[:60]


def first_diff(a, b):
    """index and the two lines where two texts first differ (None when equal)"""
    la, lb = a.split("\n"), b.split("\n")
    for i in range(max(len(la), len(lb))):
        x = la[i] if i < len(la) else None
        y = lb[i] if i < len(lb) else None
        if x != y:
            return i, x, y
    return None


LABEL_RE = re.compile(r"^(L\d+|f\d+b?#\d+[.\w]*|t|<<S|>>E)[:= ]")


def diff_label(line):
    """the generator label a differing output line starts with (identifies the responsible statement)"""
    if line is None:
        return "EOF"
    m = LABEL_RE.match(line)
    return m.group(1) if m else "?"
