"""Two program families of the C10 check (kept apart from nlv/checks/c10.py for size).

limit family      - compiler-produced modules at and around every table limit of the format (nvm_format.h) and of the
                    code generator (codegen.c MAX_*): function table incl. the synthetic __init__ entry, string pool
                    size, string length, locals per function, code bytes per function (straight line and as the body of
                    an if / a while: jump offsets), imports, globals, struct / enum / union definitions.
interleave family - programs that mix VM prints with foreign writes to fd 1 and fd 2 through extern functions
                    (write, system, puts, putchar), for the runner-equivalence clause; observed with stdout as a pipe
                    and as a file.
"""
import os
import resource
import signal
import subprocess
import time

from .run import Result

SH = "shadow %s { assert true }\n"


def _main(body, ret=3):
    return "fn main() -> int {\n%s    return %d\n}\n%s" % (body, ret, SH % "main")


# ------------------------------------------------------------------------------------------------ limit family

def p_functions(n_user, with_global):
    """n_user functions including main; with_global adds top-level lets (=> the compiler appends __init__)"""
    out = []
    if with_global:
        out.append('let GREETING: string = "hello from a global"\nlet BASE: int = 40\n')
    for k in range(n_user - 1):
        out.append("fn f%d(x: int) -> int {\n    return (+ x %d)\n}\n%s" % (k, k, SH % ("f%d" % k)))
    last = n_user - 2
    body = '    (println "MAIN-START")\n'
    if with_global:
        body += "    (println GREETING)\n    (println (+ BASE (f0 2)))\n"
    body += "    (println (f%d 0))\n    (println (f%d 1))\n" % (last, last // 2)
    out.append(_main(body))
    return "".join(out)


def p_strings(n_literals):
    body = "".join('    (println "s%d")\n' % i for i in range(n_literals))
    return _main(body, 7)


def p_string_length(length):
    lit = ("a" * (length - 1) + "Z") if length else ""
    return _main('    let s: string = "%s"\n    (println (str_length s))\n    (println (str_length (+ s "!")))\n' % lit, 42)


def p_locals(k):
    body = "".join("    let v%d: int = %d\n" % (i, i) for i in range(k))
    return ("fn g() -> int {\n%s    return (+ v0 v%d)\n}\n%s" % (body, k - 1, SH % "g")) + _main("    (println (g))\n", 3)


# filler statements of different encoded sizes (measured by calibration, 16 / 7 / 6 / 26 bytes at the time of writing): a mix
# of them hits a byte count exactly
STMT_KINDS = ["    set x (+ x 1)\n", "    set x (- x)\n", "    set x x\n", "    set x (+ (+ x 1) 1)\n"]


def p_code(counts, wrap=None):
    """one function whose body is counts[k] copies of STMT_KINDS[k]; wrap: None | 'if' | 'while'"""
    body = "".join(STMT_KINDS[k] * c for k, c in enumerate(counts))
    if wrap == "if":
        body = "    if (>= x 0) {\n%s    }\n" % body
    elif wrap == "while":
        body = "    let mut i: int = 0\n    while (< i 2) {\n%s    set i (+ i 1)\n    }\n" % body
    return ("fn big() -> int {\n    let mut x: int = 0\n%s    return x\n}\n%s" % (body, SH % "big")) + \
        _main('    (println "MAIN-START")\n    (println (big))\n', 1)


def p_externs(k):
    return "".join("extern fn zz_c10_%d(a: int) -> int\n" % i for i in range(k)) + _main('    (println "externs declared")\n', 255)


def p_globals(k):
    return "".join("let G%d: int = %d\n" % (i, i) for i in range(k)) + _main("    (println (+ G0 G%d))\n" % (k - 1), 3)


def p_structs(k):
    return "".join("struct S%d { a: int }\n" % i for i in range(k)) + \
        _main("    let s: S%d = S%d { a: %d }\n    (println s.a)\n    let t: S0 = S0 { a: 5 }\n    (println t.a)\n" % (k - 1, k - 1, k), 3)


def p_enums(k):
    return "".join("enum E%d { A%d, B%d }\n" % (i, i, i) for i in range(k)) + \
        _main("    let e: E%d = E%d.B%d\n    (println (== e E%d.B%d))\n    (println (== e E%d.A%d))\n" % ((k - 1,) * 7), 3)


def p_unions(k):
    return "".join("union U%d {\n    V%d { a: int },\n    W%d { b: bool }\n}\n" % (i, i, i) for i in range(k)) + \
        _main("    let u: U%d = U%d.V%d { a: 9 }\n    match u {\n        V%d(p) => { (println p.a) }\n        W%d(q) => { (println q.b) }\n    }\n" % ((k - 1,) * 5), 3)


def calibration_programs():
    progs = {"cal_strings": p_strings(5), "cal_externs": p_externs(5)}
    for k in range(len(STMT_KINDS)):
        for n in (4, 8):
            c = [0] * len(STMT_KINDS)
            c[k] = n
            progs["cal_code_%d_%d" % (k, n)] = p_code(c)
    for wrap in ("if", "while"):
        for n in (4, 8):
            progs["cal_code_%s_%d" % (wrap, n)] = p_code([n] + [0] * (len(STMT_KINDS) - 1), wrap)
    return progs


def _solve(target, base, sizes):
    """statement counts with base + sum(counts*sizes) == target, mostly of kind 0 and with as few others as possible"""
    a = sizes[0]
    if not a or a <= 0:
        return None
    need = target - base
    others = [(k, sz) for k, sz in enumerate(sizes) if k and sz and sz > 0]
    best = None
    for i, (k1, s1) in enumerate(others or [(0, 0)]):
        for (k2, s2) in (others[i:] or [(0, 0)]):
            for n1 in range(0, 24):
                for n2 in range(0, 24):
                    if (k1 == k2 and n2) or (not k1 and (n1 or n2)):
                        continue
                    rest = need - n1 * s1 - n2 * s2
                    if rest >= 0 and rest % a == 0 and (best is None or n1 + n2 < best[0]):
                        c = [0] * len(sizes)
                        c[0] = rest // a
                        if k1:
                            c[k1] += n1
                        if k2:
                            c[k2] += n2
                        best = (n1 + n2, c)
    return best[1] if best else None


def limit_programs(cal):
    """cal: name -> probe record (dict of str) for calibration_programs().  Returns ([(name, text, expect)], notes);
    expect = {record field: value} the measured module must show (checked by the caller: a cell that misses its
    boundary is reported in the evidence, it is not a violation)."""
    out = []
    notes = []
    for n in (255, 256, 257, 511, 512, 513):
        for g in (False, True):
            # function table = n user functions (+ __init__ when there are globals)
            out.append(("functions_%d%s" % (n, "_plus_init" if g else ""), p_functions(n, g), {"funcs": n + (1 if g else 0)}))
    # string pool size
    if "cal_strings" in cal:
        const = int(cal["cal_strings"]["strings"]) - 5
        for t in (255, 256, 257, 4095, 4096, 4097):
            out.append(("string_pool_%d" % t, p_strings(t - const), {"strings": t}))
    else:
        notes.append("string pool calibration program not accepted")
    for ln in (0, 1, 255, 256, 65535, 65536, 65537):
        out.append(("string_length_%d" % ln, p_string_length(ln), {"maxstr": ln} if ln >= 5 else {}))
    for k in (254, 255, 256, 257):
        out.append(("locals_%d" % k, p_locals(k), {"maxlocals": k} if k <= 256 else {}))
    # code bytes per function (two-point calibration: bytes per statement of each kind, bytes of the function's frame)
    try:
        def two(prefix):
            m4, m8 = int(cal[prefix + "_4"]["maxfn"]), int(cal[prefix + "_8"]["maxfn"])
            per = (m8 - m4) // 4 if m8 > m4 and (m8 - m4) % 4 == 0 else None
            return per, (m4 - 4 * per if per else None)
        sizes = []
        base = None
        for k in range(len(STMT_KINDS)):
            per, b0 = two("cal_code_%d" % k)
            sizes.append(per)
            if k == 0:
                base = b0
        for t in (32767, 32768, 32769, 65535, 65536, 65537, 140000):
            c = _solve(t, base, sizes)
            if c is None:
                notes.append("no exact statement mix for a %d-byte function (statement sizes %s)" % (t, sizes))
                continue
            out.append(("function_code_%d" % t, p_code(c), {"maxfn": t}))
        for wrap in ("if", "while"):
            per, wbase = two("cal_code_%s" % wrap)
            wsizes = [per] + sizes[1:]
            for t in (32768, 65536, 70000):
                c = _solve(t, wbase, wsizes)
                if c is None:
                    notes.append("no exact statement mix for a %d-byte function with a %s body" % (t, wrap))
                    continue
                out.append(("function_code_%s_body_%d" % (wrap, t), p_code(c, wrap), {"maxfn": t}))
    except (KeyError, TypeError, ValueError) as ex:
        notes.append("code size calibration failed: %r" % (ex,))
    # imports
    if "cal_externs" in cal:
        const = int(cal["cal_externs"]["imports"]) - 5
        if const >= -1:
            for t in (255, 256, 257, 300):
                out.append(("imports_%d" % t, p_externs(t - const), {"imports": min(t, 256)}))
        else:
            notes.append("declared-but-unused externs do not reach the import table (imports=%s for 5 declarations)" % cal["cal_externs"]["imports"])
    for k in (127, 128, 129):
        out.append(("globals_%d" % k, p_globals(k), {}))
        out.append(("structs_%d" % k, p_structs(k), {}))
    for k in (63, 64, 65):
        out.append(("enums_%d" % k, p_enums(k), {}))
        out.append(("unions_%d" % k, p_unions(k), {}))
    return out, notes


# ------------------------------------------------------------------------------------------------ interleave family

EXTERNS = ("extern fn system(cmd: string) -> int\n"
           "extern fn write(fd: int, buf: string, n: int) -> int\n"
           "extern fn puts(s: string) -> int\n"
           "extern fn putchar(c: int) -> int\n")


def interleave_program(rng, idx):
    """-> (text, description).  Every step is either a VM print or a foreign write; the foreign writers go straight to the
    file descriptor (write, the child of system) or through the C library's own stdout (puts, putchar)."""
    steps = []
    kinds = []
    n = rng.randint(3, 14)
    big_at = rng.randrange(n) if idx % 3 == 0 else -1           # a VM burst larger than any stdio buffer
    for k in range(n):
        r = rng.random()
        tag = "%d.%d" % (idx, k)
        if k == big_at:
            cnt = rng.choice([120, 600, 3000])
            steps.append('    let mut i%d: int = 0\n    while (< i%d %d) {\n        (println (+ "vm-burst %s line " (int_to_string i%d)))\n        set i%d (+ i%d 1)\n    }\n'
                         % (k, k, cnt, tag, k, k, k))
            kinds.append("vm-burst%d" % cnt)
        elif r < 0.30:
            steps.append('    (println "vm line %s")\n' % tag)
            kinds.append("vm")
        elif r < 0.38:
            steps.append('    (print "vm-noline %s|")\n' % tag)
            kinds.append("vm-noline")
        elif r < 0.52:
            s = "[write1 %s]" % tag
            if rng.random() < 0.5:      # string literals keep a backslash escape as two characters: the newline is computed
                steps.append('    unsafe { set r (write 1 (+ "%s" (string_from_char 10)) %d) }\n' % (s, len(s) + 1))
            else:
                steps.append('    unsafe { set r (write 1 "%s" %d) }\n' % (s, len(s)))
            kinds.append("write1")
        elif r < 0.62:
            s = "[write2 %s]" % tag
            steps.append('    unsafe { set r (write 2 (+ "%s" (string_from_char 10)) %d) }\n' % (s, len(s) + 1))
            kinds.append("write2")
        elif r < 0.76:
            steps.append('    unsafe { set r (system "echo child1 %s") }\n' % tag)
            kinds.append("system1")
        elif r < 0.84:
            steps.append('    unsafe { set r (system "echo child2 %s 1>&2") }\n' % tag)
            kinds.append("system2")
        elif r < 0.94:
            steps.append('    unsafe { set r (puts "puts %s") }\n' % tag)
            kinds.append("puts")
        else:
            steps.append("    unsafe { set r (putchar %d) }\n" % rng.choice([65, 66, 10]))
            kinds.append("putchar")
    end = rng.random()
    ret = rng.choice([0, 0, 1, 3, 7, 42, 255])
    tail = ""
    if end < 0.15:
        tail = "    assert (== r 123456789)\n"
        kinds.append("assert-fails")
    elif end < 0.3:
        tail = '    (print "no newline at the end %d")\n' % idx
        kinds.append("vm-noline-last")
    text = EXTERNS + "fn main() -> int {\n    let mut r: int = 0\n" + "".join(steps) + tail + "    return %d\n}\n%s" % (ret, SH % "main")
    return text, kinds


FIXED_INTERLEAVE = {
    # the witness shape: VM print, child, raw write, VM print
    "vm_child_write_vm": EXTERNS + """fn step(n: int) -> int {
    (print "step ")
    (println n)
    let mut rc: int = 0
    unsafe { set rc (system "echo from-child") }
    return rc
}
shadow step { assert true }
fn main() -> int {
    (println "start")
    let a: int = (step 1)
    let mut w: int = 0
    unsafe { set w (write 1 "[raw-write]" 11) }
    let b: int = (step 2)
    (println "done")
    return (+ (+ a b) (- w 11))
}
shadow main { assert true }
""",
    "only_foreign": EXTERNS + """fn main() -> int {
    let mut r: int = 0
    unsafe { set r (write 1 (+ "only foreign writers" (string_from_char 10)) 21) }
    unsafe { set r (system "echo child") }
    unsafe { set r (puts "puts line") }
    return 5
}
shadow main { assert true }
""",
    "vm_then_failing_assert_after_child": EXTERNS + """fn main() -> int {
    let mut r: int = 0
    (println "vm before")
    unsafe { set r (system "echo child") }
    (println "vm after")
    assert (== r 77)
    return 0
}
shadow main { assert true }
""",
    "vm_partial_line_then_child": EXTERNS + """fn main() -> int {
    let mut r: int = 0
    (print "partial ")
    unsafe { set r (system "echo child") }
    (println "rest of the line")
    unsafe { set r (write 2 (+ "to stderr" (string_from_char 10)) 10) }
    (println "last")
    return 42
}
shadow main { assert true }
""",
}


def run_to_file(cmd, cwd, outpath, errpath, cpu=20, wall=120, env=None):
    """like run.run() but stdout and stderr are regular files (stdio buffers a file differently from a tty, and like a pipe)"""
    e = dict(os.environ)
    for k in ("VERIF_SEED", "VERIF_TIER"):
        e.pop(k, None)
    if env:
        e.update(env)

    def pre():
        os.setsid()
        resource.setrlimit(resource.RLIMIT_CPU, (cpu, cpu + 2))
        resource.setrlimit(resource.RLIMIT_FSIZE, (64 << 20, 64 << 20))
        resource.setrlimit(resource.RLIMIT_CORE, (0, 0))
    t0 = time.time()
    timeout = False
    with open(outpath, "wb") as fo, open(errpath, "wb") as fe:
        try:
            p = subprocess.Popen(cmd, cwd=cwd, env=e, stdin=subprocess.DEVNULL, stdout=fo, stderr=fe, preexec_fn=pre)
        except OSError as ex:
            return Result(127, 0, b"", ("exec failed: %s" % ex).encode(), False, 0.0)
        try:
            p.wait(timeout=wall)
        except subprocess.TimeoutExpired:
            timeout = True
        try:
            os.killpg(p.pid, signal.SIGKILL)
        except OSError:
            pass
        p.wait()
    rc = p.returncode
    sig = 0
    if rc is not None and rc < 0:
        sig, rc = -rc, None
    with open(outpath, "rb") as f:
        out = f.read(8 << 20)
    with open(errpath, "rb") as f:
        err = f.read(8 << 20)
    return Result(rc, sig, out, err, timeout, time.time() - t0)
