"""Shared machinery of the program-sweep checks (C01, C02, C03): generating a batch of programs with the
reference model's expectations, cause-oriented violation keys via generator-level reduction, census cells."""
import os
import random

from . import census, engines
from .gen import gen, reduce as reducer
from .run import pmap


def gen_batch(ctx, n, features=None, size=1.0, label="prog"):
    """[(index, Program, expected)] – deterministic in (seed, property, index).  Generation is CPU bound python;
    it is spread over processes."""
    import concurrent.futures as cf
    seeds = [ctx.rng(label, i).getrandbits(64) for i in range(n)]
    out = []
    with cf.ProcessPoolExecutor(max_workers=min(16, os.cpu_count() or 4)) as ex:
        for i, res in enumerate(ex.map(_gen_one, [(s, features, size) for s in seeds], chunksize=4)):
            if res is not None:
                out.append((i, res[0], res[1]))
    return out


def _gen_one(args):
    seed, features, size = args
    prog, exp = gen.make_program(random.Random(seed), features, size)
    if prog is None:
        return None
    return prog, exp


def constructs(prog):
    """set of construct names appearing in a program (used for cause-oriented keys of reduced programs)"""
    out = set()

    def ex(e):
        if isinstance(e, list):
            for x in e:
                ex(x)
            return
        if not isinstance(e, tuple) or not e:
            return
        k = e[0]
        if not isinstance(k, str):
            for x in e:
                ex(x)
            return
        if k == "bin":
            out.add("op:" + e[1])
        elif k == "un":
            out.add("un:" + e[1])
        elif k == "call":
            out.add("call:" + (e[1] if e[1] in gen.BUILTIN_NAMES or e[1].startswith("tr_") else "user"))
        elif k in ("int", "bool", "str", "float", "var"):
            pass
        else:
            out.add(k)
        for x in e[1:]:
            if isinstance(x, (tuple, list)):
                ex(x)

    for f in prog.all_funcs():
        ex(f.body)
    if prog.modules:
        out.add("multifile")
    return out


_REDUCTIONS = [0]
MAX_REDUCTIONS = 3


def reduced_key(prog, still_fails, budget=80):
    """Reduce and return (key-suffix, reduced Program).  Only the first few failing programs of a run are reduced
    (a broken engine can make hundreds of programs fail; reducing each would take hours)."""
    small = prog
    if _REDUCTIONS[0] < MAX_REDUCTIONS:
        _REDUCTIONS[0] += 1
        try:
            small = reducer.reduce(prog, still_fails, budget=budget)
        except Exception:
            small = prog
    c = sorted(constructs(small))
    return ",".join(c)[:200], small


def census_cells(names=None):
    for name in (names or list(census.F)):
        text, exp = census.program(name)
        yield name, text, exp


def feature_histogram(batch):
    h = {}
    for _, prog, _ in batch:
        for t in prog.tags:
            h[t] = h.get(t, 0) + 1
    return dict(sorted(h.items(), key=lambda kv: -kv[1]))


def replay_files(path):
    """files of the program stored in a replay directory ('original/' if present, else the directory itself)"""
    base = os.path.join(path, "original") if os.path.isdir(os.path.join(path, "original")) else path
    out = {}
    for fn in sorted(os.listdir(base)):
        if fn.endswith(".nano"):
            with open(os.path.join(base, fn)) as f:
                out[fn] = f.read()
    return out
