"""Shared machinery of the program-sweep checks (C01, C02, C03): generating a batch of programs with the
reference model's expectations, cause-oriented violation keys via generator-level reduction, census cells."""
import os
import random

from . import census, engines
from .gen import gen, reduce as reducer
from .run import pmap


def fixed_rng(*what):
    """PRNG that does not depend on VERIF_SEED (for corpora whose set of violation keys must be closed)"""
    import hashlib
    h = hashlib.sha256(("fixed|" + "|".join(str(w) for w in what)).encode()).digest()
    return random.Random(int.from_bytes(h[:8], "big"))


def gen_batch(ctx, n, features=None, size=1.0, label="prog", neutral_fraction=0.0, fixed=None):
    """[(index, Program, expected)] – deterministic in (seed, property, index), or in (fixed, index) alone when
    `fixed` names a seed-independent corpus.  Generation is CPU bound python; it is spread over processes."""
    import concurrent.futures as cf
    if fixed is not None:
        seeds = [fixed_rng(fixed, label, i).getrandbits(64) for i in range(n)]
    else:
        seeds = [ctx.rng(label, i).getrandbits(64) for i in range(n)]
    out = []
    with cf.ProcessPoolExecutor(max_workers=min(16, os.cpu_count() or 4)) as ex:
        jobs = []
        for i, s in enumerate(seeds):
            neutral = neutral_fraction > 0 and (i % 100) < neutral_fraction * 100
            f2 = features
            if neutral:
                f2 = dict(gen.EVALUATOR_ONLY_SWITCHES)
                f2.update(features or {})
            jobs.append((s, f2, size, neutral))
        for i, res in enumerate(ex.map(_gen_one, jobs, chunksize=4)):
            if res is not None:
                out.append((i, res[0], res[1]))
    return out


def _gen_one(args):
    seed, features, size, neutral = args
    prog, exp = gen.make_program(random.Random(seed), features, size, neutral_shadows=neutral)
    if prog is None:
        return None
    return prog, exp


def constructs(prog):
    """set of construct names appearing in a program (used for cause-oriented keys of reduced programs)"""
    out = set()

    def ex(e):
        if isinstance(e, list):
            for x in e:
                ex(x)
            return
        if not isinstance(e, tuple) or not e:
            return
        k = e[0]
        if not isinstance(k, str):
            for x in e:
                ex(x)
            return
        if k == "bin":
            out.add("op:" + e[1])
        elif k == "un":
            out.add("un:" + e[1])
        elif k == "call":
            out.add("call:" + (e[1] if e[1] in gen.BUILTIN_NAMES or e[1].startswith("tr_") else "user"))
        elif k in ("int", "bool", "str", "float", "var"):
            pass
        else:
            out.add(k)
        for x in e[1:]:
            if isinstance(x, (tuple, list)):
                ex(x)

    for f in prog.all_funcs():
        ex(f.body)
    if prog.modules:
        out.add("multifile")
    return out


_REDUCTIONS = [0]
MAX_REDUCTIONS = 3


def reduced_key(prog, still_fails, budget=80):
    """Reduce and return (key-suffix, reduced Program).  Only the first few failing programs of a run are reduced
    (a broken engine can make hundreds of programs fail; reducing each would take hours)."""
    small = prog
    if _REDUCTIONS[0] < MAX_REDUCTIONS:
        _REDUCTIONS[0] += 1
        try:
            small = reducer.reduce(prog, still_fails, budget=budget)
        except Exception:
            small = prog
    c = sorted(constructs(small))
    return ",".join(c)[:200], small


def census_cells(names=None):
    for name in (names or list(census.F)):
        text, exp = census.program(name)
        yield name, text, exp


def feature_histogram(batch):
    h = {}
    for _, prog, _ in batch:
        for t in prog.tags:
            h[t] = h.get(t, 0) + 1
    return dict(sorted(h.items(), key=lambda kv: -kv[1]))


def replay_files(path):
    """files of the program stored in a replay directory ('original/' if present, else the directory itself)"""
    base = os.path.join(path, "original") if os.path.isdir(os.path.join(path, "original")) else path
    out = {}
    for fn in sorted(os.listdir(base)):
        if fn.endswith(".nano"):
            with open(os.path.join(base, fn)) as f:
                out[fn] = f.read()
    return out


def collision_string_programs(flavor, rng, want=6, pool=400000):
    """Hostile string family: pairs of DIFFERENT strings to which the VM's string heap assigns the same hash (found
    by asking the repository's own vm_string_new through probes/vmstr_probe, no knowledge of the hash function is
    hard-coded), kept alive at the same time, compared, concatenated, indexed and stored.  Returns
    [(name, program text, expected stdout)]."""
    import subprocess
    strs = set()
    while len(strs) < pool:
        strs.add("".join(rng.choice("abcdefghijklmnopqrstuvwxyz") for _ in range(8)))
    strs = sorted(strs)
    r = subprocess.run([flavor.probe("vmstr_probe")], input="\n".join(strs) + "\n", capture_output=True, text=True, timeout=600)
    hashes = r.stdout.split()
    groups = {}
    for st, h in zip(strs, hashes):
        groups.setdefault(h, []).append(st)
    pairs = sorted(v[:2] for v in groups.values() if len(v) > 1)
    rng.shuffle(pairs)
    out = []
    for a, b in pairs[:want]:
        text = (
            "fn keep(a: string, b: string) -> int {\n"
            "    (println a)\n    (println b)\n    (println (== a b))\n    (println (!= a b))\n    (println (str_equals a b))\n"
            "    (println (+ a b))\n    (println (+ b a))\n    (println (char_at a 0))\n    (println (char_at b 0))\n"
            "    let arr: array<string> = [a, b, a]\n    (println (at arr 1))\n    (println (at arr 2))\n"
            "    (println (str_contains (+ a b) b))\n    (println (str_length b))\n    return 0\n}\n"
            "shadow keep { assert true }\n"
            "fn main() -> int {\n"
            "    let s1: string = (+ \"%s\" \"%s\")\n    let s2: string = (+ \"%s\" \"%s\")\n"
            "    (keep s1 s2)\n    (keep \"%s\" \"%s\")\n    (println (== s1 \"%s\"))\n    (println (== s2 \"%s\"))\n    return 0\n}\n"
            "shadow main { assert true }\n" % (a[:3], a[3:], b[:5], b[5:], b, a, a, a))

        def blk(x, y):
            return "%s\n%s\nfalse\ntrue\nfalse\n%s\n%s\n%d\n%d\n%s\n%s\ntrue\n%d\n" % (x, y, x + y, y + x, ord(x[0]), ord(y[0]), y, x, len(y))
        exp = blk(a, b) + blk(b, a) + "true\nfalse\n"
        out.append(("collision_%s_%s" % (a, b), text, exp))
    return out
