"""C12 - a damaged bytecode file is refused, not executed (DESIGN §4 C12).

Oracle 1 (probe, asan): every fault applied in memory to a compiler-produced file -> nvm_deserialize
must return NULL.  Oracle 2 (CLI): a stratified sample of the same fault classes goes through the real
`nano_vm` binary: exit != 0, nothing on stdout, the refusal message on stderr, no sanitizer report.
Oracle 3 (daemon): the same sample is submitted to a private nano_vmd, first to a fresh daemon, then after the daemon
has served the intact file (once, twice): every damaged copy must get an ERROR reply and no OUTPUT / EXIT_CODE frame.
Besides compiler-produced files the fault classes are applied to forged copies whose stored checksum is a special value.
"""
import importlib.util
import os
import re
import struct
import zlib

from .. import build, corpus, core
from ..run import run as sh, pmap, Scratch

_spec = importlib.util.spec_from_file_location("nlv_vmd_client_c12", os.path.join(core.VERIF, "tools", "vmd_client.py"))
vc = importlib.util.module_from_spec(_spec)
_spec.loader.exec_module(vc)

LEVEL = "fault_enumeration"

MARK = """
fn nlv_marker_%d() -> int {
    (println "NLV-MARK-%d")
    return %d
}
shadow nlv_marker_%d { assert true }
"""


def _sources(ctx, sc):
    """Compiler inputs: repository programs plus small synthetic ones that certainly print."""
    srcs = []
    rng = ctx.rng("sources")
    repo = corpus.repo_sources()
    rng.shuffle(repo)
    srcs.extend(repo[: ctx.n(40, 400)])
    # synthetic programs of varying size: k functions, main prints a marker first
    for k in ([1, 3, 9, 30] if ctx.quick() else [1, 2, 3, 5, 9, 17, 30, 60, 120]):
        body = "".join(MARK % (i, i, i, i) for i in range(k))
        calls = "".join("    (println (nlv_marker_%d))\n" % i for i in range(k))
        text = body + "fn main() -> int {\n    (println \"NLV-START\")\n" + calls + "    return 0\n}\nshadow main { assert true }\n"
        srcs.append(sc.file("syn/syn%d.nano" % k, text))
    # the same small program with a string constant padded by 0..7 bytes: body sizes of every residue mod 8 (a checksum
    # routine that mishandles a tail of size % 4 or % 8 bytes protects most files and not these)
    for pad in range(8):
        text = (MARK % (0, 0, 0, 0)) + 'fn main() -> int {\n    (println "NLV-START%s")\n    (println (nlv_marker_0))\n    return 0\n}\nshadow main { assert true }\n' % ("p" * pad)
        srcs.append(sc.file("syn/synpad%d.nano" % pad, text))
    return srcs


SPECIAL_CRCS = [0x00000000, 0xFFFFFFFF, 0x00000001, 0x80000000, 0xEDB88320, 0xDEBB20E3]


def forge_checksum(data, target, tag=b"NLV-START"):
    """A copy of the module `data` whose body CRC-32 (and stored checksum) is `target`: four bytes inside the string `tag`
    (string pool data: any bytes are a valid string) are solved for.  CRC-32 is affine over GF(2) in those 32 bits, so the
    system is solved exactly (no search).  Returns None if the tag is not in the file."""
    at = data.find(tag, 32)
    if at < 0:
        return None
    b = bytearray(data)
    b[at:at + 4] = b"\0\0\0\0"
    base = zlib.crc32(bytes(b[32:])) & 0xFFFFFFFF
    cols = []
    for i in range(32):
        c = bytearray(b)
        c[at + i // 8] ^= 1 << (i % 8)
        cols.append((zlib.crc32(bytes(c[32:])) & 0xFFFFFFFF) ^ base)
    # Gaussian elimination over GF(2): find x with XOR_{i in x} cols[i] = target ^ base
    want = target ^ base
    rows = [(cols[i], 1 << i) for i in range(32)]
    piv = {}
    for v, m in rows:
        for bit in sorted(piv, reverse=True):
            if v >> bit & 1:
                v ^= piv[bit][0]
                m ^= piv[bit][1]
        if v:
            piv[v.bit_length() - 1] = (v, m)
    x = 0
    for bit in sorted(piv, reverse=True):
        if want >> bit & 1:
            want ^= piv[bit][0]
            x ^= piv[bit][1]
    if want:
        return None
    for i in range(32):
        if x >> i & 1:
            b[at + i // 8] ^= 1 << (i % 8)
    if (zlib.crc32(bytes(b[32:])) & 0xFFFFFFFF) != target:
        return None
    b[28:32] = struct.pack("<I", target)
    return bytes(b)


def _cli_faults(data, rng, per_file):
    """Stratified fault sample for the CLI oracle: (label, bytes)."""
    n = len(data)
    out = []
    body_bits = (n - 32) * 8
    step = max(1, body_bits // per_file)
    off = rng.randrange(step)
    for bit in range(off, body_bits, step):
        b = bytearray(data)
        b[32 + bit // 8] ^= 1 << (bit % 8)
        out.append(("flip@%d.%d" % (32 + bit // 8, bit % 8), bytes(b)))
    # all bits inside the section directory are covered by the probe; CLI gets truncations + tails + header
    for ln in sorted(set([0, 1, 31, 32, 33, n // 2, n - 1] + [rng.randrange(n) for _ in range(6)])):
        if 0 <= ln < n:
            out.append(("trunc@%d" % ln, data[:ln]))
    for t in (1, 4, 32, 4096):
        out.append(("tail+%d" % t, data + bytes(rng.randrange(256) for _ in range(t))))
        out.append(("tailz+%d" % t, data + b"\0" * t))
    for bit in (0, 9, 23, 31, 32, 40, 63):
        b = bytearray(data)
        b[bit // 8] ^= 1 << (bit % 8)
        out.append(("header.%d" % bit, bytes(b)))
    for _ in range(6):
        b = bytearray(data)
        at = rng.randrange(32, n)
        ln = rng.randrange(2, 33)
        for k in range(ln):
            bit = at * 8 + k
            if bit // 8 < n and (k in (0, ln - 1) or rng.random() < 0.5):
                b[bit // 8] ^= 1 << (bit % 8)
        if bytes(b) != data:
            out.append(("burst@%d+%d" % (at, ln), bytes(b)))
    return out


def run(ctx):
    asan = build.get("asan")
    with Scratch("c12") as sc:
        srcs = _sources(ctx, sc)
        mods = corpus.nvm_corpus(asan, sc.sub("nvm"), srcs, san=True)
        # keep a spread of sizes; skip huge files in quick tier (probe cost is quadratic in size)
        mods = [(s, p, os.path.getsize(p)) for s, p in mods]
        limit = 2500 if ctx.quick() else 12000   # the probe is quadratic in the file size
        mods = [m for m in mods if m[2] <= limit]
        mods.sort(key=lambda m: (m[2], m[0]))
        syn_hosts = [m for m in mods if os.path.basename(m[0]).startswith("syn")][:2]
        want = ctx.n(10, 60)
        pads = [m for m in mods if os.path.basename(m[0]).startswith("synpad")]
        if len(mods) > want:
            # evenly spaced over the size range
            idx = sorted(set(int(i * (len(mods) - 1) / (want - 1)) for i in range(want)))
            mods = [mods[i] for i in idx]
        mods += [m for m in pads if m not in mods]
        ctx.require(len(set((m[2] - 32) % 8 for m in mods)) == 8, "module body sizes do not cover every residue mod 8")
        ctx.require(len(mods) >= 4, "fewer than 4 compiler-produced modules available (%d)" % len(mods))
        # modules whose checksum is a special value (0, all ones, the polynomial, the CRC residue ...): a loader that gives
        # any checksum value a meaning ("0 = none recorded") protects every other file and none of these
        forged = []
        forged_refused = []
        for s_, p_, z_ in syn_hosts:
            d0 = open(p_, "rb").read()
            for tgt in SPECIAL_CRCS:
                f_ = forge_checksum(d0, tgt)
                if f_ is None:
                    continue
                fp_ = sc.file("forged/%s_%08x.nvm" % (os.path.basename(p_)[:-4], tgt), f_)
                ctl = sh([asan.nano_vm, fp_], cpu=20, san=True)
                if not (ctl.rc == 0 and len(ctl.out) >= 1):
                    # a loader whose checksum is not the format's CRC-32 refuses the forged file: not a C12 matter by
                    # itself (nothing damaged was accepted); the host is skipped and the fact recorded
                    forged_refused.append("%s/%08x" % (os.path.basename(p_), tgt))
                    continue
                forged.append((s_, fp_, len(f_)))
        ctx.require(len(forged) >= 4 or forged_refused, "could not forge special-checksum modules (%d)" % len(forged))
        n_forged = len(forged)
        mods = mods + forged

        totals = dict(flips=0, truncs=0, bursts=0, header=0, tails=0, ctrl=0, bytexor=0, solid=0)
        accepted = dict(flips=0, truncs=0, bursts=0, header=0, tails=0, bytexor=0, solid=0)
        samples = []
        patterns = ctx.n(2, 8)

        def probe(m):
            src, path, size = m
            return m, sh([asan.probe("nvm_probe"), "faults", path, str(ctx.seed), str(patterns)],
                          cpu=600, san=True, wall=3600)

        for (src, path, size), r in pmap(probe, mods):
            rel = os.path.relpath(src, build.REPO) if src.startswith(build.REPO) else os.path.basename(src)
            rep = r.sanitizer_report()
            if rep:
                sig = re.sub(r"0x[0-9a-f]+", "", rep.splitlines()[0])[:120]
                ctx.violation("probe-sanitizer|" + sig, "sanitizer report while loading a faulted copy of %s\n%s" % (rel, rep),
                              {"input.nvm": open(path, "rb").read(), "source.nano": open(src, "rb").read()})
                continue
            m = re.search(r"SUMMARY size=(\d+) ctrl=(\d+)/(\d+) flips=(\d+)/(\d+) truncs=(\d+)/(\d+) bursts=(\d+)/(\d+) header=(\d+)/(\d+) tails=(\d+)/(\d+) bytexor=(\d+)/(\d+) solid=(\d+)/(\d+)", r.text())
            if not m or r.status != 0:
                ctx.violation("probe-abnormal|rc=%s sig=%s" % (r.rc, r.sig),
                              "nvm_probe ended abnormally on %s: %s" % (rel, r.brief()),
                              {"input.nvm": open(path, "rb").read()})
                continue
            g = [int(x) for x in m.groups()]
            ctx.require(g[1] == 1, "control load of unfaulted %s failed" % rel)
            totals["ctrl"] += 1
            for name, a, n in (("flips", g[3], g[4]), ("truncs", g[5], g[6]), ("bursts", g[7], g[8]),
                               ("header", g[9], g[10]), ("tails", g[11], g[12]), ("bytexor", g[13], g[14]), ("solid", g[15], g[16])):
                totals[name] += n
                accepted[name] += a
            for line in r.text().splitlines():
                if line.startswith("ACCEPT "):
                    cls = line.split()[1]
                    ctx.violation("accepted|" + cls, "nvm_deserialize accepted a damaged copy of %s (%d bytes): %s" % (rel, size, line),
                                  {"input.nvm": open(path, "rb").read(), "source.nano": open(src, "rb").read(),
                                   "fault.txt": line + "\nreplay: nvm_probe faults input.nvm %d %d\n" % (ctx.seed, patterns)})
            if len(samples) < 6:
                samples.append({"module": rel, "bytes": size, "faults": dict(flips=g[4], truncs=g[6], bursts=g[8], header=g[10], tails=g[12])})

        # ---- CLI oracle ------------------------------------------------------------
        cli_mods = [m for m in mods if m[2] < 20000][: ctx.n(4, 16)]
        per_file = ctx.n(40, 200)
        jobs = []
        for mi, (src, path, size) in enumerate(cli_mods):
            data = open(path, "rb").read()
            # control: the intact file runs and prints something (so "no output" below is meaningful)
            base = sh([asan.nano_vm, path], cpu=20, san=True)
            if base.rc != 0 or not base.out:
                continue
            for fi, (label, fb) in enumerate(_cli_faults(data, ctx.rng("cli", mi), per_file)):
                fp = sc.file("cli/m%d_f%d.nvm" % (mi, fi), fb)
                jobs.append((src, path, label, fp))
        cli_outcomes = {}

        def cli(job):
            src, path, label, fp = job
            return job, sh([asan.nano_vm, fp], cpu=20, san=True)

        n_cli = 0
        for (src, path, label, fp), r in pmap(cli, jobs):
            n_cli += 1
            cls = label.split("@")[0].split("+")[0].split(".")[0]
            rep = r.sanitizer_report()
            err = r.errtext()
            refused = (r.rc not in (0, None)) and not r.out and ("invalid .nvm format" in err or "Invalid file size" in err)
            oc = "refused" if refused and not rep else "BAD"
            cli_outcomes[cls + ":" + oc] = cli_outcomes.get(cls + ":" + oc, 0) + 1
            if oc == "BAD":
                why = ("sanitizer report" if rep else "exit 0" if r.rc == 0 else "signal %d" % r.sig if r.sig else
                       "program output" if r.out else "no refusal message")
                ctx.violation("cli|%s|%s" % (cls, why),
                              "nano_vm did not refuse a damaged file (%s, fault %s): %s\n%s" % (os.path.basename(src), label, why, r.brief()),
                              {"damaged.nvm": open(fp, "rb").read(), "intact.nvm": open(path, "rb").read(),
                               "cmd.txt": "nano_vm damaged.nvm   # asan flavor\n"})
        # ---- daemon oracle: the same faults through nano_vmd, before and AFTER it has served the intact file ---------------
        # (a consumer that remembers modules it has already accepted must not let a damaged copy ride on that memory)
        dm_outcomes = {}
        n_dm = 0
        died = [0]
        ddir = sc.sub("vmd")
        dm = vc.Daemon(asan.nano_vmd, ddir, {
            "ASAN_OPTIONS": "log_path=%s:detect_leaks=0:exitcode=97:abort_on_error=0" % os.path.join(ddir, "san"),
            "UBSAN_OPTIONS": "print_stacktrace=1:halt_on_error=1:exitcode=97:log_path=%s" % os.path.join(ddir, "san"),
            "PATH": os.path.dirname(asan.nano_vmd) + os.pathsep + "/usr/bin:/bin"})
        try:
            ctx.require(dm.start(), "private nano_vmd did not start: %s" % dm.stderr_text(600))
            for mi, (src, path, size) in enumerate(cli_mods[: ctx.n(3, 10)]):
                data = open(path, "rb").read()
                want = sh([asan.nano_vm, path], cpu=20, san=True)
                if want.rc != 0 or not want.out:
                    continue
                faults = _cli_faults(data, ctx.rng("vmd", mi), ctx.n(24, 120))
                for phase in ("fresh", "after-intact", "after-intact-again"):
                    if phase != "fresh":
                        r0 = vc.exec_module(ddir, data, timeout=60.0)
                        ctx.require(not r0.timeout, "daemon did not answer an intact module in 60 s")
                        if r0.out != want.out or r0.exit_code != 0:
                            ctx.violation("vmd|intact-not-served|%s" % phase, "nano_vmd did not run the intact module %s correctly (%s): %s" % (
                                os.path.basename(src), phase, r0.brief()), {"intact.nvm": data})
                            break
                    if died[0] >= 3:
                        break
                    for label, fb in faults:
                        cls = label.split("@")[0].split("+")[0].split(".")[0]
                        r = vc.exec_module(ddir, fb, timeout=60.0)
                        n_dm += 1
                        if r.timeout or r.exc:
                            if not dm.alive():
                                # the daemon went down while it was being given damaged copies: it executed (part of) one
                                ctx.violation("vmd|%s|daemon-died" % phase.replace("-again", ""),
                                              "nano_vmd died while damaged copies of %s were submitted (%s; last fault %s): %s" % (
                                                  os.path.basename(src), phase, label, dm.stderr_text(1500)),
                                              {"damaged.nvm": fb, "intact.nvm": data, "vmd.stderr": dm.stderr_text(6000)})
                                ctx.require(dm.start(), "private nano_vmd did not restart")
                                died[0] += 1
                                if died[0] >= 3:
                                    break
                                continue
                            dm_outcomes[cls + ":inconclusive"] = dm_outcomes.get(cls + ":inconclusive", 0) + 1
                            continue
                        refused = (not r.out) and r.exit_code is None and any(b"nvalid" in e for e in r.errors)
                        dm_outcomes[cls + (":refused" if refused else ":BAD")] = dm_outcomes.get(cls + (":refused" if refused else ":BAD"), 0) + 1
                        if not refused:
                            why = "program output" if r.out else "exit code %s" % r.exit_code if r.exit_code is not None else "no refusal message"
                            ctx.violation("vmd|%s|%s|%s" % (phase.replace("-again", ""), cls, why),
                                          "nano_vmd did not refuse a damaged copy of %s (fault %s, %s): %s\n%s" % (
                                              os.path.basename(src), label, {"fresh": "never saw the intact file", "after-intact": "after it had served the intact file once",
                                                                              "after-intact-again": "after it had served the intact file twice"}[phase], why, r.brief()),
                                          {"damaged.nvm": fb, "intact.nvm": data,
                                           "cmd.txt": "nano_vmd --foreground --no-timeout   # asan flavor, NLVERIF_VMD_DIR=<dir>\n"
                                                      "%ssubmit damaged.nvm (LOAD_EXEC)\n" % ("submit intact.nvm, then " if phase != "fresh" else "")})
            ctx.require(dm.alive() or ctx.violations, "daemon died during the fault sequence: %s" % dm.stderr_text(800))
            sanlogs = [f for f in os.listdir(ddir) if f.startswith("san.")]
            for f in sanlogs[:3]:
                txt = open(os.path.join(ddir, f), errors="replace").read()
                sig = re.sub(r"0x[0-9a-f]+", "", (txt.splitlines() or [""])[0])[:120]
                ctx.violation("vmd-sanitizer|" + sig, "sanitizer report in nano_vmd while it was given damaged modules:\n" + txt[:3000], {"report.txt": txt})
        finally:
            dm.stop()
        ctx.require(n_dm >= 100 or ctx.violations, "too few daemon cases (%d)" % n_dm)
        ctx.require(sum(v for k, v in dm_outcomes.items() if k.endswith(":inconclusive")) <= n_dm // 20, "too many daemon sessions timed out: %s" % dm_outcomes)
        ctx.require(totals["ctrl"] >= 4 and totals["flips"] > 1000, "too few faults explored")
        ctx.require(n_cli >= 50, "too few CLI cases (%d)" % n_cli)
        n_faults = sum(totals[k] for k in ("flips", "truncs", "bursts", "header", "tails", "bytexor", "solid"))
        return ctx.finish({
            "evaluations": n_faults + n_cli + n_dm,
            "distinct_nontrivial": n_faults,
            "rule": "each evaluation is one distinct fault (bit position / burst (offset,start,len,pattern) / truncation length / tail / "
                    "header bit) of one compiler-produced module handed to the real nvm_deserialize under ASan+UBSan; all are "
                    "non-trivial (the faulted buffer differs from the intact file, whose control load succeeds)",
            "exhaustive": True,
            "explanation": "single-bit flips of every body bit, every error pattern confined to one byte (255 substitutions per byte), every solid "
                           "(all bits inverted) burst of 2..32 bits at every bit offset and all truncation lengths are enumerated completely for each module; other "
                           "bursts are sampled (all lengths 2..9 at every offset, lengths 10..32 1:3, %d seeded patterns each)" % patterns,
            "modules": totals["ctrl"],
            "faults_by_class": totals,
            "accepted_by_class": accepted,
            "cli_cases": n_cli,
            "cli_outcomes": cli_outcomes,
            "daemon_cases": n_dm,
            "daemon_outcomes": dm_outcomes,
            "daemon_phases": ["fresh daemon", "after the daemon served the intact file", "after it served it twice"],
            "forged_special_checksum_modules": n_forged,
            "forged_modules_refused_by_the_loader": forged_refused,
            "body_sizes_mod_8_covered": sorted(set((m[2] - 32) % 8 for m in mods)),
            "special_checksums": ["%08x" % c for c in SPECIAL_CRCS],
            "samples": samples,
        }, assumptions=[
            "the probe links the repository's own nvm_format.o (asan flavor) and calls nvm_deserialize directly",
            "'nothing runs' is observed as: deserialize returns NULL (probe) / no stdout and a refusal message (nano_vm)",
            "faults are applied to modules produced by nano_virt --emit-nvm from the repository's tests/examples and synthetic programs, "
            "and to copies of two of them whose stored checksum was forced to a special value by solving for 4 bytes of a string constant",
            "the daemon is a private asan-flavor nano_vmd (hook H3: NLVERIF_VMD_DIR); refused = no OUTPUT frame, no EXIT_CODE frame, an ERROR frame",
        ])

