"""C12 - a damaged bytecode file is refused, not executed (DESIGN §4 C12).

Oracle 1 (probe, asan): every fault applied in memory to a compiler-produced file -> nvm_deserialize
must return NULL.  Oracle 2 (CLI): a stratified sample of the same fault classes goes through the real
`nano_vm` binary: exit != 0, nothing on stdout, the refusal message on stderr, no sanitizer report.
"""
import os
import re

from .. import build, corpus
from ..run import run as sh, pmap, Scratch

LEVEL = "fault_enumeration"

MARK = """
fn nlv_marker_%d() -> int {
    (println "NLV-MARK-%d")
    return %d
}
shadow nlv_marker_%d { assert true }
"""


def _sources(ctx, sc):
    """Compiler inputs: repository programs plus small synthetic ones that certainly print."""
    srcs = []
    rng = ctx.rng("sources")
    repo = corpus.repo_sources()
    rng.shuffle(repo)
    srcs.extend(repo[: ctx.n(40, 400)])
    # synthetic programs of varying size: k functions, main prints a marker first
    for k in ([1, 3, 9, 30] if ctx.quick() else [1, 2, 3, 5, 9, 17, 30, 60, 120]):
        body = "".join(MARK % (i, i, i, i) for i in range(k))
        calls = "".join("    (println (nlv_marker_%d))\n" % i for i in range(k))
        text = body + "fn main() -> int {\n    (println \"NLV-START\")\n" + calls + "    return 0\n}\nshadow main { assert true }\n"
        srcs.append(sc.file("syn/syn%d.nano" % k, text))
    return srcs


def _cli_faults(data, rng, per_file):
    """Stratified fault sample for the CLI oracle: (label, bytes)."""
    n = len(data)
    out = []
    body_bits = (n - 32) * 8
    step = max(1, body_bits // per_file)
    off = rng.randrange(step)
    for bit in range(off, body_bits, step):
        b = bytearray(data)
        b[32 + bit // 8] ^= 1 << (bit % 8)
        out.append(("flip@%d.%d" % (32 + bit // 8, bit % 8), bytes(b)))
    # all bits inside the section directory are covered by the probe; CLI gets truncations + tails + header
    for ln in sorted(set([0, 1, 31, 32, 33, n // 2, n - 1] + [rng.randrange(n) for _ in range(6)])):
        if 0 <= ln < n:
            out.append(("trunc@%d" % ln, data[:ln]))
    for t in (1, 4, 32, 4096):
        out.append(("tail+%d" % t, data + bytes(rng.randrange(256) for _ in range(t))))
        out.append(("tailz+%d" % t, data + b"\0" * t))
    for bit in (0, 9, 23, 31, 32, 40, 63):
        b = bytearray(data)
        b[bit // 8] ^= 1 << (bit % 8)
        out.append(("header.%d" % bit, bytes(b)))
    for _ in range(6):
        b = bytearray(data)
        at = rng.randrange(32, n)
        ln = rng.randrange(2, 33)
        for k in range(ln):
            bit = at * 8 + k
            if bit // 8 < n and (k in (0, ln - 1) or rng.random() < 0.5):
                b[bit // 8] ^= 1 << (bit % 8)
        if bytes(b) != data:
            out.append(("burst@%d+%d" % (at, ln), bytes(b)))
    return out


def run(ctx):
    asan = build.get("asan")
    with Scratch("c12") as sc:
        srcs = _sources(ctx, sc)
        mods = corpus.nvm_corpus(asan, sc.sub("nvm"), srcs, san=True)
        # keep a spread of sizes; skip huge files in quick tier (probe cost is quadratic in size)
        mods = [(s, p, os.path.getsize(p)) for s, p in mods]
        limit = 2500 if ctx.quick() else 12000   # the probe is quadratic in the file size
        mods = [m for m in mods if m[2] <= limit]
        mods.sort(key=lambda m: (m[2], m[0]))
        want = ctx.n(10, 60)
        if len(mods) > want:
            # evenly spaced over the size range
            idx = sorted(set(int(i * (len(mods) - 1) / (want - 1)) for i in range(want)))
            mods = [mods[i] for i in idx]
        ctx.require(len(mods) >= 4, "fewer than 4 compiler-produced modules available (%d)" % len(mods))

        totals = dict(flips=0, truncs=0, bursts=0, header=0, tails=0, ctrl=0, bytexor=0, solid=0)
        accepted = dict(flips=0, truncs=0, bursts=0, header=0, tails=0, bytexor=0, solid=0)
        samples = []
        patterns = ctx.n(2, 8)

        def probe(m):
            src, path, size = m
            return m, sh([asan.probe("nvm_probe"), "faults", path, str(ctx.seed), str(patterns)],
                          cpu=600, san=True, wall=3600)

        for (src, path, size), r in pmap(probe, mods):
            rel = os.path.relpath(src, build.REPO) if src.startswith(build.REPO) else os.path.basename(src)
            rep = r.sanitizer_report()
            if rep:
                sig = re.sub(r"0x[0-9a-f]+", "", rep.splitlines()[0])[:120]
                ctx.violation("probe-sanitizer|" + sig, "sanitizer report while loading a faulted copy of %s\n%s" % (rel, rep),
                              {"input.nvm": open(path, "rb").read(), "source.nano": open(src, "rb").read()})
                continue
            m = re.search(r"SUMMARY size=(\d+) ctrl=(\d+)/(\d+) flips=(\d+)/(\d+) truncs=(\d+)/(\d+) bursts=(\d+)/(\d+) header=(\d+)/(\d+) tails=(\d+)/(\d+) bytexor=(\d+)/(\d+) solid=(\d+)/(\d+)", r.text())
            if not m or r.status != 0:
                ctx.violation("probe-abnormal|rc=%s sig=%s" % (r.rc, r.sig),
                              "nvm_probe ended abnormally on %s: %s" % (rel, r.brief()),
                              {"input.nvm": open(path, "rb").read()})
                continue
            g = [int(x) for x in m.groups()]
            ctx.require(g[1] == 1, "control load of unfaulted %s failed" % rel)
            totals["ctrl"] += 1
            for name, a, n in (("flips", g[3], g[4]), ("truncs", g[5], g[6]), ("bursts", g[7], g[8]),
                               ("header", g[9], g[10]), ("tails", g[11], g[12]), ("bytexor", g[13], g[14]), ("solid", g[15], g[16])):
                totals[name] += n
                accepted[name] += a
            for line in r.text().splitlines():
                if line.startswith("ACCEPT "):
                    cls = line.split()[1]
                    ctx.violation("accepted|" + cls, "nvm_deserialize accepted a damaged copy of %s (%d bytes): %s" % (rel, size, line),
                                  {"input.nvm": open(path, "rb").read(), "source.nano": open(src, "rb").read(),
                                   "fault.txt": line + "\nreplay: nvm_probe faults input.nvm %d %d\n" % (ctx.seed, patterns)})
            if len(samples) < 6:
                samples.append({"module": rel, "bytes": size, "faults": dict(flips=g[4], truncs=g[6], bursts=g[8], header=g[10], tails=g[12])})

        # ---- CLI oracle ------------------------------------------------------------
        cli_mods = [m for m in mods if m[2] < 20000][: ctx.n(4, 16)]
        per_file = ctx.n(40, 200)
        jobs = []
        for mi, (src, path, size) in enumerate(cli_mods):
            data = open(path, "rb").read()
            # control: the intact file runs and prints something (so "no output" below is meaningful)
            base = sh([asan.nano_vm, path], cpu=20, san=True)
            if base.rc != 0 or not base.out:
                continue
            for fi, (label, fb) in enumerate(_cli_faults(data, ctx.rng("cli", mi), per_file)):
                fp = sc.file("cli/m%d_f%d.nvm" % (mi, fi), fb)
                jobs.append((src, path, label, fp))
        cli_outcomes = {}

        def cli(job):
            src, path, label, fp = job
            return job, sh([asan.nano_vm, fp], cpu=20, san=True)

        n_cli = 0
        for (src, path, label, fp), r in pmap(cli, jobs):
            n_cli += 1
            cls = label.split("@")[0].split("+")[0].split(".")[0]
            rep = r.sanitizer_report()
            err = r.errtext()
            refused = (r.rc not in (0, None)) and not r.out and ("invalid .nvm format" in err or "Invalid file size" in err)
            oc = "refused" if refused and not rep else "BAD"
            cli_outcomes[cls + ":" + oc] = cli_outcomes.get(cls + ":" + oc, 0) + 1
            if oc == "BAD":
                why = ("sanitizer report" if rep else "exit 0" if r.rc == 0 else "signal %d" % r.sig if r.sig else
                       "program output" if r.out else "no refusal message")
                ctx.violation("cli|%s|%s" % (cls, why),
                              "nano_vm did not refuse a damaged file (%s, fault %s): %s\n%s" % (os.path.basename(src), label, why, r.brief()),
                              {"damaged.nvm": open(fp, "rb").read(), "intact.nvm": open(path, "rb").read(),
                               "cmd.txt": "nano_vm damaged.nvm   # asan flavor\n"})
        ctx.require(totals["ctrl"] >= 4 and totals["flips"] > 1000, "too few faults explored")
        ctx.require(n_cli >= 50, "too few CLI cases (%d)" % n_cli)
        n_faults = sum(totals[k] for k in ("flips", "truncs", "bursts", "header", "tails", "bytexor", "solid"))
        return ctx.finish({
            "evaluations": n_faults + n_cli,
            "distinct_nontrivial": n_faults,
            "rule": "each evaluation is one distinct fault (bit position / burst (offset,start,len,pattern) / truncation length / tail / "
                    "header bit) of one compiler-produced module handed to the real nvm_deserialize under ASan+UBSan; all are "
                    "non-trivial (the faulted buffer differs from the intact file, whose control load succeeds)",
            "exhaustive": True,
            "explanation": "single-bit flips of every body bit, every error pattern confined to one byte (255 substitutions per byte), every solid "
                           "(all bits inverted) burst of 2..32 bits at every bit offset and all truncation lengths are enumerated completely for each module; other "
                           "bursts are sampled (all lengths 2..9 at every offset, lengths 10..32 1:3, %d seeded patterns each)" % patterns,
            "modules": totals["ctrl"],
            "faults_by_class": totals,
            "accepted_by_class": accepted,
            "cli_cases": n_cli,
            "cli_outcomes": cli_outcomes,
            "samples": samples,
        }, assumptions=[
            "the probe links the repository's own nvm_format.o (asan flavor) and calls nvm_deserialize directly",
            "'nothing runs' is observed as: deserialize returns NULL (probe) / no stdout and a refusal message (nano_vm)",
            "faults are applied to modules produced by nano_virt --emit-nvm from the repository's tests/examples and synthetic programs",
        ])

