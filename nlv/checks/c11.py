"""C11 - instruction encoding and the textual assembly form are exact inverses (DESIGN §4 C11).

Part 1 (exhaustive, both tiers): `isa_probe --codec` under ASan+UBSan - all 256 opcode bytes x the cartesian
product of boundary patterns over the operand slots, every truncation length, exact-size heap blocks, expected
bytes computed by the probe itself (little-endian, sizes hard-coded).  The table is run in three call ORDERS, each
in a fresh process: decode-first (a complete decode-only pass before isa_encode was ever called - what nano_vm, the
verifier and the disassembler do), encode-first, and interleaved (shuffled opcodes, per opcode decode-before-encode
or the reverse), so that state hidden between calls of the two functions cannot make the verdict order dependent.  `isa_probe --text` pushes the same cells
through disasm_module -> asm_assemble.

Part 2 (exploration): `rt_probe` (nvm_deserialize -> disasm_module -> asm_assemble -> compare code, function
table, strings) on
  * every module nano_virt --emit-nvm produces from the repository's tests/examples,
  * modules compiled from small generated .nano programs (nested if/while/for/cond, escapes, globals),
  * synthetic modules written byte by byte by this file (no repository code involved in building them): every
    defined opcode with boundary/random operands, every jump shape (forward, backward, to self, to the function
    end, out of the function, > 512 targets per function, ~1000 labels per module), strings with
    " \\ \\n \\t \\r, bytes >= 0x80, the empty string, long strings, functions of length 0, 0..600 functions.
The synthetic sweep stays inside the zone where no KNOWN defect of the text form is triggered (see K_* below);
each known defect has its own witness (findings/C11) and key.  A module that trips a known string/float defect
is re-run with exactly that trigger neutralised, so the rest of the module is still checked.
"""
import hashlib
import os
import re
import struct
import zlib

from .. import build, corpus
from ..core import VERIF, Inconclusive
from ..run import run as sh, pmap, Scratch

LEVEL = "exploration"
FIND = os.path.join(VERIF, "findings", "C11")

# ---- keys of the known defects of the text form (each: specific cause class, witness under findings/C11) ----
K_LAYOUT = "roundtrip|layout|function-table-order-differs-from-code-order"
K_COMMENT = "roundtrip|asmfail|string-containing-semicolon-or-hash"
K_DENORM = "roundtrip|asmfail|push_f64-denormal-operand"
K_PNL = "roundtrip|push_str-comment-of-string-with-newline"
K_LABELS = "roundtrip|asmfail|more-than-1024-labels-in-module"
K_NUMLAB = "roundtrip|content|numeric-i32-operand-after-label-reference"
K_NUL = "roundtrip|content|string-with-nul-byte"
K_LONGSTR = "roundtrip|asmfail|string-of-4096-bytes-or-more"
K_PATCH = "roundtrip|content|more-than-2048-label-references-in-function"
K_TNAN = "textcell|PUSH_F64|nan-payload"
K_TDEN = "textcell|PUSH_F64|denormal"

KSIZE = {"U8": 1, "U16": 2, "U32": 4, "I32": 4, "I64": 8, "F64": 8}
DBL_MIN = 2.2250738585072014e-308


# =====================================================================================================
# .nvm writer / reader (independent of the repository: header 32 bytes, directory 12 bytes per section,
# CRC32 over everything behind the header)
# =====================================================================================================
SEC_CODE, SEC_STRINGS, SEC_FUNCTIONS = 1, 2, 3


def nvm_build(strings, functions, code, flags=0, entry=0, extra_sections=()):
    """strings: [bytes]; functions: [dict(name_idx, arity, off, len, locals, upv)]; code: bytes."""
    secs = []
    if strings:
        secs.append((SEC_STRINGS, b"".join(struct.pack("<I", len(s)) + s for s in strings)))
    if code:
        secs.append((SEC_CODE, bytes(code)))
    if functions:
        secs.append((SEC_FUNCTIONS, b"".join(
            struct.pack("<IHIIHH", f["name_idx"], f["arity"], f["off"], f["len"], f["locals"], f["upv"])
            for f in functions)))
    secs.extend(extra_sections)
    n = len(secs)
    pos = 32 + 12 * n
    d = b""
    body = b""
    spo = spl = 0
    for t, data in secs:
        d += struct.pack("<III", t, pos, len(data))
        if t == SEC_STRINGS:
            spo, spl = pos, len(data)
        body += data
        pos += len(data)
    rest = d + body
    return (b"NVM\x01" + struct.pack("<IIIIII", 1, flags, entry, n, spo, spl)
            + struct.pack("<I", zlib.crc32(rest) & 0xFFFFFFFF) + rest)


def nvm_parse(data):
    """Inverse of nvm_build for files the repository's serializer wrote. Returns dict or None."""
    if len(data) < 32 or data[:4] != b"NVM\x01":
        return None
    ver, flags, entry, nsec, _spo, _spl, _crc = struct.unpack("<IIIIIII", data[4:32])
    strings, functions, code, extra = [], [], b"", []
    for i in range(nsec):
        t, off, size = struct.unpack("<III", data[32 + 12 * i: 44 + 12 * i])
        sec = data[off: off + size]
        if len(sec) != size:
            return None
        if t == SEC_STRINGS:
            p = 0
            while p + 4 <= size:
                (ln,) = struct.unpack("<I", sec[p:p + 4])
                p += 4
                if p + ln > size:
                    return None
                strings.append(sec[p:p + ln])
                p += ln
        elif t == SEC_CODE:
            code = sec
        elif t == SEC_FUNCTIONS:
            for p in range(0, size - 17, 18):
                ni, ar, off2, ln, lc, uv = struct.unpack("<IHIIHH", sec[p:p + 18])
                functions.append(dict(name_idx=ni, arity=ar, off=off2, len=ln, locals=lc, upv=uv))
        else:
            extra.append((t, sec))
    return dict(flags=flags, entry=entry, strings=strings, functions=functions, code=code, extra=extra)


# =====================================================================================================
# synthetic modules
# =====================================================================================================
U8_B = [0, 1, 0x7F, 0x80, 0xFF]
U16_B = [0, 1, 0xFF, 0x100, 0x7FFF, 0x8000, 0xFFFF]
U32_B = [0, 1, 0xFFFF, 0x10000, 0x7FFFFFFF, 0x80000000, 0xFFFFFFFF]
I64_B = [0, 1, -1, 0x7FFFFFFF, 0x80000000, 0xFFFFFFFF, -0x80000000, 0x7FFFFFFFFFFFFFFF, -0x8000000000000000,
         1234567890123456789, -42]
F64_B = [0x0000000000000000, 0x8000000000000000, 0x3FF0000000000000, 0xBFF0000000000000, 0x7FF0000000000000,
         0xFFF0000000000000, 0x7FF8000000000000, 0xFFF8000000000000, 0x0010000000000000, 0x7FEFFFFFFFFFFFFF,
         0xFFEFFFFFFFFFFFFF, 0x400921FB54442D18, 0x3FB999999999999A, 0x4340000000000000, 0x433FFFFFFFFFFFFF]
IDENT0 = "ABCDEFGHIJKLMNOPQRSTUVWXYZabcdefghijklmnopqrstuvwxyz_"
IDENT = IDENT0 + "0123456789"


def f64_ok(bits):
    """inside the zone of the sweep: not a denormal, not a NaN with a non-default payload"""
    e = (bits >> 52) & 0x7FF
    m = bits & 0xFFFFFFFFFFFFF
    if e == 0 and m != 0:
        return False
    if e == 0x7FF and m not in (0, 0x8000000000000):
        return False
    return True


class Synth:
    """Random module builder.  `ops` = [(opcode, name, [kinds])] from isa_probe --dump."""

    def __init__(self, ops, rng, allow=()):
        """allow: keys of known defects that are NOT open any more - their triggers become part of the sweep."""
        self.ops = ops
        self.rng = rng
        self.allow = set(allow)
        self.jumpers = [o for o in ops if "I32" in o[2]]
        self.byname = {o[1]: o for o in ops}

    # ---- strings --------------------------------------------------------------------------------
    def string(self, cls, maxlen=40):
        r = self.rng
        n = r.choice([0, 1, 2, 3, 5, 8, 13, 21, maxlen]) if r.random() < 0.8 else r.randrange(maxlen + 1)
        if cls == "plain":
            alpha = [ord(c) for c in "abcXYZ019 _-+*/=<>()[]{}.,:!?'@$%^&|~`"]
            if K_COMMENT in self.allow:
                alpha += [ord(";"), ord("#")] * 3
        elif cls == "escapes":
            alpha = [ord('"'), ord("\\"), ord("\n"), ord("\t"), ord("\r"), ord("n"), ord("t"), ord("0"), ord("a"), ord(" ")]
        elif cls == "high":
            alpha = list(range(0x80, 0x100)) + [ord("a"), ord(" ")]
        elif cls == "ctrl":
            alpha = [c for c in range(1, 0x20)] + [0x7F, ord("x")]
        else:  # anything except the known triggers ; # NUL
            alpha = [c for c in range(1, 256) if c not in (ord(";"), ord("#")) or K_COMMENT in self.allow]
            if K_NUL in self.allow:
                alpha += [0] * 4
        return bytes(r.choice(alpha) for _ in range(n))

    def ident(self, maxlen=24):
        r = self.rng
        n = r.choice([1, 2, 3, 6, 10, maxlen])
        return (r.choice(IDENT0) + "".join(r.choice(IDENT) for _ in range(n - 1))).encode()

    # ---- one operand (not I32) --------------------------------------------------------------------
    def operand(self, kind):
        r = self.rng
        if kind == "U8":
            return r.choice(U8_B) if r.random() < 0.5 else r.randrange(256)
        if kind == "U16":
            return r.choice(U16_B) if r.random() < 0.5 else r.randrange(1 << 16)
        if kind == "U32":
            return r.choice(U32_B) if r.random() < 0.5 else r.randrange(1 << 32)
        if kind == "I64":
            v = r.choice(I64_B) if r.random() < 0.5 else r.randrange(-(1 << 63), 1 << 63)
            return v & 0xFFFFFFFFFFFFFFFF
        if kind == "F64":
            while True:
                b = r.choice(F64_B) if r.random() < 0.4 else r.getrandbits(64)
                if K_DENORM in self.allow and r.random() < 0.1:
                    b = (b & 0x800FFFFFFFFFFFFF) | 1
                if f64_ok(b) or (K_DENORM in self.allow and (b >> 52) & 0x7FF == 0):
                    return b
        raise ValueError(kind)

    # ---- one function body ---------------------------------------------------------------------
    def function(self, ninstr, mode, label_budget, safe_str, nstr, jump_density=0.25, max_refs=2000):
        """Returns (code, distinct_label_targets_used).  mode: labels | numeric | numeric-then-labels | none.
        safe_str: string indices a PUSH_STR may name (their text lands in a comment of the disassembly)."""
        r = self.rng
        instrs = []  # [op, kinds, values]   (I32 values filled in later)
        njump = 0
        for _ in range(ninstr):
            if self.jumpers and mode != "none" and r.random() < jump_density:
                op, name, kinds = r.choice(self.jumpers)
            else:
                op, name, kinds = r.choice(self.ops)
            if "I32" in kinds:
                # never more label references than the assembler's per-function patch table holds (known K_PATCH)
                if mode == "none" or njump >= max_refs:
                    op, name, kinds = self.byname["NOP"]
                else:
                    njump += 1
            vals = []
            for k in kinds:
                if k == "I32":
                    vals.append(None)
                elif name == "PUSH_STR":
                    # a referenced string is echoed into a comment: keep newline-strings out (known K_PNL)
                    if safe_str and r.random() < 0.7:
                        vals.append(r.choice(safe_str))
                    else:
                        vals.append(nstr + r.randrange(1, 1000))
                else:
                    vals.append(self.operand(k))
            instrs.append([op, kinds, vals])
        # layout
        pos = []
        p = 0
        for op, kinds, vals in instrs:
            pos.append(p)
            p += 1 + sum(KSIZE[k] for k in kinds)
        n = p
        bounds = pos + [n]
        # target pool (bounded: the disassembler names at most 512 targets per function, the assembler's
        # label table holds 1024 per module - staying below both is the zone of the sweep)
        pool_n = min(label_budget, 700 if K_NUMLAB in self.allow and r.random() < 0.3 else 500, len(bounds))
        pool = r.sample(bounds, pool_n) if pool_n > 0 else []
        if pool and r.random() < 0.5 and n not in pool:
            pool[0] = n                                     # function end
        if pool and r.random() < 0.3 and 0 not in pool:
            pool[-1] = 0
        used = set()
        refs = 0
        jidx = [i for i, ins in enumerate(instrs) if "I32" in ins[1]]
        switch = r.randrange(len(jidx) + 1) if mode == "numeric-then-labels" else 0
        seen = 0
        for i in jidx:
            op, kinds, vals = instrs[i]
            for s, k in enumerate(kinds):
                if k != "I32":
                    continue
                numeric = (mode == "numeric") or (mode == "numeric-then-labels" and seen < switch) or not pool \
                    or (mode == "mixed" and r.random() < 0.3)
                if mode == "labels" and not numeric and r.random() < 0.1 and pos[i] in pool:
                    t = pos[i]                              # jump to self
                elif not numeric:
                    t = r.choice(pool)
                if numeric:
                    c = r.random()
                    if c < 0.35:
                        rel = (n - pos[i]) + r.choice([1, 2, 5, 100, 70000])          # beyond the end
                    elif c < 0.7:
                        rel = -pos[i] - r.choice([1, 2, 5, 100, 70000])              # before the start
                    elif c < 0.85:
                        rel = r.choice([0x7FFFFFFF, -0x80000000, -0x7FFFFFFF])
                        if 0 <= pos[i] + rel <= n:
                            rel = n - pos[i] + 1
                    else:
                        rel = r.choice([1, -1]) * r.randrange(n + 1, n + (1 << 20))
                        if 0 <= pos[i] + rel <= n:
                            rel = n - pos[i] + 1
                else:
                    rel = t - pos[i]
                    used.add(t)
                    refs += 1
                vals[s] = rel & 0xFFFFFFFF
            seen += 1
        out = bytearray()
        for op, kinds, vals in instrs:
            out.append(op)
            for k, v in zip(kinds, vals):
                out += int(v).to_bytes(KSIZE[k], "little")
        assert len(out) == n
        return bytes(out), len(used)

    # ---- a whole module -------------------------------------------------------------------------
    def module(self, profile=None):
        r = self.rng
        profile = profile or r.choices(
            ["small", "medium", "manyfn", "bigfn", "strings", "labels", "nocode"], [30, 30, 6, 6, 16, 8, 4])[0]
        nfun = {"small": r.randrange(1, 4), "medium": r.randrange(2, 12), "manyfn": r.choice([64, 200, 513, 600]),
                "bigfn": r.randrange(1, 3), "strings": r.randrange(1, 4), "labels": r.randrange(2, 6),
                "nocode": r.randrange(0, 3)}[profile]
        # strings: function names first or interleaved
        names = []
        seen = set()
        while len(names) < nfun:
            s = self.ident(250 if r.random() < 0.02 else 24)
            if s not in seen:
                seen.add(s)
                names.append(s)
        nother = {"strings": r.randrange(5, 60), "nocode": r.randrange(0, 3)}.get(profile, r.randrange(0, 10))
        others = []
        for _ in range(nother):
            cls = r.choice(["plain", "escapes", "high", "ctrl", "any"])
            mx = 40
            if profile == "strings" and r.random() < 0.15:
                mx = r.choice([300, 4094, 4095])
            s = self.string(cls, mx)
            if mx > 1000 and r.random() < 0.5:
                s = (s * (mx // max(1, len(s)) + 1))[:mx] if s else b"x" * mx
            if s not in seen:
                seen.add(s)
                others.append(s)
        pool = [("n", s) for s in names] + [("o", s) for s in others]
        if r.random() < 0.6:
            r.shuffle(pool)
        strings = [s for _, s in pool]
        name_idx = [i for i, (k, _) in enumerate(pool) if k == "n"]
        if r.random() < 0.5:
            r.shuffle(name_idx)
        safe_str = [i for i, s in enumerate(strings) if b"\n" not in s or K_PNL in self.allow]
        functions = []
        code = bytearray()
        budget = 1000
        for fi in range(nfun):
            if profile == "nocode":
                ninstr = 0
            elif profile == "bigfn":
                ninstr = r.choice([900, 3000, 9000])
            elif profile == "manyfn":
                ninstr = r.choice([0, 1, 2, 5])
            elif profile == "labels":
                ninstr = r.choice([300, 800, 1500])
            else:
                ninstr = r.choice([0, 1, 2, 3, 8, 20, 60, 150])
            mode = r.choices(["labels", "numeric", "numeric-then-labels", "none", "mixed"],
                             [60, 12, 18, 10, 25 if K_NUMLAB in self.allow else 0])[0]
            dens = 0.25
            if profile == "labels":
                mode, dens = "labels", 0.6
            body, used = self.function(ninstr, mode, budget, safe_str, len(strings), dens)
            if K_LABELS not in self.allow:
                budget -= used
            functions.append(dict(name_idx=name_idx[fi], arity=r.choice([0, 1, 2, 255, 65535, r.randrange(65536)]),
                                  off=len(code), len=len(body), locals=r.choice([0, 1, 7, 256, 65535, r.randrange(65536)]),
                                  upv=r.choice([0, 0, 1, 65535, r.randrange(65536)])))
            code += body
        flags = r.choice([0, 1, 1, 3, 7])
        entry = r.randrange(nfun) if nfun else 0
        return nvm_build(strings, functions, bytes(code), flags, entry), profile


def fixed_shapes(ops):
    """Deterministic modules: one per jump shape / string class / edge (all inside the zone)."""
    byname = {o[1]: o for o in ops}
    JMP, JT, JF, NOP, RET = (byname[n][0] for n in ("JMP", "JMP_TRUE", "JMP_FALSE", "NOP", "RET"))
    MT = byname["MATCH_TAG"][0]
    PS = byname["PUSH_STR"][0]

    def j(op, rel):
        return bytes([op]) + struct.pack("<i", rel)

    def fn(i, off, ln, ar=0, lc=0, uv=0):
        return dict(name_idx=i, arity=ar, off=off, len=ln, locals=lc, upv=uv)

    def single(code, strings=(b"f",), **kw):
        return nvm_build(list(strings), [fn(0, 0, len(code), **kw)], code)

    out = {}
    out["empty-module"] = nvm_build([], [], b"")
    out["strings-only"] = nvm_build([b"a", b""], [], b"")
    out["fn-len0"] = nvm_build([b"f"], [fn(0, 0, 0)], b"")
    out["fn-len0-among"] = nvm_build([b"f", b"g", b"h"], [fn(0, 0, 1), fn(1, 1, 0), fn(2, 1, 1)], bytes([RET, RET]))
    out["fwd"] = single(j(JMP, 6) + bytes([NOP, RET]))
    out["back"] = single(bytes([NOP]) + j(JMP, -1) + bytes([RET]))
    out["self"] = single(j(JMP, 0) + bytes([RET]))
    out["to-end"] = single(j(JMP, 5))
    out["to-end-cond"] = single(bytes([NOP]) + j(JT, 10) + j(JF, 5))
    out["beyond-end"] = single(j(JMP, 6))
    out["before-start"] = single(j(JMP, -1) + bytes([RET]))
    out["extreme-rel"] = single(j(JMP, 0x7FFFFFFF) + j(JT, -0x80000000) + j(JF, -0x7FFFFFFF))
    out["match-tag"] = single(bytes([MT]) + struct.pack("<Hi", 0xFFFF, 7) + bytes([RET]) + bytes([MT]) + struct.pack("<Hi", 0, -8))
    out["numeric-then-label"] = single(j(JMP, 100) + j(JMP, -100) + j(JMP, 5) + bytes([RET]))
    # many targets in one function: 512 distinct (all still named)
    body = b"".join(j(JMP, 5) for _ in range(512))
    out["512-targets"] = single(body)
    # 2048 label references to few targets
    body = b"".join(j(JMP, -5 * i) for i in range(2048))
    out["2048-refs"] = single(body)
    # 1024 labels in the module (4 functions x 256)
    body = b"".join(j(JF, 5) for _ in range(256))
    out["1024-labels"] = nvm_build([b"f0", b"f1", b"f2", b"f3"], [fn(i, i * len(body), len(body)) for i in range(4)], body * 4)
    # same label names in different functions
    body = j(JMP, 5) + bytes([RET])
    out["labels-per-function"] = nvm_build([b"a", b"b"], [fn(0, 0, 6), fn(1, 6, 6)], body * 2)
    # function bigger than the assembler's initial 4096-byte buffer
    out["big-function"] = single(bytes([NOP]) * 70000 + j(JMP, -70000))
    # strings
    out["str-escapes"] = single(bytes([RET]), (b"f", b'"', b"\\", b"\\n", b'\\"', b"\n", b"\t", b"\r", b"a\rb", b" lead", b"trail ", b"\t\t", b"'", b"\\\\", b'""'))
    out["str-high"] = single(bytes([RET]), (b"f", bytes(range(0x80, 0x100)), b"\xff", "héllo →".encode()))
    out["str-ctrl"] = single(bytes([RET]), (b"f", bytes(c for c in range(1, 0x20) if c != 10), b"\x7f"))
    out["str-4095"] = single(bytes([RET]), (b"f", b"y" * 4095, b"\\" * 2000, b'"' * 2047))
    out["pushstr-safe"] = single(bytes([PS]) + struct.pack("<I", 1) + bytes([PS]) + struct.pack("<I", 2) + bytes([PS]) + struct.pack("<I", 99) + bytes([RET]),
                                 (b"f", b'say "hi" \\ there', b"tab\there"))
    out["name-shapes"] = nvm_build([b"_", b"x9", b"RET", b"L0", b"A" * 254], [fn(i, i, 1) for i in range(5)], bytes([RET] * 5))
    out["shared-name"] = nvm_build([b"f"], [fn(0, 0, 1), fn(0, 1, 1)], bytes([RET, RET]))
    out["u16-fields"] = nvm_build([b"f"], [fn(0, 0, 1, 65535, 65535, 65535)], bytes([RET]))
    return out


def witness_modules(ops):
    """Synthetic witnesses of known defects that nano_virt cannot (easily) be made to produce."""
    byname = {o[1]: o for o in ops}
    JMP, RET, PS, PF = (byname[n][0] for n in ("JMP", "RET", "PUSH_STR", "PUSH_F64"))

    def j(rel):
        return bytes([JMP]) + struct.pack("<i", rel)

    def single(code, strings=(b"f",)):
        return nvm_build(list(strings), [dict(name_idx=0, arity=0, off=0, len=len(code), locals=0, upv=0)], code)

    return {
        "string_nul.nvm": (K_NUL, single(bytes([RET]), (b"f", b"a\0b"))),
        "string_4096.nvm": (K_LONGSTR, single(bytes([RET]), (b"f", b"z" * 4096))),
        "refs_2049.nvm": (K_PATCH, single(b"".join(j(-5 * i) for i in range(2049)))),
        "pushstr_newline_injects.nvm": (K_PNL, single(bytes([PS]) + struct.pack("<I", 1) + bytes([RET]), (b"f", b"a\n  RET"))),
        "numeric_after_label.nvm": (K_NUMLAB, single(j(5) + j(100) + bytes([RET]))),
        "targets_513.nvm": (K_NUMLAB, single(b"".join(j(5) for _ in range(513)))),
        "semicolon.nvm": (K_COMMENT, single(bytes([RET]), (b"f", b"a;b"))),
        "hash.nvm": (K_COMMENT, single(bytes([RET]), (b"f", b"#"))),
        "denormal.nvm": (K_DENORM, single(bytes([PF]) + struct.pack("<Q", 1) + bytes([RET]))),
        "labels_1025.nvm": (K_LABELS, nvm_build([b"a", b"b", b"c"], [dict(name_idx=i, arity=0, off=i * 5 * 342, len=5 * 342, locals=0, upv=0) for i in range(3)],
                                                b"".join(j(5) for _ in range(342)) * 3)),
    }


# =====================================================================================================
# generated .nano programs (compiler-produced modules with varied control flow)
# =====================================================================================================
LIT_ALPHA = "abcdefgXYZ0123456789 _-+*/=<>()[]{}.,:!?'@$%^&|~"


def nano_program(r):
    uid = [0]

    def fresh(p):
        uid[0] += 1
        return "%s%d" % (p, uid[0])

    def lit():
        n = r.choice([0, 1, 3, 8, 20])
        s = ""
        for _ in range(n):
            c = r.random()
            if c < 0.75:
                s += r.choice(LIT_ALPHA)
            elif c < 0.85:
                s += r.choice(['\\"', "\\\\", "\\n", "\\t"])
            else:
                s += r.choice(["é", "ü", "→", "中"])
        return '"%s"' % s

    def expr(vars_, d=0):
        c = r.random()
        if d > 2 or c < 0.3:
            return str(r.choice([0, 1, 2, 7, 100, 255, 256, 65535, 65536, 2147483647, 2147483648, 4294967296, 9007199254740993]))
        if c < 0.55:
            return r.choice(vars_)
        if c < 0.9:
            return "(%s %s %s)" % (r.choice(["+", "-", "*"]), expr(vars_, d + 1), expr(vars_, d + 1))
        return "(cond ((< %s 0) %s) ((== %s 0) %s) (else %s))" % (r.choice(vars_), expr(vars_, d + 1), r.choice(vars_), expr(vars_, d + 1), expr(vars_, d + 1))

    def cond(vars_):
        c = "(%s %s %s)" % (r.choice(["<", ">", "==", "!=", "<=", ">="]), expr(vars_, 1), expr(vars_, 1))
        if r.random() < 0.25:
            c = "(%s %s (%s %s %s))" % (r.choice(["and", "or"]), c, r.choice(["<", ">"]), r.choice(vars_), expr(vars_, 2))
        if r.random() < 0.1:
            c = "(not %s)" % c
        return c

    def block(vars_, depth, in_loop, callees, ind):
        out = []
        pad = "    " * ind
        for _ in range(r.choice([1, 2, 3, 4]) if depth else r.choice([3, 5, 8, 12])):
            c = r.random()
            if c < 0.22 or depth >= 4:
                out.append("%sset s (+ s %s)" % (pad, expr(vars_)))
            elif c < 0.34:
                out.append("%s(println %s)" % (pad, lit()))
            elif c < 0.54:
                out.append("%sif %s {" % (pad, cond(vars_)))
                out += block(vars_, depth + 1, in_loop, callees, ind + 1)
                if r.random() < 0.6:
                    out.append("%s} else {" % pad)
                    out += block(vars_, depth + 1, in_loop, callees, ind + 1)
                out.append("%s}" % pad)
            elif c < 0.66:
                v = fresh("i")
                out.append("%slet mut %s: int = 0" % (pad, v))
                out.append("%swhile (< %s %d) {" % (pad, v, r.choice([1, 3, 10])))
                out += block(vars_ + [v], depth + 1, True, callees, ind + 1)
                out.append("%s    set %s (+ %s 1)" % (pad, v, v))
                out.append("%s}" % pad)
            elif c < 0.76:
                v = fresh("k")
                out.append("%sfor %s in (range 0 %d) {" % (pad, v, r.choice([1, 4, 9])))
                out += block(vars_ + [v], depth + 1, True, callees, ind + 1)
                out.append("%s}" % pad)
            elif c < 0.82 and in_loop:
                out.append("%sif %s { break }" % (pad, cond(vars_)))
            elif c < 0.88 and callees:
                out.append("%sset s (+ s (%s %s))" % (pad, r.choice(callees), expr(vars_, 1)))
            elif c < 0.93:
                out.append("%sif %s { return s }" % (pad, cond(vars_)))
            else:
                v = fresh("t")
                out.append("%slet %s: int = %s" % (pad, v, expr(vars_)))
                out.append("%sset s (+ s %s)" % (pad, v))
        return out

    nf = r.choice([1, 2, 3, 5, 8])
    src = []
    globs = []
    if r.random() < 0.3:
        for gi in range(r.choice([1, 2, 4])):
            globs.append("G%d" % gi)
            src.append("let G%d: int = %d" % (gi, r.randrange(1000)))
    names = []
    for fi in range(nf):
        nm = "fn_%d" % fi
        src.append("fn %s(a: int) -> int {" % nm)
        src.append("    let mut s: int = 0")
        src += block(["a", "s"] + globs, 0, False, list(names), 1)
        src.append("    return s")
        src.append("}")
        src.append("shadow %s { assert true }" % nm)
        names.append(nm)
    src.append("fn main() -> int {")
    for nm in names:
        src.append("    (println (%s %d))" % (nm, r.randrange(10)))
    if r.random() < 0.5:
        src.append("    let fl: float = %s" % r.choice(["0.1", "1.5", "3.141592653589793", "1000000.0", "0.000001", "123456789.125"]))
        src.append("    (println fl)")
    src.append("    return 0")
    src.append("}")
    src.append("shadow main { assert true }")
    return "\n".join(src) + "\n"


# =====================================================================================================
# running the probes
# =====================================================================================================
def unesc(s):
    """inverse of rt_probe's put_escaped (bytes >= 0x80 become the code point of the same number)"""
    def one(m):
        g = m.group(1)
        if len(g) == 3:
            return chr(int(g[1:], 16))
        return {"n": "\n", "t": "\t", "r": "\r"}.get(g, g)
    return re.sub(r"\\(x[0-9a-f]{2}|.)", one, s)


def san_signature(rep):
    first = re.sub(r"0x[0-9a-f]+", "", rep.splitlines()[0])
    first = re.sub(r"==\d+==", "", first).strip()[:100]
    frames = re.findall(r"#\d+ \S+ in (\w+) (?:src|/)", rep)
    frames = [f for f in frames if not f.startswith("__")][:3]
    return first + "|" + ">".join(frames)


def run_rt(asan, paths, chunk=40):
    """rt_probe over all paths.  Returns {path: record(dict)}; a crash is a record with outcome 'crash'."""
    chunks = [paths[i:i + chunk] for i in range(0, len(paths), chunk)]

    def one(ch):
        recs = {}
        todo = list(ch)
        guard = 0
        while todo and guard < len(ch) + 2:
            guard += 1
            r = sh([asan.probe("rt_probe")], stdin=("\n".join(todo) + "\n").encode(), cpu=300, san=True, wall=1800)
            done = []
            for line in r.text().splitlines():
                f = line.split("\t")
                if len(f) >= 5 and f[0] == "MOD":
                    st = {}
                    if f[3] != "-":
                        st = {k: int(v) for k, v in (kv.split("=") for kv in f[3].split(","))}
                    recs[f[1]] = dict(outcome=f[2], st=st, detail=f[4], raw=line)
                    done.append(f[1])
            rest = [p for p in todo if p not in recs]
            rep = r.sanitizer_report()
            if r.rc == 127 or r.timeout:
                # a watchdog is never a verdict here (the property is not about termination)
                raise Inconclusive("rt_probe %s on %s" % ("timed out" if r.timeout else "could not be started", (rest or todo)[0]))
            if rest and (rep or r.sig or r.rc != 0):
                victim = rest[0]
                recs[victim] = dict(outcome="crash", st={}, raw="",
                                    detail=(san_signature(rep) if rep else "rc=%s sig=%s" % (r.rc, r.sig)),
                                    report=rep or r.errtext()[-3000:])
                rest = rest[1:]
            elif rest:
                for p in rest:
                    recs[p] = dict(outcome="norecord", st={}, detail="no record printed", raw="")
                rest = []
            elif rep:
                # all records printed and still a report: attribute to the chunk's last module
                recs[todo[-1]] = dict(outcome="crash", st={}, raw="", detail=san_signature(rep), report=rep)
            todo = rest
        return recs

    out = {}
    for recs in pmap(one, chunks):
        out.update(recs)
    return out


def detail_parts(detail):
    parts = set()
    for item in detail.split("; "):
        item = item.strip()
        if not item:
            continue
        if item.startswith("strings ") or item.startswith("str["):
            parts.add("strings")
        elif item.startswith("functions ") or re.match(r"fn\[\d+\]\.(name_idx|arity|local_count|upvalue_count|code_length)", item):
            parts.add("meta")
        elif re.match(r"fn\[\d+\]\.code_offset", item):
            parts.add("offset")
        elif re.match(r"fn\[\d+\] (own bytes|code range)", item):
            parts.add("bytes")
        elif item.startswith("code_size") or item.startswith("code differs"):
            parts.add("code")
        elif item.startswith("result_packed="):
            parts.add("packed" if item.endswith("=1") else "unpacked")
        else:
            parts.add("other:" + item[:30])
    return parts


def attribute(rec):
    """Map a non-'same' record to (key, known_cause or None).  known_cause is one of the K_* constants when the
    observation carries the specific evidence of that defect; otherwise the key is a fresh violation key."""
    oc, st, detail = rec["outcome"], rec["st"], rec["detail"]
    if oc == "layout":
        parts = detail_parts(detail)
        if st.get("inorder") == 0 and "packed" in parts and not (parts - {"offset", "code", "packed"}):
            return K_LAYOUT, K_LAYOUT
        return "roundtrip|layout|unexplained|inorder=%s %s" % (st.get("inorder"), ",".join(sorted(parts))), None
    if oc == "asmfail":
        m = re.match(r"err=(\d+) line=(\d+) msg=(.*?) prev=(.*?) src=(.*) labels_before=(\d+)$", detail, re.S)
        if not m:
            return "roundtrip|asmfail|unparsed", None
        err, line, msg, prev, src, lb = m.groups()
        lb = int(lb)
        src_u = unesc(src)
        if msg == "Expected quoted string after .string" and src_u.startswith('.string "'):
            if re.search(r"[;#]", src_u) and st.get("sc", 0) > 0:
                return K_COMMENT, K_COMMENT
            if st.get("maxstr", 0) >= 4096 and len(src_u) >= 4096 + 10:
                return K_LONGSTR, K_LONGSTR
        if msg == "Expected f64 operand" and st.get("fden", 0) > 0:
            mm = re.match(r"^  PUSH_F64 (-?[0-9.]+e-\d+)$", src_u)
            if mm and 0 < abs(float(mm.group(1))) < DBL_MIN:
                return K_DENORM, K_DENORM
        if msg.startswith("Duplicate label: L") and re.match(r"^L\d+:$", src_u) and lb == 1024 and st.get("labdef", 0) > 1024:
            return K_LABELS, K_LABELS
        if st.get("pnl", 0) > 0:
            # the offending line must be the tail of a PUSH_STR comment: it is not a line the disassembler prints
            shaped = re.match(r"^(  [A-Z_0-9]+( .*)?|L\d+:|\.(string|function|entry|end)\b.*|)$", src_u, re.S)
            if not shaped or (src_u.endswith('"') and not src_u.startswith(".string")):
                return K_PNL, K_PNL
        sig = re.sub(r"\d+", "N", msg)[:60]
        what = src_u.split()[0] if src_u.split() else ""
        return "roundtrip|asmfail|%s|at %s" % (sig, re.sub(r"\d+", "N", what)[:24]), None
    if oc == "content":
        parts = detail_parts(detail)
        if st.get("pnl", 0) > 0:
            return K_PNL, K_PNL
        if st.get("sz", 0) > 0 and parts and parts <= {"strings"}:
            return K_NUL, K_NUL
        codeonly = parts and "bytes" in parts and not (parts - {"bytes", "code", "offset"})
        if codeonly and st.get("nal", 0) > 0:
            return K_NUMLAB, K_NUMLAB
        if codeonly and st.get("maxpatch", 0) > 2048:
            return K_PATCH, K_PATCH
        return "roundtrip|content|%s" % ",".join(sorted(parts)), None
    return "roundtrip|%s|%s" % (oc, re.sub(r"\d+", "N", detail)[:80]), None


def neutralise(data, cause, ops):
    """Remove exactly the trigger of `cause` from a module file; None when impossible."""
    m = nvm_parse(data)
    if not m:
        return None
    strings = list(m["strings"])

    def remap(fn):
        new = [fn(s) for s in strings]
        if len(set(new)) != len(set(strings)):
            return None
        return new

    code = m["code"]
    if cause == K_COMMENT:
        for a, b in ((b":", b"="), (b",", b"+"), (b"_", b"-")):
            new = remap(lambda s: s.replace(b";", a).replace(b"#", b))
            if new:
                break
    elif cause == K_PNL:
        for a in (b" ", b"_", b"~"):
            new = remap(lambda s: s.replace(b"\n", a))
            if new:
                break
    elif cause == K_NUL:
        new = remap(lambda s: s.replace(b"\0", b"0"))
    elif cause == K_LONGSTR:
        new = remap(lambda s: s if len(s) < 4096 else hashlib.sha256(s).hexdigest().encode() + s[:4000])
    elif cause == K_DENORM:
        new = strings
        sizes = {o[0]: o[2] for o in ops}
        b = bytearray(code)
        for f in m["functions"]:
            p, end = f["off"], f["off"] + f["len"]
            if end > len(b):
                return None
            while p < end:
                kinds = sizes.get(b[p])
                if kinds is None:
                    return None
                q = p + 1
                for k in kinds:
                    if k == "F64":
                        bits = int.from_bytes(b[q:q + 8], "little")
                        if (bits >> 52) & 0x7FF == 0 and bits & 0xFFFFFFFFFFFFF:
                            b[q:q + 8] = struct.pack("<d", 1.0)
                    q += KSIZE[k]
                p = q
        code = bytes(b)
    else:
        return None
    if not new:
        return None
    return nvm_build(new, m["functions"], code, m["flags"], m["entry"], m["extra"])


NEUTRALISABLE = (K_COMMENT, K_PNL, K_NUL, K_LONGSTR, K_DENORM)


# =====================================================================================================
# part 1: codec table
# =====================================================================================================
def f64_class(bits):
    e = (bits >> 52) & 0x7FF
    m = bits & 0xFFFFFFFFFFFFF
    if e == 0 and m:
        return "denormal"
    if e == 0x7FF and m not in (0, 0x8000000000000):
        return "nan-payload"
    return "0x%x" % bits


ORDERS = ("decode-first", "encode-first", "interleaved")


def codec_part(ctx, asan, cov):
    nrand = ctx.n(2000, 50000)
    # every order is a fresh process: decode-first proves (encodes_before_decode_pass=0) that truncations, exact decodes and
    # undefined bytes were judged before isa_encode ran at all - hidden state shared by the two functions must not matter
    runs = pmap(lambda o: (o, sh([asan.probe("isa_probe"), "--codec", str(ctx.seed), str(nrand), o], cpu=900, san=True, wall=3600)), ORDERS)
    r2 = sh([asan.probe("isa_probe"), "--text"], cpu=600, san=True, wall=3600)
    for mode, r in [("codec/" + o, r) for o, r in runs] + [("text", r2)]:
        rep = r.sanitizer_report()
        if rep:
            last = [l for l in r.text().splitlines() if l.startswith("FAIL")][-1:]
            ctx.violation("%s|sanitizer|%s" % (mode, san_signature(rep)),
                          "sanitizer report inside isa_probe (%s) (exact-size heap blocks: an over-read/over-write of the codec)\n%s\nlast FAIL line: %s"
                          % (mode, rep, last), {"report.txt": rep, "codec.txt": "isa_probe --%s %d %d %s   # asan flavor\n" % (
                              "text" if mode == "text" else "codec", ctx.seed, nrand, mode.split("/")[-1] if "/" in mode else "")})
    sums = {}
    per_order = {}
    tot = dict(cells=0, truncs=0, random=0, undef_cells=0, fails=0)
    for o, r in runs:
        m = re.search(r"SUMMARY mode=codec order=(\S+) cells=(\d+) defined=(\d+) undefined=(\d+) tuples=(\d+) truncs=(\d+) random=(\d+) "
                      r"undef_cells=(\d+) encodes_before_decode_pass=(\d+) cold_decode_opcodes=(\d+) fails=(\d+)", r.text())
        if not m:
            if ctx.violations:
                continue
            ctx.require(False, "isa_probe --codec %s printed no SUMMARY (rc=%s sig=%s): %s" % (o, r.rc, r.sig, r.errtext()[-600:]))
        g = [int(x) for x in m.groups()[1:]]
        sums[o] = g
        per_order[o] = {"cells": g[0], "truncations": g[4], "random_operand_strings": g[5], "encodes_before_decode_pass": g[7],
                        "opcodes_decoded_before_their_first_encode": g[8], "failing_cells": g[9]}
        for k, i in (("cells", 0), ("truncs", 4), ("random", 5), ("undef_cells", 6), ("fails", 9)):
            tot[k] += g[i]
        ctx.require(g[1] + g[2] == 256 and g[1] >= 1, "opcode table does not cover 256 bytes")
        bad_entries = len(set(re.findall(r"^FAIL table (op=0x[0-9a-f]{2})", r.text(), re.M)))   # skipped by the probe, reported below
        if o == "decode-first":
            ctx.require(g[7] == 0 and g[8] == g[1] - bad_entries,
                        "decode-first pass was not cold (%d encodes before it, %d of %d opcodes)" % (g[7], g[8], g[1] - bad_entries))
        if o == "interleaved":
            ctx.require(g[8] >= 8, "interleaved order decoded only %d opcodes before their first encode" % g[8])
        nfail = 0
        for line in r.text().splitlines():
            mm = re.match(r"FAIL (\S+) (op=0x[0-9a-f]{2})(.*)", line)
            if mm:
                nfail += 1
                ctx.violation("codec|%s|%s" % (mm.group(1), mm.group(2)), "isa_probe --codec (order %s): %s" % (o, line),
                              {"codec.txt": line + "\nreplay: isa_probe --codec %d %d %s   # asan flavor\n" % (ctx.seed, nrand, o)})
        ctx.require(nfail == min(g[9], 400), "FAIL lines (%d) do not match the probe's own count (%d)" % (nfail, g[9]))
    s2 = re.search(r"SUMMARY mode=text cells=(\d+) defined=(\d+) undefined=(\d+) text_cells=(\d+) skipped=(\d+) fails=(\d+)", r2.text())
    if not s2 or len(sums) != len(ORDERS):
        if ctx.violations:
            return None
        ctx.require(False, "isa_probe --text printed no SUMMARY (rc=%s sig=%s): %s" % (r2.rc, r2.sig, r2.errtext()[-600:]))
    g2 = [int(x) for x in s2.groups()]
    e = sums["encode-first"]
    g1 = [tot["cells"], e[1], e[2], e[3], tot["truncs"], tot["random"], tot["undef_cells"], tot["fails"]]
    cov["codec_orders"] = per_order
    text_known = {}
    for line in r2.text().splitlines():
        m = re.match(r"FAIL (\S+) op=0x([0-9a-f]{2}) (\S+)((?: [A-Z0-9]+:0x[0-9a-f]+)*): (.*)", line)
        if not m:
            if line.startswith("FAIL"):
                ctx.violation("textcell|unparsed", line)
            continue
        cls, op, name, pats, rest = m.groups()
        pats = pats.split()
        key = None
        if name == "PUSH_F64" and len(pats) == 1:
            fc = f64_class(int(pats[0].split(":0x")[1], 16))
            if fc == "nan-payload" and cls == "text-bytes" and re.search(r'text "  PUSH_F64 -?nan"', rest):
                key = K_TNAN
            elif fc == "denormal" and cls == "text-asmfail" and "Expected f64 operand" in rest:
                key = K_TDEN
        if key is None:
            key = "textcell|%s|%s|%s" % (name, ",".join(pats) or "-", cls)
        if not ctx.violation(key, "isa_probe --text: " + line, {"codec.txt": line + "\nreplay: isa_probe --text   # asan flavor\n"}):
            text_known[key] = text_known.get(key, 0) + 1
    cov.update({
        "codec_cells": g1[0], "opcodes_defined": g1[1], "opcodes_undefined": g1[2], "codec_tuples": g1[3],
        "codec_truncations": g1[4], "codec_random_operand_strings": g1[5], "codec_undefined_opcode_cells": g1[6],
        "codec_failing_cells": g1[7], "text_cells": g2[3], "text_cells_skipped_target_inside_instruction": g2[4],
        "text_failing_cells": g2[5], "text_failing_cells_known": text_known,
    })
    return g1, g2


# =====================================================================================================
# entry point
# =====================================================================================================
def read_ops(asan):
    r = sh([asan.probe("isa_probe"), "--dump"], cpu=30, san=True)
    ops = []
    for line in r.text().splitlines():
        f = line.split()
        if len(f) >= 4 and f[0] == "OP":
            ops.append((int(f[1], 16), f[2], f[4:4 + int(f[3])]))
    return ops


def run(ctx):
    asan = build.get("asan")
    cov = {}
    with Scratch("c11") as sc:
        ops = read_ops(asan)
        ctx.require(len(ops) >= 20 and all(k in KSIZE for o in ops for k in o[2]), "isa_probe --dump unusable (%d opcodes)" % len(ops))
        codec = codec_part(ctx, asan, cov)

        # ---------------- corpus ----------------
        mods = []        # (path, origin, label, source_path_or_None, expected_known_key_or_None)
        # (a) repository sources
        repo_src = corpus.repo_sources()
        comp = corpus.nvm_corpus(asan, sc.sub("repo"), repo_src, san=True)
        for src, p in comp:
            mods.append((p, "repo", os.path.relpath(src, build.REPO), src, None))
        n_repo = len(comp)
        # (b) generated programs
        gen_src = []
        for i in range(ctx.n(40, 500)):
            gen_src.append(sc.file("gen/g%04d.nano" % i, nano_program(ctx.rng("nano", i))))
        gcomp = corpus.nvm_corpus(asan, sc.sub("gennvm"), gen_src, san=True)
        for src, p in gcomp:
            mods.append((p, "generated", os.path.basename(src), src, None))
        # (c) synthetic sweep + fixed shapes
        for name, data in sorted(fixed_shapes(ops).items()):
            mods.append((sc.file("shape/%s.nvm" % name, data), "shape", name, None, None))
        nsyn = ctx.n(150, 2600)
        prof_hist = {}
        allow = [k for k in (K_COMMENT, K_NUL, K_PNL, K_DENORM, K_NUMLAB, K_LABELS) if k not in ctx.open]
        if allow:
            ctx.note("sweep widened by the triggers of findings that are no longer open: %s" % ", ".join(a.split("|")[-1] for a in allow))
        for i in range(nsyn):
            data, prof = Synth(ops, ctx.rng("syn", i), allow).module()
            prof_hist[prof] = prof_hist.get(prof, 0) + 1
            mods.append((sc.file("syn/s%05d.nvm" % i, data), "synthetic", "syn%05d(%s)" % (i, prof), None, None))
        # (d) witnesses of the known defects
        wit = []
        if os.path.isdir(FIND):
            wsrc = sorted(os.path.join(FIND, f) for f in os.listdir(FIND) if f.endswith(".nano"))
            for src, p in corpus.nvm_corpus(asan, sc.sub("wit"), wsrc, san=True):
                wit.append((p, os.path.basename(src), src))
        for name, (key, data) in sorted(witness_modules(ops).items()):
            wit.append((sc.file("witsyn/" + name, data), name, None))      # findings/C11/<name> is a copy for readers
        for p, name, src in wit:
            mods.append((p, "witness", name, src, None))

        ctx.require(n_repo >= 50, "only %d repository sources compiled to .nvm" % n_repo)
        ctx.require(len(gcomp) >= len(gen_src) // 2, "only %d of %d generated programs compiled" % (len(gcomp), len(gen_src)))

        # ---------------- round trips (with re-runs of neutralised modules) ----------------
        info = {m[0]: m for m in mods}
        recs = run_rt(asan, [m[0] for m in mods])
        hist = {}
        shapes = {}
        hashes = set()
        nontrivial = set()
        samples = []
        n_done = 0
        witness_result = {}
        queue = [m[0] for m in mods]
        rounds = 0
        while queue and rounds < 4:
            rounds += 1
            nxt = []
            for p in queue:
                path, origin, label, src, _ = info[p]
                rec = recs.get(p)
                ctx.require(rec is not None, "no result for %s" % label)
                oc = rec["outcome"]
                if oc == "noload":
                    ctx.require(origin in ("repo", "generated"), "module built by the harness does not load: %s" % label)
                    hist[origin + ":noload"] = hist.get(origin + ":noload", 0) + 1
                    continue
                n_done += 1
                data = open(path, "rb").read()
                h = hashlib.sha256(data).hexdigest()
                hashes.add(h)
                st = rec["st"]
                if st.get("code", 0) > 0 and st.get("fns", 0) > 0:
                    nontrivial.add(h)
                if origin in ("repo", "generated", "synthetic", "shape"):       # what the sweep itself exercised (witnesses excluded)
                    for k in ("jf", "jb", "je", "js", "jo", "zero", "sc", "sn", "sr", "st", "sq", "sb", "sh", "sz", "se", "nal", "pnl", "fden"):
                        if st.get(k):
                            shapes[k] = shapes.get(k, 0) + 1
                    for k in ("maxlab", "labdef", "maxpatch", "maxstr", "fns", "code"):
                        shapes["max_" + k] = max(shapes.get("max_" + k, 0), st.get(k, 0))
                    if st.get("inorder") == 0:
                        shapes["not_in_table_order"] = shapes.get("not_in_table_order", 0) + 1
                if oc == "same":
                    hist[origin + ":same"] = hist.get(origin + ":same", 0) + 1
                    if origin == "witness":
                        witness_result[label] = "same"
                    if origin != "witness" and st.get("jf") and sum(1 for x in samples if x["origin"] == origin) < 2:
                        samples.append({"module": label, "origin": origin, "outcome": oc, "stats": rec["raw"].split("\t")[3]})
                    continue
                key, cause = attribute(rec)
                hk = "%s:%s" % (origin, cause.split("|", 1)[1] if cause else oc + ":UNEXPLAINED")
                hist[hk] = hist.get(hk, 0) + 1
                if origin == "witness":
                    witness_result[label] = key
                files = {"input.nvm": data, "record.txt": rec["raw"] + "\n" + rec.get("report", ""),
                         "cmd.txt": "rt_probe input.nvm          # asan flavor; rt_probe --text input.nvm prints the disassembly\n"}
                if src:
                    files["source.nano"] = open(src, "rb").read()
                t = sh([asan.probe("rt_probe"), "--text", path], cpu=60, san=True)
                if t.rc == 0:
                    files["disassembly.txt"] = t.out[:2 << 20]
                what = "text round trip of %s module %s is not the identity: %s\n%s" % (origin, label, oc, rec["detail"][:400])
                is_new = ctx.violation(key, what, files)
                if len(samples) < 10 and not is_new and not any(s.get("key") == key for s in samples):
                    samples.append({"module": label, "origin": origin, "outcome": oc, "key": key, "detail": rec["detail"][:200]})
                if cause in NEUTRALISABLE and not is_new:
                    nd = neutralise(data, cause, ops)
                    if nd is not None and nd != data:
                        np_ = sc.file("neut/r%d_%s.nvm" % (rounds, h[:16]), nd)
                        info[np_] = (np_, origin + "+neutralised", label + " [" + cause.split("|")[-1] + " removed]", src, None)
                        nxt.append(np_)
                    else:
                        hist["not-neutralisable"] = hist.get("not-neutralisable", 0) + 1
            if nxt:
                recs.update(run_rt(asan, nxt))
            queue = nxt

        # witnesses of open findings that no longer fail
        for e in ctx.open.values():
            w = os.path.basename(e.get("witness", ""))
            if w and witness_result.get(w) == "same":
                ctx.note("witness %s of open finding %s round-trips now; the entry can be turned into 'fixed'" % (w, e["key"]))

        n_rt = n_done
        ctx.require(n_rt >= ctx.n(150, 2500), "too few modules round-tripped (%d)" % n_rt)
        for k in ("jf", "jb", "je", "js", "jo", "zero", "sq", "sb", "sh", "se", "sn", "st", "sr"):
            ctx.require(shapes.get(k, 0) >= 3, "shape %s exercised by fewer than 3 modules" % k)
        ctx.require(shapes.get("max_maxlab", 0) >= 512 and shapes.get("max_labdef", 0) >= 1000, "label-heavy shapes missing")
        tuples = codec[0][3] if codec else 0
        cov.update({
            "evaluations": (codec[0][0] + codec[1][3] if codec else 0) + n_rt,
            "distinct_nontrivial": tuples + (codec[0][2] if codec else 0) + len(nontrivial),
            "rule": "distinct (opcode byte, operand-pattern tuple) cells of the codec table as counted by the probe (%d tuples of defined "
                    "opcodes + %d undefined opcode bytes; each goes through encode, decode, all truncations, re-encode) + distinct modules "
                    "by SHA-256 of the file that have at least one function with code (%d of %d round-tripped)"
                    % (tuples, codec[0][2] if codec else 0, len(nontrivial), n_rt),
            "exhaustive": True,
            "explanation": "exhaustive for the codec table (256 opcode bytes x cartesian product of the boundary patterns x every truncation "
                           "length) and for the single-instruction text cells; the module round trip is an exploration",
            "modules_round_tripped": n_rt,
            "modules_distinct": len(hashes),
            "modules_by_origin": {"repo": n_repo, "generated": len(gcomp), "generated_not_compiled": len(gen_src) - len(gcomp),
                                  "synthetic": nsyn, "fixed_shapes": len(fixed_shapes(ops)), "witnesses": len(wit)},
            "synthetic_profiles": prof_hist,
            "outcomes": dict(sorted(hist.items())),
            "modules_exercising": dict(sorted(shapes.items())),
            "witnesses": dict(sorted(witness_result.items())),
            "samples": samples,
        })
        return ctx.finish(cov, assumptions=[
            "probes link the repository's own isa.o / assembler.o / disassembler.o / nvm_format.o of the asan flavor",
            "the expected instruction bytes are computed inside isa_probe from hard-coded operand sizes; only the opcode -> operand-kind table is read from isa_get_info",
            "synthetic modules are written by this check's own .nvm writer and must pass nvm_deserialize; they are decodable but need not be executable",
            "the random sweep avoids the triggers of the findings listed as open (an entry that is removed from 'open' widens the sweep automatically) (string with ; # NUL or >= 4096 bytes, newline-string named by PUSH_STR, "
            "denormal / NaN-payload f64, > 512 targets per function or a numeric i32 operand behind a label, > 1024 labels per module, > 2048 label "
            "references per function, functions out of table order); compiler-produced modules are taken as they come",
        ])


def replay(ctx, path):
    asan = build.get("asan")
    p = os.path.join(path, "input.nvm")
    if os.path.exists(p):
        r = sh([asan.probe("rt_probe"), p], cpu=60, san=True)
        print(r.text() + r.errtext()[-2000:])
        return 0 if "\tsame\t" in r.text() else 1
    if os.path.exists(os.path.join(path, "codec.txt")) or os.path.exists(os.path.join(path, "report.txt")):
        bad = 0
        for mode in [["--codec", str(ctx.seed), "2000", o] for o in ORDERS] + [["--text"]]:
            r = sh([asan.probe("isa_probe")] + mode, cpu=600, san=True)
            out = [l for l in r.text().splitlines() if l.startswith("FAIL") or l.startswith("SUMMARY")]
            print("\n".join(out[:50]) + r.errtext()[-2000:])
            bad += sum(1 for l in out if l.startswith("FAIL")) + (1 if r.sanitizer_report() else 0)
        return 1 if bad else 0
    print("nothing to replay in %s" % path)
    return 2


def write_witnesses():
    """python3 -c 'from nlv.checks import c11; c11.write_witnesses()'  - (re)creates the binary witnesses in findings/C11."""
    asan = build.get("asan")
    ops = read_ops(asan)
    os.makedirs(FIND, exist_ok=True)
    for name, (key, data) in witness_modules(ops).items():
        with open(os.path.join(FIND, name), "wb") as f:
            f.write(data)
