"""C08, implicit-access family: constructs that index an array WITHOUT an explicit index expression.

  for x in arr        the body shrinks the array being iterated (pop / remove / pop all / self-reassigned removal),
                      directly or through a callee, at the first / middle / last turn
  map / filter / reduce over a global array whose callback pops from it
  array_slice         bounds outside the array (documented semantics in src/eval.c and the native wrapper: negative
                      start / length count as 0, start and start+length are clamped to the length)

Reference semantics of the loops (comment in src/eval.c AST_FOR, same in the native backend and the VM): the length is
taken once, each element is read - bounds checked - when its turn comes.  A small model replays the scenario and gives
the turn at which the first out-of-range read happens.  Oracle: no turn >= that turn may be observed (the body prints the
turn number first), the run must not end with status 0, no sanitizer report.  An engine that re-reads the length and
simply ends the loop earlier (AFTER printed, exit 0, no turn beyond the fault point) has not read out of range: recorded
as 'ended-early', not a violation.  One compiled program per family, the turn of the mutation arrives through C08_IDX.
Controls per family: no mutation at all, and the mutation at the LAST turn (no later read: shows that the mutation
works on this engine / representation - the evaluator cannot pop from literal arrays).
"""
import os

from .. import engines
from ..run import run as sh

ENGINES = ("native", "vm", "nano_vm", "eval")
LOOP_KINDS = ("int", "float", "string", "bool")
MUTS = ("pop1", "pop2", "remove0", "removelast", "popall", "reassign_self")
LENGTHS = (2, 4, 9)
HOFS = ("map", "filter", "reduce")
I64MAX = (1 << 63) - 1
I64MIN = -(1 << 63)


def apply_mut(arr, mut):
    if mut in ("pop1", "removelast"):
        arr.pop()
    elif mut == "pop2":
        arr.pop()
        arr.pop()
    elif mut in ("remove0", "reassign_self"):
        del arr[0]
    elif mut == "popall":
        del arr[:]


def simulate(L, mut, m):
    """-> (turns [(t, element label)], turn of the first out-of-range read or None, final length)"""
    arr = list(range(L))
    turns = []
    for t in range(L):
        if t >= len(arr):
            return turns, t, len(arr)
        turns.append((t, arr[t]))
        if t == m:
            apply_mut(arr, mut)
    return turns, None, len(arr)


def mut_lines(base, T, mut, var):
    if mut == "pop1":
        return ["let d0: %s = (array_pop %s)" % (T, var)]
    if mut == "pop2":
        return ["let d0: %s = (array_pop %s)" % (T, var), "let d1: %s = (array_pop %s)" % (T, var)]
    if mut == "remove0":
        return ["(array_remove_at %s 0)" % var]
    if mut == "removelast":
        return ["(array_remove_at %s (- (array_length %s) 1))" % (var, var)]
    if mut == "popall":
        # bounded: on an engine whose pop does nothing (evaluator, literal arrays) "while length > 0" would never end
        return ["let mut g9: int = 0", "while (< g9 12) {", "    if (> (array_length %s) 0) {" % var,
                "        let d9: %s = (array_pop %s)" % (T, var), "    } else {", '        (println "C08:EMPTY")', "    }",
                "    set g9 (+ g9 1)", "}"]
    return ["set %s (array_remove_at %s 0)" % (var, var)]


class Fam:
    __slots__ = ("engine", "construct", "kind", "L", "cons", "mut", "via")

    def __init__(self, engine, construct, kind, L, cons, mut, via):
        self.engine, self.construct, self.kind, self.L, self.cons, self.mut, self.via = engine, construct, kind, L, cons, mut, via

    def name(self):
        return "%s@%s|%s|%s|%s|L=%d|%s" % (self.engine, self.construct, self.mut, self.kind, self.cons, self.L, self.via)

    def ms(self):
        """(m, role): controls m=-1 (no mutation) and m=L-1 (mutation at the last turn), faults: first and middle turn"""
        out = [(-1, "ctl"), (self.L - 1, "ctl")]
        for m, when in ((0, "first"), (self.L // 2, "middle")):
            if m < self.L - 1 and m not in [x[0] for x in out]:
                out.append((m, when))
        return out


def families(engine):
    out = []
    for kind in LOOP_KINDS:
        for L in LENGTHS:
            for cons in ("literal", "pushed"):
                for mut in MUTS:
                    for via in ("direct", "callee"):
                        if via == "callee" and mut == "reassign_self":
                            continue          # a parameter cannot be reassigned
                        out.append(Fam(engine, "forin", kind, L, cons, mut, via))
    for hof in HOFS:
        for L in (2, 4):
            for cons in ("literal", "fninit"):
                for mut in ("pop1", "popall", "remove0"):
                    out.append(Fam(engine, hof, "int", L, cons, mut, "callback"))
    return out


def program(base, f):
    T = base.TYPE[f.kind]
    k = f.kind
    L = []
    shadow_call = '(t (string_to_int (getenv "C08_IDX")))'
    if f.construct == "forin":
        if f.via == "callee":
            L.append("fn shrink(a: array<%s>) -> int {" % T)
            L += ["    " + x for x in mut_lines(base, T, f.mut, "a")]
            L += ["    return 0", "}", "shadow shrink { assert true }"]
        L.append("fn t(m: int) -> int {")
        if f.cons == "literal":
            L.append("    let mut a: array<%s> = %s" % (T, base.literal_src(k, f.L)))
        else:
            L.append("    let mut a: array<%s> = []" % T)
            for j in range(f.L):
                L.append("    set a (array_push a %s)" % base.elem_src(k, j))
        L += ["    let mut k: int = 0", '    (println "C08:START")',
              '    (println (+ "C08:LEN=" (int_to_string (array_length a))))',
              '    (println (+ "C08:BEFORE i=" (int_to_string m)))',
              "    for x in a {",
              '        (println (+ "C08:TURN " (int_to_string k)))',
              "        (println x)",
              "        if (== k m) {"]
        if f.via == "callee":
            L.append("            let r: int = (shrink a)")
        else:
            L += ["            " + x for x in mut_lines(base, T, f.mut, "a")]
        L += ["        } else {", '            (println "C08:NOMUT")', "        }", "        set k (+ k 1)", "    }",
              '    (println (+ "C08:FLEN=" (int_to_string (array_length a))))', '    (println "C08:AFTER")', "    return 0", "}"]
    else:
        if f.cons == "fninit":
            L.append("fn mk() -> array<int> {\n    let mut b: array<int> = []")
            for j in range(f.L):
                L.append("    set b (array_push b %s)" % base.elem_src(k, j))
            L.append("    return b\n}\nshadow mk { assert true }")
            L.append("let mut GA: array<int> = (mk)")
        else:
            L.append("let mut GA: array<int> = %s" % base.literal_src(k, f.L))
        L.append("let mut GK: int = 0")
        L.append("let mut GM: int = -7")
        ret = {"map": ("int", "(+ x 1)"), "filter": ("bool", "true"), "reduce": ("int", "(+ acc x)")}[f.construct]
        params = "acc: int, x: int" if f.construct == "reduce" else "x: int"
        L.append("fn cb(%s) -> %s {" % (params, ret[0]))
        L += ['    (println (+ "C08:TURN " (int_to_string GK)))', "    (println x)", "    if (== GK GM) {"]
        L += ["        " + x for x in mut_lines(base, "int", f.mut, "GA")]
        L += ["    } else {", '        (println "C08:NOMUT")', "    }", "    set GK (+ GK 1)", "    return %s" % ret[1], "}",
              "shadow cb { assert true }"]
        L.append("fn t(m: int) -> int {")
        L += ["    set GM m", '    (println "C08:START")', '    (println (+ "C08:LEN=" (int_to_string (array_length GA))))',
              '    (println (+ "C08:BEFORE i=" (int_to_string m)))']
        if f.construct == "map":
            L.append("    let r: array<int> = (map GA cb)")
        elif f.construct == "filter":
            L.append("    let r: array<int> = (filter GA cb)")
        else:
            L.append("    let r: int = (reduce GA 0 cb)")
        L += ['    (println (+ "C08:FLEN=" (int_to_string (array_length GA))))', '    (println "C08:AFTER")', "    return 0", "}"]
    if f.engine == "eval":
        L.append("shadow t {\n    %s\n}" % shadow_call)
        L.append("fn main() -> int {\n    return 0\n}")
    else:
        L.append("shadow t { assert true }")
        L.append("fn main() -> int {\n    return %s\n}" % shadow_call)
    L.append("shadow main { assert true }")
    return "\n".join(L) + "\n"


# ---------------------------------------------------------------------------------------------------------
# array_slice
# ---------------------------------------------------------------------------------------------------------
def slice_cases(L):
    starts = sorted(set([-1, 0, 1, max(L - 1, 0), L, L + 1, 1 << 31, 1 << 32, (1 << 32) + 1, I64MAX, I64MIN]))
    counts = sorted(set([-1, 0, 1, L, L + 1, (1 << 32) + 1, I64MAX, I64MIN]))
    return [(s, c) for s in starts for c in counts]


def slice_expected(L, s, c):
    s = max(s, 0)
    c = max(c, 0)
    s = min(s, L)
    e = min(s + c, L)
    return list(range(s, e))


def slice_class(L, s, c):
    a = "s<0" if s < 0 else "s<len" if s < L else "s>=len" if s < (1 << 31) else "s-huge"
    b = "c<0" if c < 0 else "c-fits" if s >= 0 and s + c <= L else "c-over" if c < (1 << 31) else "c-huge"
    return a + "," + b


def slice_program(base, engine, kind, cons, L):
    T = base.TYPE[kind]
    Ls = ["fn t(s: int, c: int) -> int {"]
    if cons == "literal":
        Ls.append("    let mut a: array<%s> = %s" % (T, base.literal_src(kind, L)))
    else:
        Ls.append("    let mut a: array<%s> = []" % T)
        for j in range(L):
            Ls.append("    set a (array_push a %s)" % base.elem_src(kind, j))
    Ls += ['    (println "C08:START")', '    (println (+ "C08:LEN=" (int_to_string (array_length a))))',
           '    (println (+ "C08:BEFORE i=" (int_to_string s)))',
           "    let r: array<%s> = (array_slice a s c)" % T,
           '    (println "C08:VALUE")', '    (println (+ "C08:SLEN=" (int_to_string (array_length r))))',
           "    for x in r {", "        (println x)", "    }", '    (println "C08:AFTER")', "    return 0", "}"]
    call = '(t (string_to_int (getenv "C08_IDX")) (string_to_int (getenv "C08_IDX2")))'
    if engine == "eval":
        Ls += ["shadow t {\n    %s\n}" % call, "fn main() -> int {\n    return 0\n}"]
    else:
        Ls += ["shadow t { assert true }", "fn main() -> int {\n    return %s\n}" % call]
    Ls.append("shadow main { assert true }")
    return "\n".join(Ls) + "\n"


# ---------------------------------------------------------------------------------------------------------
# execution (one build per family, one process per case)
# ---------------------------------------------------------------------------------------------------------
class Run:
    __slots__ = ("rc", "sig", "lines", "text", "stderr", "san", "timeout", "binary", "skip")


def run_family(base, flavor, sc, engine, src, envs, seq, tag):
    """-> list of Run (one per env dict)"""
    d = sc.sub("%s/%s%05d" % (engine, tag, seq))
    engines.write_files(d, {"main.nano": src})
    skip, err = None, ""
    if engine == "native":
        rb, built = engines.build_native(flavor, d, san=True)
        if rb.timeout:
            skip = "nanoc-timeout"
        elif not built:
            skip = "build:nanoc-sanitizer" if base.san_report(rb) else "build:" + engines.classify_nanoc_failure(rb)
            err = rb.errtext()[-1200:]
    elif engine == "nano_vm":
        rb = sh([flavor.nano_virt, "main.nano", "--emit-nvm", "-o", "main.nvm"], cwd=d, cpu=20, san=True)
        if rb.timeout:
            skip = "emit-timeout"
        elif rb.rc != 0 or not os.path.exists(os.path.join(d, "main.nvm")):
            skip, err = "emit-failed", rb.errtext()[-1200:]
    outs = []
    for env in envs:
        o = Run()
        o.skip, o.stderr, o.lines, o.text, o.san, o.binary, o.rc, o.sig, o.timeout = skip, err, [], "", None, None, None, None, False
        outs.append(o)
        if skip:
            continue
        for attempt in (0, 1):
            if engine == "native":
                e2 = dict(base.NATIVE_ENV)
                e2.update(env)
                r = sh([os.path.join(d, "main.bin")], cwd=d, cpu=10, san=True, env=e2)
            elif engine == "nano_vm":
                r = sh([flavor.nano_vm, "main.nvm"], cwd=d, cpu=10, san=True, env=env)
            elif engine == "vm":
                r = sh([flavor.nano_virt, "main.nano", "--run"], cwd=d, cpu=10, san=True, env=env)
            else:
                try:
                    os.unlink(os.path.join(d, "main.bin"))
                except OSError:
                    pass
                e2 = flavor.fastcc_env({"TMPDIR": d})
                e2.update(base.NATIVE_ENV)        # an assert() of the runtime inside nanoc is an abort, not an ASan report
                e2.update(env)
                r = sh([flavor.nanoc, "main.nano", "-o", "main.bin", "--verbose"], cwd=d, cpu=120, san=True, env=e2)
                o.binary = os.path.exists(os.path.join(d, "main.bin"))
            if not r.timeout:
                break
        o.rc, o.sig, o.timeout = r.rc, r.sig, r.timeout
        o.san = base.san_report(r)
        o.text = r.text()
        o.stderr = r.errtext()[-1200:]
        o.lines = o.text.split("\n")
    return outs


def observed_turns(lines):
    out = []
    for k, l in enumerate(lines):
        if l.startswith("C08:TURN "):
            try:
                t = int(l[9:])
            except ValueError:
                continue
            out.append((t, lines[k + 1] if k + 1 < len(lines) else None))
    return out


def judge_loop(base, f, m, o):
    """-> (role-independent verdict, detail)"""
    turns, fault, flen = simulate(f.L, f.mut, m)
    obs = observed_turns(o.lines)
    want = [(t, base.elem_out(f.kind, j)) for t, j in turns]
    ok0 = (o.rc == 0 and not o.sig)
    after = "C08:AFTER" in o.lines
    if fault is None:                       # control
        if o.san:
            return "control-failed:sanitizer", o.san[:300]
        if not ok0 or not after:
            return "control-failed:status", "rc=%s sig=%s" % (o.rc, o.sig)
        if obs != want:
            return "control-failed:turns", "expected %r got %r" % (want, obs)
        if "C08:FLEN=%d" % flen not in o.lines:
            return "control-failed:length", ""
        if f.engine == "eval" and not o.binary:
            return "control-failed:no-binary", ""
        return "ok", ""
    if o.san:
        return "sanitizer:" + base.san_kind(o.san), o.san[:600]
    bad = [x for x in obs if x[0] >= fault]
    if bad:
        return "continued", "turn %d observed (value %r) although the array had %d element(s) left" % (bad[0][0], bad[0][1], fault if f.mut != "popall" else 0)
    if obs and obs != want[:len(obs)]:
        return "setup-differs", "expected %r got %r" % (want, obs)
    if after:
        return "ended-early", ""
    if ok0:
        return "exit0", ""
    if f.engine == "eval" and o.binary:
        return "binary", ""
    return "stopped", ""


def judge_slice(base, engine, kind, L, s, c, control, o):
    exp = [base.elem_out(kind, j) for j in slice_expected(L, s, c)]
    ok0 = (o.rc == 0 and not o.sig)
    after = "C08:AFTER" in o.lines
    got = base.section(o.lines, "C08:VALUE", "C08:AFTER") if after else None
    if control:
        if o.san or not ok0 or got is None or got[1:] != exp or got[0] != "C08:SLEN=%d" % len(exp):
            return "control-failed", "rc=%s got=%r expected=%r" % (o.rc, got, exp)
        return "ok", ""
    if o.san:
        return "sanitizer:" + base.san_kind(o.san), o.san[:600]
    if got is None:
        return ("stopped" if not ok0 else "exit0-no-output"), ""
    elems = got[1:]
    # clamping may legitimately differ in how much it keeps; what it hands out must be a contiguous part of what the
    # documented semantics cover
    n = len(elems)
    if n == 0 or any(exp[k:k + n] == elems for k in range(len(exp) - n + 1)):
        return ("clamped" if elems == exp else "clamped-shorter"), ""
    return "value", "slice (start %d, length %d) of %d element(s) yields %r, the documented clamping covers %r" % (s, c, L, elems, exp)


# ---------------------------------------------------------------------------------------------------------
# the whole family, called from c08.run
# ---------------------------------------------------------------------------------------------------------
def sample_families(ctx, engine, fams):
    """quick tier: one family per (construct, kind, mutation, via) with rotating length and construction"""
    rng = ctx.rng("implicit", engine)
    strata = {}
    for f in fams:
        strata.setdefault((f.construct, f.kind, f.mut, f.via), []).append(f)
    out = []
    for j, key in enumerate(sorted(strata)):
        cands = strata[key]
        out.append(cands[(j + rng.randrange(len(cands))) % len(cands)])
    return out


def run_all(base, ctx, flavor, sc, pmap):
    hist, skipped, nonstop = {}, {}, {}
    evaluated = {e: 0 for e in ENGINES}
    ctl = {e: [0, 0] for e in ENGINES}
    distinct = set()
    samples = []
    n_proc = 0
    timeouts = 0
    jobs = []
    for eng in ENGINES:
        fams = families(eng)
        if ctx.quick():
            fams = sample_families(ctx, eng, fams)
        jobs += [("loop", eng, f) for f in fams]
        sl = [(k, c, L) for k in ("int", "string") for c in ("literal", "pushed") for L in (0, 4)]
        if ctx.quick():
            sl = [("int", "literal", 4), ("string", "pushed", 4)]
        jobs += [("slice", eng, x) for x in sl]
    jobs.sort(key=lambda j: {"native": 0, "eval": 1, "nano_vm": 2, "vm": 3}[j[1]])

    def do(t):
        seq, (what, eng, x) = t
        if what == "loop":
            ms = x.ms()
            src = program(base, x)
            return what, eng, x, ms, src, run_family(base, flavor, sc, eng, src, [{"C08_IDX": str(m)} for m, _ in ms], seq, "l")
        k, c, L = x
        cases = [(0, L, True), (0, 1, True)] + [(s, cnt, False) for s, cnt in slice_cases(L)]
        src = slice_program(base, eng, k, c, L)
        return what, eng, x, cases, src, run_family(base, flavor, sc, eng, src,
                                                     [{"C08_IDX": str(s), "C08_IDX2": str(cnt)} for s, cnt, _ in cases], seq, "s")

    for what, eng, x, cases, src, outs in pmap(do, list(enumerate(jobs))):
        n_proc += len(outs)
        timeouts += sum(1 for o in outs if o.timeout or (o.skip or "").endswith("timeout"))
        if what == "loop":
            f = x
            verdicts = []
            for (m, role), o in zip(cases, outs):
                verdicts.append(("skip:" + o.skip, "") if o.skip else ("skip:timeout", "") if o.timeout else judge_loop(base, f, m, o))
            cok = all(v[0] == "ok" for (m, role), v in zip(cases, verdicts) if role == "ctl")
            for (m, role), v in zip(cases, verdicts):
                if role == "ctl":
                    ctl[eng][1] += 1
                    ctl[eng][0] += v[0] == "ok"
            for (m, role), (v, d), o in zip(cases, verdicts, outs):
                if role == "ctl":
                    continue
                if not cok or v.startswith("skip:") or v == "setup-differs":
                    bad = [vv[0] for (mm, rr), vv in zip(cases, verdicts) if rr == "ctl" and vv[0] != "ok"]
                    sk = "%s@%s|%s|%s|%s|%s" % (eng, f.construct, f.mut, f.kind, f.cons,
                                                  v if (v.startswith("skip:") or v == "setup-differs") else "control:" + bad[0])
                    skipped[sk] = skipped.get(sk, 0) + 1
                    continue
                evaluated[eng] += 1
                distinct.add((eng, f.construct, f.kind, f.L, f.cons, f.mut, f.via, m))
                hk = "%s@%s|%s|%s|%s" % (eng, f.construct, f.mut, role, v)
                hist[hk] = hist.get(hk, 0) + 1
                if v in ("stopped", "ended-early"):
                    if v == "stopped" and len(samples) < 4 and eng not in [s["engine"] for s in samples]:
                        samples.append({"engine": eng, "family": f.name(), "mutation_at_turn": m, "rc": o.rc, "signal": o.sig,
                                        "stderr_tail": o.stderr.strip()[-140:]})
                    continue
                key = "%s@%s|%s|%s|%s|%s" % (eng, f.construct, f.mut, f.kind, f.via, v)
                nonstop[key] = nonstop.get(key, 0) + 1
                turns, fault, flen = simulate(f.L, f.mut, m)
                ctx.violation(key, "%s: `%s` over an array<%s> of %d (%s) whose %s shrinks it (%s at turn %d): the read of turn %d is out of "
                                   "range and is not stopped: %s %s\nfamily %s\nrc=%s sig=%s\n--- stdout (C08 lines)\n%s\n--- stderr\n%s" % (
                                       base.ENGINE_TEXT[eng], "for x in a" if f.construct == "forin" else f.construct, base.TYPE[f.kind], f.L,
                                       f.cons, "body" if f.via == "direct" else f.via, f.mut, m, fault, v, d, f.name(), o.rc, o.sig,
                                       "\n".join(l for l in o.lines if l.startswith("C08:"))[-500:], o.stderr[-500:]),
                              {"main.nano": src, "stdout.txt": o.text, "stderr.txt": o.stderr,
                               "cmd.txt": "C08_IDX=%d <engine command as in the explicit cells> main.nano\n" % m})
        else:
            k, c, L = x
            verdicts = [("skip:" + o.skip, "") if o.skip else ("skip:timeout", "") if o.timeout else judge_slice(base, eng, k, L, s, cnt, ctlf, o)
                        for (s, cnt, ctlf), o in zip(cases, outs)]
            cok = all(v[0] == "ok" for (s, cnt, ctlf), v in zip(cases, verdicts) if ctlf)
            for (s, cnt, ctlf), v in zip(cases, verdicts):
                if ctlf:
                    ctl[eng][1] += 1
                    ctl[eng][0] += v[0] == "ok"
            for (s, cnt, ctlf), (v, d), o in zip(cases, verdicts, outs):
                if ctlf:
                    continue
                cls = slice_class(L, s, cnt)
                if not cok or v.startswith("skip:"):
                    sk = "%s@slice|%s|%s|%s" % (eng, k, c, v if v.startswith("skip:") else "control")
                    skipped[sk] = skipped.get(sk, 0) + 1
                    continue
                evaluated[eng] += 1
                distinct.add((eng, "slice", k, c, L, s, cnt))
                hk = "%s@slice|%s|%s" % (eng, cls, v)
                hist[hk] = hist.get(hk, 0) + 1
                if v in ("stopped", "clamped", "clamped-shorter"):
                    continue
                key = "%s@slice|%s|%s" % (eng, cls, v)
                nonstop[key] = nonstop.get(key, 0) + 1
                ctx.violation(key, "%s: (array_slice a %d %d) on an array<%s> of %d (%s): %s %s\nrc=%s sig=%s\n%s\n%s" % (
                    base.ENGINE_TEXT[eng], s, cnt, base.TYPE[k], L, c, v, d, o.rc, o.sig, o.text[-300:], o.stderr[-600:]),
                    {"main.nano": src, "stdout.txt": o.text, "stderr.txt": o.stderr,
                     "cmd.txt": "C08_IDX=%d C08_IDX2=%d <engine command> main.nano\n" % (s, cnt)})
    return {"evaluated": evaluated, "controls": {e: "%d/%d passed" % tuple(ctl[e]) for e in ENGINES}, "outcomes": dict(sorted(hist.items())),
            "skipped": dict(sorted(skipped.items())), "not_stopped_by_key": dict(sorted(nonstop.items())), "samples": samples,
            "processes": n_proc, "timeouts": timeouts, "distinct": distinct}
