"""Base programs of the C05 rule x context table (templates with typed holes).

Template syntax (plain text, one statement per line):
  <<ctx:T|default>>     an expression slot of static type T in syntactic context ctx; the unmutated program has
                        `default` there.  A hole line is always a complete statement line inside a block, so
                        statements can be inserted in front of it.
  @@ blockctx imm=n:T,.. par=n:T,..
                        (own line) a point where a statement may be inserted; imm = immutable locals in scope
                        (declared above, same function), par = parameters of the enclosing function.
  @ret:shape@ <line>    a `return` line whose removal leaves a path without a return (shape names the path).
Every base starts with PRELUDE (types, helpers) and its main prints MARKER first thing.
"""

MARKER = "C05-MARK-7f3a"

PRELUDE = '''struct P { x: int, y: int }
enum Color { Red, Green, Blue }
union Sh { Circle { r: int }, Sq { s: int } }
resource struct Res { fd: int }
extern fn labs(x: int) -> int
let gimm: int = 11
let mut gmut: int = 12
fn i2i(a: int) -> int {
    return (+ a 1)
}
shadow i2i { assert (== (i2i 1) 2) }
fn i2b(a: int) -> bool {
    return (> a 0)
}
shadow i2b { assert (i2b 1) }
fn i2s(a: int) -> string {
    return (int_to_string a)
}
shadow i2s { assert (== (i2s 1) "1") }
fn i2f(a: int) -> float {
    return 1.5
}
shadow i2f { assert (== (i2f 1) 1.5) }
fn i2p(a: int) -> P {
    return P { x: a, y: 0 }
}
shadow i2p { assert true }
fn s2i(a: string) -> int {
    return (str_length a)
}
shadow s2i { assert (== (s2i "ab") 2) }
fn s2b(a: string) -> bool {
    return (== a "yes")
}
shadow s2b { assert (s2b "yes") }
fn s2s(a: string) -> string {
    return (+ a "!")
}
shadow s2s { assert (== (s2s "a") "a!") }
fn b2i(a: bool) -> int {
    if a {
        return 1
    }
    return 0
}
shadow b2i { assert (== (b2i true) 1) }
fn b2b(a: bool) -> bool {
    return (not a)
}
shadow b2b { assert (b2b false) }
fn b2s(a: bool) -> string {
    if a {
        return "T"
    }
    return "F"
}
shadow b2s { assert (== (b2s true) "T") }
fn ii2i(a: int, b: int) -> int {
    return (+ a b)
}
shadow ii2i { assert (== (ii2i 1 2) 3) }
fn is2s(a: int, b: string) -> string {
    return (+ b (int_to_string a))
}
shadow is2s { assert (== (is2s 1 "a") "a1") }
fn ib2b(a: int, b: bool) -> bool {
    return (and b (> a 0))
}
shadow ib2b { assert (ib2b 1 true) }
fn c2i(c: Color) -> int {
    if (== c Color.Red) {
        return 1
    }
    return 2
}
shadow c2i { assert (== (c2i Color.Red) 1) }
fn p2i(p: P) -> int {
    return (+ p.x p.y)
}
shadow p2i { assert (== (p2i P { x: 1, y: 2 }) 3) }
fn sh2i(sh: Sh) -> int {
    match sh {
        Circle(c) => { return c.r }
        Sq(q) => { return q.s }
    }
}
shadow sh2i { assert (== (sh2i Sh.Sq { s: 4 }) 4) }
fn vd(a: int) -> void {
    set gmut (+ gmut a)
}
shadow vd { (vd 0) }
fn mk(a: int) -> Res {
    return Res { fd: a }
}
shadow mk { assert true }
fn peek(r: Res) -> int {
    return 1
}
shadow peek { assert true }
fn closer(r: Res) -> void {
    set gmut (+ gmut 1)
}
shadow closer { assert true }
fn useext(a: int) -> int {
    let mut e: int = 0
    unsafe {
        set e (labs a)
    }
    return e
}
shadow useext { assert (== (useext -3) 3) }
fn other(opar_i: int, opar_s: string, opar_b: bool) -> int {
    let oloc_i: int = (+ opar_i 1)
    let oloc_s: string = (+ opar_s "x")
    let oloc_b: bool = (not opar_b)
    if oloc_b {
        return (+ oloc_i (str_length oloc_s))
    }
    return oloc_i
}
shadow other { assert (== (other 1 "a" true) 2) }
'''

# ---------------------------------------------------------------------------------------------------------
B1 = '''fn work(a: int, b: int, s: string, t: bool) -> int {
    @@ fn-body ret=int par=a:int,b:int,s:string,t:bool
    let x: int = <<let:int|(+ a 1)>>
    let ok: bool = <<let:bool|(> a b)>>
    let nm: string = <<let:string|(+ s "!")>>
    let fl: float = <<let:float|2.5>>
    let mut y: int = 0
    let mut fg: bool = false
    let mut acc: string = ""
    set y <<set:int|(* x 2)>>
    set fg <<set:bool|(and ok t)>>
    set acc <<set:string|(+ nm s)>>
    @@ fn-body ret=int imm=x:int,ok:bool,nm:string,fl:float par=a:int,b:int,s:string,t:bool
    if <<cond-if:bool|(> y 3)>> {
        @@ if-then ret=int imm=x:int,ok:bool par=a:int,t:bool
        (println "b1-then")
    } else {
        @@ if-else ret=int imm=x:int,nm:string par=b:int,s:string
        (println "b1-else")
    }
    let mut i: int = 0
    while <<cond-while:bool|(< i 3)>> {
        set i (+ i 1)
        @@ while-body ret=int imm=x:int,ok:bool par=a:int,s:string
        if (> i 6) {
            break
        }
    }
    for k in (range 0 2) {
        @@ for-body ret=int imm=x:int,nm:string par=b:int,t:bool
        set y (+ y k)
    }
    let u1: int = (i2i <<arg-user@let:int|x>>)
    let u2: bool = (ib2b 1 <<arg-user@let:bool|ok>>)
    let u3: int = (s2i <<arg-user@let:string|nm>>)
    (vd <<arg-user@stmt:int|y>>)
    (println (i2i <<arg-user@println:int|x>>))
    (println (b2s <<arg-user@println:bool|fg>>))
    let v1: int = (abs <<arg-builtin@let:int|y>>)
    let v2: int = (str_length <<arg-builtin@let:string|acc>>)
    (println (abs <<arg-builtin@println:int|(- 0 x)>>))
    (println <<arg-println:int|u1>>)
    (println <<arg-println:bool|u2>>)
    (println <<arg-println:string|nm>>)
    let w1: int = (+ 1 <<operand@let:int|u3>>)
    let w2: bool = (and true <<operand@let:bool|fg>>)
    let w3: string = (+ "<" <<operand@let:string|acc>>)
    if (> <<operand@cond:int|w1>> 0) {
        (println "b1-pos")
    }
    (println (* 2 <<operand@println:int|v1>>))
    let ar: array<int> = [1, <<elem@let:int|v2>>, 3]
    let ab: array<bool> = [<<elem@let:bool|w2>>, false]
    let pt: P = P { x: <<field@let:int|w1>>, y: 2 }
    (println (at ar 1))
    (println (at ab 0))
    (println pt.x)
    (println w3)
    (println fl)
    return <<return:int|(+ x y)>>
}
shadow work {
    let r: int = (work 1 2 "q" true)
    assert (> r 0)
}
fn main() -> int {
    (println "%MARKER%")
    let r: int = (work 3 1 "ab" true)
    (println r)
    (println (other 1 "a" false))
    (println (useext -5))
    return 0
}
shadow main { assert (== (main) 0) }
'''

# holes directly in main, after the marker; no parameters
B2 = '''fn main() -> int {
    (println "%MARKER%")
    @@ fn-body ret=int
    let n: int = <<let:int|(i2i 4)>>
    let q: bool = <<let:bool|(i2b n)>>
    let s: string = <<let:string|(i2s n)>>
    let c: Color = <<let:Color|Color.Green>>
    let sh: Sh = <<let:Sh|Sh.Circle { r: 2 }>>
    let pp: P = <<let:P|P { x: 3, y: 4 }>>
    let mut m: int = 1
    let mut mb: bool = true
    let mut ms: string = "m"
    @@ fn-body ret=int imm=n:int,q:bool,s:string
    set m <<set:int|(+ m n)>>
    set mb <<set:bool|(not q)>>
    set ms <<set:string|(+ ms s)>>
    set gmut <<set:int|(+ gmut 1)>>
    if <<cond-if:bool|(and q (> n 2))>> {
        (println "b2-a")
        @@ if-then ret=int imm=n:int,s:string
    }
    let mut j: int = 0
    while <<cond-while:bool|(and mb (< j 2))>> {
        @@ while-body ret=int imm=n:int,q:bool
        set j (+ j 1)
        if (> j 5) {
            break
        }
    }
    let d1: string = (is2s <<arg-user@let:int|m>> "k")
    let d2: string = (is2s 2 <<arg-user@let:string|ms>>)
    let d3: int = (c2i <<arg-user@let:Color|c>>)
    let d4: int = (p2i <<arg-user@let:P|pp>>)
    let d5: int = (sh2i <<arg-user@let:Sh|sh>>)
    (i2i <<arg-user@stmt:int|n>>)
    (s2s <<arg-user@stmt:string|s>>)
    (println (s2i <<arg-user@println:string|d1>>))
    (println (ii2i 1 <<arg-user@println:int|d3>>))
    let e1: string = (int_to_string <<arg-builtin@let:int|d4>>)
    let e2: int = (max 1 <<arg-builtin@let:int|d5>>)
    let e3: bool = (str_contains d2 <<arg-builtin@let:string|"k">>)
    (println (str_length <<arg-builtin@println:string|e1>>))
    (println <<arg-println:int|e2>>)
    (println <<arg-println:string|d2>>)
    (println <<arg-println:bool|e3>>)
    let g1: int = (- <<operand@let:int|e2>> 1)
    let g2: bool = (or <<operand@let:bool|e3>> false)
    let g3: bool = (== c <<operand@let:Color|Color.Blue>>)
    if (<= 0 <<operand@cond:int|g1>>) {
        (println "b2-b")
    } else {
        (println "b2-c")
        @@ if-else ret=int imm=g1:int,g2:bool
    }
    (println (+ <<operand@println:int|g1>> 10))
    (println (not <<operand@println:bool|g2>>))
    let aa: array<int> = [<<elem@let:int|g1>>, 2]
    let as: array<string> = ["a", <<elem@let:string|s>>]
    let p2: P = P { x: 1, y: <<field@let:int|(+ g1 1)>> }
    (println (at aa 0))
    (println (at as 1))
    (println p2.y)
    (println g3)
    for k in (range 0 2) {
        (println k)
        @@ for-body ret=int imm=n:int,s:string
    }
    return <<return:int|(- m m)>>
}
shadow main { assert (== (main) 0) }
'''

# holes in nested blocks; bool- and string-returning workers
B3 = '''fn judge(a: int, w: string) -> bool {
    let lim: int = 3
    let mut hits: int = 0
    let mut k: int = 0
    while (< k 4) {
        set k (+ k 1)
        if (> k a) {
            let d: int = <<let:int|(- k a)>>
            let e: bool = <<let:bool|(> d lim)>>
            set hits <<set:int|(+ hits d)>>
            @@ nested ret=bool imm=d:int,e:bool,lim:int par=a:int,w:string
            if <<cond-if:bool|(or e (> hits 2))>> {
                (println (i2i <<arg-user@println:int|hits>>))
            } else {
                (println <<arg-println:int|d>>)
                (println <<arg-println:bool|e>>)
            }
            let f: int = (i2i <<arg-user@let:int|d>>)
            let g: int = (min f <<arg-builtin@let:int|lim>>)
            let h: int = (* <<operand@let:int|g>> 2)
            let arr: array<int> = [h, <<elem@let:int|f>>]
            let pq: P = P { x: <<field@let:int|h>>, y: g }
            (vd <<arg-user@stmt:int|pq.x>>)
            (println (at arr 1))
            if (== <<operand@cond:int|h>> 100) {
                return <<return:bool|(not e)>>
            }
            (println (+ 1 <<operand@println:int|g>>))
            (println (abs <<arg-builtin@println:int|h>>))
        }
    }
    let mut z: int = 0
    for q in (range 0 3) {
        let mut r: int = 0
        while <<cond-while:bool|(< r q)>> {
            set r (+ r 1)
            set z <<set:int|(+ z r)>>
            if (> r 8) {
                break
            }
        }
    }
    (println z)
    return <<return:bool|(> (+ hits (str_length w)) 2)>>
}
shadow judge { assert (judge 1 "abc") }
fn label(n: int, flag: bool) -> string {
    let base: string = <<let:string|(i2s n)>>
    let mut out: string = "L"
    if flag {
        set out <<set:string|(+ out base)>>
        @@ if-then ret=string imm=base:string par=n:int,flag:bool
        (println <<arg-println:string|out>>)
        let ln: int = (s2i <<arg-user@let:string|out>>)
        let tw: string = (str_concat out <<arg-builtin@let:string|base>>)
        let jn: string = (+ <<operand@let:string|tw>> "#")
        let arr: array<string> = [jn, <<elem@let:string|base>>]
        (println (at arr 0))
        (println ln)
        if <<cond-if:bool|(> ln 1)>> {
            return <<return:string|(+ jn "+")>>
        }
    } else {
        @@ if-else ret=string imm=base:string par=n:int,flag:bool
        (println (s2s <<arg-user@println:string|base>>))
        (s2i <<arg-user@stmt:string|base>>)
    }
    return <<return:string|(+ out "-")>>
}
shadow label { assert (== (label 1 false) "L-") }
fn main() -> int {
    (println "%MARKER%")
    (println (judge 1 "hello"))
    (println (judge 9 ""))
    (println (label 12 true))
    (println (label 5 false))
    return 0
}
shadow main { assert (== (main) 0) }
'''

# several small functions, recursion, holes in shadow blocks, missing-return shapes
B4 = '''fn fact(n: int) -> int {
    if (<= n 1) {
        return 1
    }
@ret:after-if@    return (* n (fact (- n 1)))
}
shadow fact {
    let t: int = <<let:int|(fact 4)>>
    assert (== t 24)
    (println <<arg-println:int|t>>)
    let u: int = (i2i <<arg-user@let:int|t>>)
    assert (> u <<operand@cond:int|24>>)
}
fn sign(v: int) -> int {
    if (> v 0) {
        return 1
    } else {
        if (< v 0) {
            return -1
        } else {
            (println "zero")
@ret:nested-else@            return 0
        }
    }
}
shadow sign { assert (== (sign -4) -1) }
fn pick(c: bool, a: string, b: string) -> string {
    if c {
        (println "pick-a")
@ret:then-branch@        return a
    } else {
        (println "pick-b")
@ret:else-branch@        return b
    }
}
shadow pick { assert (== (pick true "x" "y") "x") }
fn find(lim: int) -> int {
    let mut i: int = 0
    while (< i lim) {
        if (== (% i 7) 6) {
            return i
        }
        set i (+ i 1)
    }
@ret:after-while@    return -1
}
shadow find { assert (== (find 10) 6) }
fn sum_to(n: int) -> int {
    let mut s: int = 0
    for i in (range 0 n) {
        set s (+ s i)
    }
@ret:only@    return s
}
shadow sum_to { assert (== (sum_to 4) 6) }
fn is_small(n: int) -> bool {
    @@ fn-body ret=bool par=n:int
    let lim: int = <<let:int|10>>
    @@ fn-body ret=bool imm=lim:int par=n:int
@ret:only@    return <<return:bool|(< n lim)>>
}
shadow is_small {
    assert (is_small 3)
    let v: bool = <<let:bool|(is_small 30)>>
    assert (not v)
}
fn mkp(a: int) -> P {
    let b: int = <<let:int|(* a 2)>>
@ret:only@    return P { x: a, y: b }
}
shadow mkp { assert (== (p2i (mkp 1)) 3) }
fn twice(a: int) -> int {
    return <<return:int|(ii2i a a)>>
}
shadow twice { assert (== (twice 2) 4) }
fn neg(a: bool) -> bool {
    return <<return:bool|(b2b a)>>
}
shadow neg { assert (neg false) }
fn greet(a: string) -> string {
    return <<return:string|(+ "hi " a)>>
}
shadow greet { assert (== (greet "x") "hi x") }
fn show(a: int) -> void {
    @@ fn-body ret=void par=a:int
    let d: int = (+ a 1)
    (println <<arg-println:int|d>>)
    (println (i2s <<arg-user@println:int|d>>))
    (vd <<arg-user@stmt:int|d>>)
    if <<cond-if:bool|(> d 2)>> {
        (println "show-big")
    }
    @@ fn-body ret=void imm=d:int par=a:int
}
shadow show { (show 1) }
fn main() -> int {
    (println "%MARKER%")
    (println (fact 5))
    (println (sign 3))
    (println (pick false "a" "b"))
    (println (find 20))
    (println (sum_to 5))
    (println (is_small 4))
    (println (p2i (mkp 2)))
    (println (twice 4))
    (println (neg true))
    (println (greet "you"))
    (show 2)
    return 0
}
shadow main { assert (== (main) 0) }
'''

# structs, enums, unions, arrays, floats
B5 = '''fn dist(p: P, q: P, c: Color) -> int {
    let dx: int = <<let:int|(- p.x q.x)>>
    let dy: int = (abs <<arg-builtin@let:int|(- p.y q.y)>>)
    let same: bool = <<let:bool|(== c Color.Red)>>
    let c2: Color = <<let:Color|Color.Blue>>
    let mid: P = P { x: <<field@let:int|(/ (+ p.x q.x) 2)>>, y: <<field@let:int|dy>> }
    let s1: Sh = <<let:Sh|Sh.Sq { s: dy }>>
    @@ fn-body ret=int imm=dx:int,dy:int,same:bool par=p:P,c:Color
    let k: int = (c2i <<arg-user@let:Color|c2>>)
    let l: int = (p2i <<arg-user@let:P|mid>>)
    let m: int = (sh2i <<arg-user@let:Sh|s1>>)
    let t: bool = (!= c <<operand@let:Color|c2>>)
    let fx: float = <<let:float|(i2f dx)>>
    let fy: float = (* fx <<operand@let:float|2.0>>)
    let xs: array<int> = [k, l, <<elem@let:int|m>>]
    let fs: array<float> = [<<elem@let:float|fy>>, 1.0]
    let mut tot: int = 0
    let mut fz: float = 0.5
    set fz <<set:float|(+ fz fy)>>
    for i in (range 0 3) {
        set tot <<set:int|(+ tot (at xs i))>>
        if <<cond-if:bool|(and same (> tot 1))>> {
            @@ nested ret=int imm=dx:int,k:int,t:bool par=q:P
            (println <<arg-println:int|tot>>)
        }
    }
    (println <<arg-println:float|fz>>)
    (println <<arg-println:bool|t>>)
    (println (at fs 0))
    (println (c2i <<arg-user@println:Color|c>>))
    (println (p2i <<arg-user@println:P|q>>))
    (i2p <<arg-user@stmt:int|tot>>)
    if (< <<operand@cond:int|dx>> dy) {
        (println (- <<operand@println:int|dy>> dx))
        return <<return:int|(+ tot dy)>>
    }
    return <<return:int|(+ tot (abs dx))>>
}
shadow dist {
    let a: P = P { x: 1, y: 2 }
    let b: P = P { x: 4, y: 6 }
    assert (> (dist a b Color.Red) 0)
}
fn origin(k: int) -> P {
    return <<return:P|P { x: k, y: k }>>
}
shadow origin { assert (== (p2i (origin 2)) 4) }
fn hue(k: int) -> Color {
    if (> k 0) {
        return <<return:Color|Color.Green>>
    }
    return Color.Red
}
shadow hue { assert (== (hue 1) Color.Green) }
fn half(x: float) -> float {
    return <<return:float|(/ x 2.0)>>
}
shadow half { assert (== (half 3.0) 1.5) }
fn main() -> int {
    (println "%MARKER%")
    let a: P = P { x: 1, y: 2 }
    let b: P = (origin 5)
    (println (dist a b (hue 1)))
    (println (dist b a Color.Blue))
    (println (half 5.0))
    let mut n: int = 0
    while <<cond-while:bool|(< n 2)>> {
        set n (+ n 1)
        @@ while-body ret=int imm=a:P,b:P
        if (> n 7) {
            break
        }
    }
    return 0
}
shadow main { assert (== (main) 0) }
'''

HAND_BASES = [("b1", B1), ("b2", B2), ("b3", B3), ("b4", B4), ("b5", B5)]
