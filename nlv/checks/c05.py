"""C05 - ill-formed programs are never turned into a runnable artifact (DESIGN §4 C05).

E: a program that violates a static rule and for which `nanoc p -o t`, `nano_virt p --run` or
   `nano_virt p --emit-nvm -o t.nvm` exits 0, prints no diagnostic, leaves a file at the -o path or lets the
   program's first output line (a marker printed first thing in main) appear on stdout.
O: exit status, diagnostic text of the tool (warnings and C-compiler lines removed), existence of the -o
   target (removed before the run), the marker on stdout.
W: a table of cells = rule x syntactic context x tool.  Every mutant is ill-formed BY CONSTRUCTION: base
   programs are templates with typed holes; a catalogue entry is a fixed expression / statement that certainly
   violates its rule wherever a slot of the stated type accepts it (mixed-type operands only, never
   `(+ "a" "b")`).  Each cell is instantiated at several sites (different base program, slot, catalogue variant).
   Controls: every base unmutated, and every statement a catalogue entry brings along, must be accepted, built
   and run by all three tools (else the run is inconclusive).
   IMPORT dimension (state leaking between modules through the shared Environment is invisible to a single-file
   table): for the rule/context pairs that are rejected in a single file (IMPORT_PAIRS) the same sites are also
   placed in a main program that imports an ordinary module / a module declaring extern fns / a wrapper module with
   an `unsafe module` import, and inside an imported module (main well-formed); context = `<context>+<import ctx>`.
   PLACES beyond plain function bodies (only rules that are rejected in the plain counterpart are put there): bodies of
   nested functions / closures (NanoISA tools only: base b9), match arms, global initialisers, shadow bodies, slots of
   function type (`let-fnvalue`, `arg-fnvalue@let`, `return-fnvalue`).  BINDING matrix: rule `set-immutable-binding`,
   context `<kind>:<type class>` = assignment to every kind of immutable binding (param, let, global, loop-variable,
   match-binding, closure-param, closure-let, closure-capture) x type class of the binding (int string bool float arr
   struct P, union Sh, enum Color, tup, fn), so that a rule that stops applying to ONE class of symbols is its own cell.
   NAME COINCIDENCE: both binding rules (`set-immutable-binding`, `binding-used-at-wrong-type`) also exist with an earlier
   function's `let mut` / a mutable global of the SAME NAME (`<kind>:<class>+same-name-...`): of the binding's own type for
   the assignment, of the wrongly expected type for the use, so a mix-up of the two symbols makes the violation look legal.
   `scope-after-exiting-block`, context `<slot>~<block kind>-<exit>`: out-of-scope use of a name declared in a block that is
   left by return / break / continue (if, else, while, for, match arm, unsafe, nested if).
   Controls are graded: a hand-written base the tree under test does not accept is left out and reported (evidence
   `bases_not_accepted`; inconclusive only if < 3 of b1-b5 or < 60 % of the hand bases remain); every site that brings
   declarations of its own has a twin control (same change without the violation) and is left out if the twin is not accepted.
   Known findings are individual cells: key `cell|<rule>|<context>|<tool>|<outcome class>`.

Outcome classes per run:  rejected | rejected-late-by-cc (nanoc: no diagnostic of its own, the C compiler's
errors + 'C compilation failed'; exit non-zero, no file) | diagnosed-rejected-by-cc (own diagnostic, went on, cc
failed) | diagnosed-but-built | silently-built | rejected-without-diagnostic | crashed-*.  For --run "built"
means "executed".  Violations: diagnosed-but-built, silently-built, rejected-without-diagnostic,
crashed-without-diagnostic.

Template syntax of the base programs (plain text, one statement per line):
  <<ctx:T|default>>     an expression slot of static type T in syntactic context ctx; the unmutated program has
                        `default` there.  A hole line is always a complete statement line inside a block, so
                        statements can be inserted in front of it.
  @@ blockctx ret=T imm=n:T,.. par=n:T,..
                        (own line) a point where a statement may be inserted; ret = return type of the function,
                        imm = immutable locals in scope (declared above), par = parameters of the function.
  @ret:shape@ <line>    a `return` line whose removal leaves a path without a return (shape names the path).
Every base starts with PRELUDE (types, helpers) and its main prints MARKER first thing.

Development: NLV_C05_DUMP=<file> writes one JSON line per mutant; NLV_C05_ALL=1 runs every candidate site of
the hand-written bases (tools/c05_known.py turns such dumps into findings/C05/known.json).
"""

MARKER = "C05-MARK-7f3a"

PRELUDE = '''struct P { x: int, y: int }
enum Color { Red, Green, Blue }
union Sh { Circle { r: int }, Sq { s: int } }
resource struct Res { fd: int }
extern fn labs(x: int) -> int
extern fn get_argc() -> int
let gimm: int = 11
let mut gmut: int = 12
fn i2i(a: int) -> int {
    return (+ a 1)
}
shadow i2i { assert (== (i2i 1) 2) }
fn i2b(a: int) -> bool {
    return (> a 0)
}
shadow i2b { assert (i2b 1) }
fn i2s(a: int) -> string {
    return (int_to_string a)
}
shadow i2s { assert (== (i2s 1) "1") }
fn i2f(a: int) -> float {
    return 1.5
}
shadow i2f { assert (== (i2f 1) 1.5) }
fn i2p(a: int) -> P {
    return P { x: a, y: 0 }
}
shadow i2p { assert true }
fn s2i(a: string) -> int {
    return (str_length a)
}
shadow s2i { assert (== (s2i "ab") 2) }
fn s2b(a: string) -> bool {
    return (== a "yes")
}
shadow s2b { assert (s2b "yes") }
fn s2s(a: string) -> string {
    return (+ a "!")
}
shadow s2s { assert (== (s2s "a") "a!") }
fn b2i(a: bool) -> int {
    if a {
        return 1
    }
    return 0
}
shadow b2i { assert (== (b2i true) 1) }
fn b2b(a: bool) -> bool {
    return (not a)
}
shadow b2b { assert (b2b false) }
fn b2s(a: bool) -> string {
    if a {
        return "T"
    }
    return "F"
}
shadow b2s { assert (== (b2s true) "T") }
fn ii2i(a: int, b: int) -> int {
    return (+ a b)
}
shadow ii2i { assert (== (ii2i 1 2) 3) }
fn is2s(a: int, b: string) -> string {
    return (+ b (int_to_string a))
}
shadow is2s { assert (== (is2s 1 "a") "a1") }
fn ib2b(a: int, b: bool) -> bool {
    return (and b (> a 0))
}
shadow ib2b { assert (ib2b 1 true) }
fn c2i(c: Color) -> int {
    if (== c Color.Red) {
        return 1
    }
    return 2
}
shadow c2i { assert (== (c2i Color.Red) 1) }
fn p2i(p: P) -> int {
    return (+ p.x p.y)
}
shadow p2i { assert (== (p2i P { x: 1, y: 2 }) 3) }
fn sh2i(sh: Sh) -> int {
    match sh {
        Circle(c) => { return c.r }
        Sq(q) => { return q.s }
    }
}
shadow sh2i { assert (== (sh2i Sh.Sq { s: 4 }) 4) }
fn vd(a: int) -> void {
    set gmut (+ gmut a)
}
shadow vd { (vd 0) }
fn mk(a: int) -> Res {
    return Res { fd: a }
}
shadow mk { assert true }
fn peek(r: Res) -> int {
    return 1
}
shadow peek { assert true }
fn closer(r: Res) -> void {
    set gmut (+ gmut 1)
}
shadow closer { assert true }
fn useext(a: int) -> int {
    let mut e: int = 0
    unsafe {
        set e (labs a)
    }
    return e
}
shadow useext { assert (== (useext -3) 3) }
fn other(opar_i: int, opar_s: string, opar_b: bool) -> int {
    let oloc_i: int = (+ opar_i 1)
    let oloc_s: string = (+ opar_s "x")
    let oloc_b: bool = (not opar_b)
    if oloc_b {
        return (+ oloc_i (str_length oloc_s))
    }
    return oloc_i
}
shadow other { assert (== (other 1 "a" true) 2) }
'''

# ---------------------------------------------------------------------------------------------------------
B1 = '''fn work(a: int, b: int, s: string, t: bool) -> int {
    @@ fn-body ret=int par=a:int,b:int,s:string,t:bool
    let x: int = <<let:int|(+ a 1)>>
    let ok: bool = <<let:bool|(> a b)>>
    let nm: string = <<let:string|(+ s "!")>>
    let fl: float = <<let:float|2.5>>
    let mut y: int = 0
    let mut fg: bool = false
    let mut acc: string = ""
    set y <<set:int|(* x 2)>>
    set fg <<set:bool|(and ok t)>>
    set acc <<set:string|(+ nm s)>>
    @@ fn-body ret=int imm=x:int,ok:bool,nm:string,fl:float par=a:int,b:int,s:string,t:bool
    if <<cond-if:bool|(> y 3)>> {
        @@ if-then ret=int imm=x:int,ok:bool par=a:int,t:bool
        (println "b1-then")
    } else {
        @@ if-else ret=int imm=x:int,nm:string par=b:int,s:string
        (println "b1-else")
    }
    let mut i: int = 0
    while <<cond-while:bool|(< i 3)>> {
        set i (+ i 1)
        @@ while-body ret=int imm=x:int,ok:bool par=a:int,s:string
        if (> i 6) {
            break
        }
    }
    for k in (range 0 2) {
        @@ for-body ret=int imm=x:int,nm:string par=b:int,t:bool loopvar=k:int
        set y (+ y k)
        if (> y 1) {
            @@ nested ret=int imm=x:int,ok:bool par=a:int,s:string
            set y (+ y 1)
        }
    }
    let u1: int = (i2i <<arg-user@let:int|x>>)
    let u2: bool = (ib2b 1 <<arg-user@let:bool|ok>>)
    let u3: int = (s2i <<arg-user@let:string|nm>>)
    (vd <<arg-user@stmt:int|y>>)
    (println (i2i <<arg-user@println:int|x>>))
    (println (b2s <<arg-user@println:bool|fg>>))
    (b2i <<arg-user@stmt:bool|ok>>)
    (println (not <<operand@println:bool|ok>>))
    (println (c2i <<arg-user@println:Color|Color.Green>>))
    let v1: int = (abs <<arg-builtin@let:int|y>>)
    let v2: int = (str_length <<arg-builtin@let:string|acc>>)
    (println (abs <<arg-builtin@println:int|(- 0 x)>>))
    (println <<arg-println:int|u1>>)
    (println <<arg-println:bool|u2>>)
    (println <<arg-println:string|nm>>)
    let w1: int = (+ 1 <<operand@let:int|u3>>)
    let w2: bool = (and true <<operand@let:bool|fg>>)
    let w3: string = (+ "<" <<operand@let:string|acc>>)
    if (> <<operand@cond:int|w1>> 0) {
        (println "b1-pos")
    }
    (println (* 2 <<operand@println:int|v1>>))
    let ar: array<int> = [1, <<elem@let:int|v2>>, 3]
    let ab: array<bool> = [<<elem@let:bool|w2>>, false]
    let pt: P = P { x: <<field@let:int|w1>>, y: 2 }
    (println (at ar 1))
    (println (at ab 0))
    (println pt.x)
    (println w3)
    (println fl)
    return <<return:int|(+ x y)>>
}
shadow work {
    let r: int = <<let@shadow:int|(work 1 2 "q" true)>>
    let sb: bool = <<let@shadow:bool|(> r 0)>>
    (println <<arg-println@shadow:bool|sb>>)
    assert sb
}
fn main() -> int {
    (println "%MARKER%")
    let r: int = (work 3 1 "ab" true)
    (println r)
    (println (other 1 "a" false))
    (println (useext -5))
    return 0
}
shadow main { assert (== (main) 0) }
'''

# holes directly in main, after the marker; no parameters
B2 = '''fn main() -> int {
    (println "%MARKER%")
    @@ fn-body ret=int
    let n: int = <<let:int|(i2i 4)>>
    let q: bool = <<let:bool|(i2b n)>>
    let s: string = <<let:string|(i2s n)>>
    let c: Color = <<let:Color|Color.Green>>
    let sh: Sh = <<let:Sh|Sh.Circle { r: 2 }>>
    let pp: P = <<let:P|P { x: 3, y: 4 }>>
    let mut m: int = 1
    let mut mb: bool = true
    let mut ms: string = "m"
    @@ fn-body ret=int imm=n:int,q:bool,s:string
    set m <<set:int|(+ m n)>>
    set mb <<set:bool|(not q)>>
    set ms <<set:string|(+ ms s)>>
    set gmut <<set:int|(+ gmut 1)>>
    if <<cond-if:bool|(and q (> n 2))>> {
        (println "b2-a")
        @@ if-then ret=int imm=n:int,s:string
    }
    let mut j: int = 0
    while <<cond-while:bool|(and mb (< j 2))>> {
        @@ while-body ret=int imm=n:int,q:bool
        set j (+ j 1)
        if (> j 5) {
            break
        }
    }
    let d1: string = (is2s <<arg-user@let:int|m>> "k")
    let d2: string = (is2s 2 <<arg-user@let:string|ms>>)
    let d3: int = (c2i <<arg-user@let:Color|c>>)
    let d4: int = (p2i <<arg-user@let:P|pp>>)
    let d5: int = (sh2i <<arg-user@let:Sh|sh>>)
    (i2i <<arg-user@stmt:int|n>>)
    (s2s <<arg-user@stmt:string|s>>)
    (println (s2i <<arg-user@println:string|d1>>))
    (println (ii2i 1 <<arg-user@println:int|d3>>))
    (println (b2i <<arg-user@println:bool|q>>))
    (b2b <<arg-user@stmt:bool|mb>>)
    let d6: bool = (b2b <<arg-user@let:bool|q>>)
    let ba: array<bool> = [d6, <<elem@let:bool|mb>>]
    (println (at ba 1))
    let e1: string = (int_to_string <<arg-builtin@let:int|d4>>)
    let e2: int = (max 1 <<arg-builtin@let:int|d5>>)
    let e3: bool = (str_contains d2 <<arg-builtin@let:string|"k">>)
    (println (str_length <<arg-builtin@println:string|e1>>))
    (println <<arg-println:int|e2>>)
    (println <<arg-println:string|d2>>)
    (println <<arg-println:bool|e3>>)
    let g1: int = (- <<operand@let:int|e2>> 1)
    let g2: bool = (or <<operand@let:bool|e3>> false)
    let g3: bool = (== c <<operand@let:Color|Color.Blue>>)
    if (<= 0 <<operand@cond:int|g1>>) {
        (println "b2-b")
    } else {
        (println "b2-c")
        @@ if-else ret=int imm=g1:int,g2:bool
    }
    (println (+ <<operand@println:int|g1>> 10))
    (println (not <<operand@println:bool|g2>>))
    let aa: array<int> = [<<elem@let:int|g1>>, 2]
    let sa: array<string> = ["a", <<elem@let:string|s>>]
    let p2: P = P { x: 1, y: <<field@let:int|(+ g1 1)>> }
    (println (at aa 0))
    (println (at sa 1))
    (println p2.y)
    (println g3)
    for k in (range 0 2) {
        (println k)
        @@ for-body ret=int imm=n:int,s:string loopvar=k:int
    }
    return <<return:int|(- m m)>>
}
shadow main { assert (== (main) 0) }
'''

# holes in nested blocks; bool- and string-returning workers
B3 = '''fn judge(a: int, w: string) -> bool {
    let lim: int = 3
    let mut hits: int = 0
    let mut k: int = 0
    while (< k 4) {
        set k (+ k 1)
        if (> k a) {
            let d: int = <<let:int|(- k a)>>
            let e: bool = <<let:bool|(> d lim)>>
            set hits <<set:int|(+ hits d)>>
            @@ nested ret=bool imm=d:int,e:bool,lim:int par=a:int,w:string
            if <<cond-if:bool|(or e (> hits 2))>> {
                (println (i2i <<arg-user@println:int|hits>>))
            } else {
                (println <<arg-println:int|d>>)
                (println <<arg-println:bool|e>>)
            }
            let f: int = (i2i <<arg-user@let:int|d>>)
            let g: int = (min f <<arg-builtin@let:int|lim>>)
            let h: int = (* <<operand@let:int|g>> 2)
            let arr: array<int> = [h, <<elem@let:int|f>>]
            let pq: P = P { x: <<field@let:int|h>>, y: g }
            let eb: bool = (ib2b f <<arg-user@let:bool|e>>)
            let ea: array<bool> = [eb, <<elem@let:bool|e>>]
            let ec: bool = (or <<operand@let:bool|eb>> (at ea 1))
            (println (b2s <<arg-user@println:bool|ec>>))
            (println (and true <<operand@println:bool|ec>>))
            (vd <<arg-user@stmt:int|pq.x>>)
            (println (at arr 1))
            if (== <<operand@cond:int|h>> 100) {
                return <<return:bool|(not e)>>
            }
            (println (+ 1 <<operand@println:int|g>>))
            (println (abs <<arg-builtin@println:int|h>>))
        }
    }
    let mut z: int = 0
    for q in (range 0 3) {
        let mut r: int = 0
        @@ for-body ret=bool imm=lim:int par=a:int,w:string loopvar=q:int
        while <<cond-while:bool|(< r q)>> {
            set r (+ r 1)
            @@ while-body ret=bool imm=lim:int par=a:int,w:string
            set z <<set:int|(+ z r)>>
            if (> r 8) {
                break
            }
        }
    }
    (println z)
    return <<return:bool|(> (+ hits (str_length w)) 2)>>
}
shadow judge { assert (judge 1 "abc") }
fn label(n: int, flag: bool) -> string {
    let base: string = <<let:string|(i2s n)>>
    let mut out: string = "L"
    if flag {
        set out <<set:string|(+ out base)>>
        @@ if-then ret=string imm=base:string par=n:int,flag:bool
        (println <<arg-println:string|out>>)
        let ln: int = (s2i <<arg-user@let:string|out>>)
        let tw: string = (str_concat out <<arg-builtin@let:string|base>>)
        let jn: string = (+ <<operand@let:string|tw>> "#")
        let arr: array<string> = [jn, <<elem@let:string|base>>]
        (println (at arr 0))
        (println ln)
        if <<cond-if:bool|(> ln 1)>> {
            return <<return:string|(+ jn "+")>>
        }
    } else {
        @@ if-else ret=string imm=base:string par=n:int,flag:bool
        (println (s2s <<arg-user@println:string|base>>))
        (s2i <<arg-user@stmt:string|base>>)
    }
    return <<return:string|(+ out "-")>>
}
shadow label {
    let l: string = <<let@shadow:string|(label 1 false)>>
    (println <<arg-println@shadow:string|l>>)
    assert (== l "L-")
}
fn main() -> int {
    (println "%MARKER%")
    (println (judge 1 "hello"))
    (println (judge 9 ""))
    (println (label 12 true))
    (println (label 5 false))
    return 0
}
shadow main { assert (== (main) 0) }
'''

# several small functions, recursion, holes in shadow blocks, missing-return shapes
B4 = '''fn fact(n: int) -> int {
    if <<cond-if:bool|(<= n 1)>> {
        return 1
    }
@ret:after-if@    return (* n (fact (- n 1)))
}
shadow fact {
    let t: int = <<let@shadow:int|(fact 4)>>
    assert (== t 24)
    (println <<arg-println@shadow:int|t>>)
}
fn sign(v: int) -> int {
    if (> v 0) {
        return 1
    } else {
        if (< v 0) {
            return -1
        } else {
            (println "zero")
@ret:nested-else@            return 0
        }
    }
}
shadow sign { assert (== (sign -4) -1) }
fn pick(c: bool, a: string, b: string) -> string {
    if c {
        (println "pick-a")
@ret:then-branch@        return a
    } else {
        (println "pick-b")
@ret:else-branch@        return b
    }
}
shadow pick { assert (== (pick true "x" "y") "x") }
fn find(lim: int) -> int {
    let mut i: int = 0
    while (< i lim) {
        if (== (% i 7) 6) {
            return i
        }
        set i (+ i 1)
    }
@ret:after-while@    return -1
}
shadow find { assert (== (find 10) 6) }
fn sum_to(n: int) -> int {
    let mut s: int = 0
    for i in (range 0 n) {
        set s (+ s i)
    }
@ret:only@    return s
}
shadow sum_to { assert (== (sum_to 4) 6) }
fn is_small(n: int) -> bool {
    @@ fn-body ret=bool par=n:int
    let lim: int = <<let:int|10>>
    @@ fn-body ret=bool imm=lim:int par=n:int
@ret:only@    return <<return:bool|(< n lim)>>
}
shadow is_small {
    assert (is_small 3)
    let v: bool = <<let@shadow:bool|(is_small 30)>>
    assert (not v)
    (println <<arg-println@shadow:bool|v>>)
}
fn mkp(a: int) -> P {
    let b: int = <<let:int|(* a 2)>>
@ret:only@    return P { x: a, y: b }
}
shadow mkp { assert (== (p2i (mkp 1)) 3) }
fn twice(a: int) -> int {
    return <<return:int|(ii2i a a)>>
}
shadow twice { assert (== (twice 2) 4) }
fn neg(a: bool) -> bool {
    return <<return:bool|(b2b a)>>
}
shadow neg { assert (neg false) }
fn greet(a: string) -> string {
    return <<return:string|(+ "hi " a)>>
}
shadow greet { assert (== (greet "x") "hi x") }
fn idle(a: int, s: string, t: bool) -> int {
    @@ fn-body ret=int par=a:int,s:string,t:bool
    let i1: int = <<let:int|(* a 3)>>
    let i2: bool = <<let:bool|(or t (> a 1))>>
    let i3: string = <<let:string|(+ s s)>>
    let mut j1: int = 0
    let mut j2: bool = true
    set j1 <<set:int|(+ i1 a)>>
    set j2 <<set:bool|(not i2)>>
    if <<cond-if:bool|(and i2 j2)>> {
        (println <<arg-println:string|i3>>)
        return <<return:int|(+ j1 1)>>
    }
    (println <<arg-println:int|j1>>)
    let k1: int = (i2i <<arg-user@let:int|j1>>)
    let k2: int = (abs <<arg-builtin@let:int|k1>>)
    let k3: int = (- <<operand@let:int|k2>> 1)
    @@ fn-body ret=int imm=i1:int,i2:bool,i3:string par=a:int,s:string,t:bool
    return <<return:int|k3>>
}
shadow idle { assert true }
fn show(a: int) -> void {
    @@ fn-body ret=void par=a:int
    let d: int = (+ a 1)
    (println <<arg-println:int|d>>)
    (println (i2s <<arg-user@println:int|d>>))
    (vd <<arg-user@stmt:int|d>>)
    if <<cond-if:bool|(> d 2)>> {
        (println "show-big")
    }
    @@ fn-body ret=void imm=d:int par=a:int
}
shadow show { (show 1) }
fn main() -> int {
    (println "%MARKER%")
    (println (fact 5))
    (println (sign 3))
    (println (pick false "a" "b"))
    (println (find 20))
    (println (sum_to 5))
    (println (is_small 4))
    (println (p2i (mkp 2)))
    (println (twice 4))
    (println (neg true))
    (println (greet "you"))
    (show 2)
    return 0
}
shadow main { assert (== (main) 0) }
'''

# structs, enums, unions, arrays, floats
B5 = '''fn dist(p: P, q: P, c: Color) -> int {
    let dx: int = <<let:int|(- p.x q.x)>>
    let dy: int = (abs <<arg-builtin@let:int|(- p.y q.y)>>)
    let same: bool = <<let:bool|(== c Color.Red)>>
    let c2: Color = <<let:Color|Color.Blue>>
    let mid: P = P { x: <<field@let:int|(/ (+ p.x q.x) 2)>>, y: <<field@let:int|dy>> }
    let s1: Sh = <<let:Sh|Sh.Sq { s: dy }>>
    @@ fn-body ret=int imm=dx:int,dy:int,same:bool par=p:P,c:Color
    let k: int = (c2i <<arg-user@let:Color|c2>>)
    let l: int = (p2i <<arg-user@let:P|mid>>)
    let m: int = (sh2i <<arg-user@let:Sh|s1>>)
    let t: bool = (!= c <<operand@let:Color|c2>>)
    let fx: float = <<let:float|(i2f dx)>>
    let fy: float = (* fx <<operand@let:float|2.0>>)
    let xs: array<int> = [k, l, <<elem@let:int|m>>]
    let fs: array<float> = [<<elem@let:float|fy>>, 1.0]
    let mut tot: int = 0
    let mut fz: float = 0.5
    set fz <<set:float|(+ fz fy)>>
    for i in (range 0 3) {
        @@ for-body ret=int imm=dx:int,same:bool par=p:P,c:Color loopvar=i:int
        set tot <<set:int|(+ tot (at xs i))>>
        if <<cond-if:bool|(and same (> tot 1))>> {
            @@ nested ret=int imm=dx:int,k:int,t:bool par=q:P
            (println <<arg-println:int|tot>>)
        }
    }
    (println <<arg-println:float|fz>>)
    (println <<arg-println:bool|t>>)
    (println (at fs 0))
    (println (c2i <<arg-user@println:Color|c>>))
    (println (b2i <<arg-user@println:bool|t>>))
    (b2s <<arg-user@stmt:bool|same>>)
    let tb: bool = (b2b <<arg-user@let:bool|t>>)
    let tc: array<bool> = [<<elem@let:bool|tb>>, same]
    (println (or (at tc 0) <<operand@println:bool|same>>))
    (println (str_length <<arg-builtin@println:string|"abc">>))
    (println (p2i <<arg-user@println:P|q>>))
    (i2p <<arg-user@stmt:int|tot>>)
    if (< <<operand@cond:int|dx>> dy) {
        (println (- <<operand@println:int|dy>> dx))
        return <<return:int|(+ tot dy)>>
    }
    return <<return:int|(+ tot (abs dx))>>
}
shadow dist {
    let a: P = P { x: 1, y: 2 }
    let b: P = P { x: 4, y: 6 }
    let dd: int = <<let@shadow:int|(dist a b Color.Red)>>
    (println <<arg-println@shadow:int|dd>>)
    assert (> dd 0)
}
fn origin(k: int) -> P {
    return <<return:P|P { x: k, y: k }>>
}
shadow origin { assert (== (p2i (origin 2)) 4) }
fn hue(k: int) -> Color {
    if (> k 0) {
        return <<return:Color|Color.Green>>
    }
    return <<return:Color|Color.Red>>
}
shadow hue { assert (== (hue 1) Color.Green) }
fn half(x: float) -> float {
    return <<return:float|(/ x 2.0)>>
}
shadow half { assert (== (half 3.0) 1.5) }
fn main() -> int {
    (println "%MARKER%")
    let a: P = P { x: 1, y: 2 }
    let b: P = (origin 5)
    (println (dist a b (hue 1)))
    (println (dist b a Color.Blue))
    (println (half 5.0))
    let mut n: int = 0
    while <<cond-while:bool|(< n 2)>> {
        set n (+ n 1)
        @@ while-body ret=int imm=a:P,b:P
        if (> n 7) {
            break
        }
    }
    return 0
}
shadow main { assert (== (main) 0) }
'''

# bindings of every type class (parameters, immutable lets, globals, loop variable, match payloads), function values,
# match arms, global initialisers, shadow bodies
B8 = '''let gcfg: int = <<global-init:int|40>>
let gname: string = <<global-init:string|"cfg">>
let gflag: bool = <<global-init:bool|true>>
fn ap(f: fn(int) -> int, v: int) -> int {
    return (f v)
}
shadow ap { assert (== (ap i2i 1) 2) }
fn pickfn(k: int) -> fn(int) -> int {
    if (> k 0) {
        return <<return-fnvalue:fn|i2i>>
    }
    return i2i
}
shadow pickfn { assert true }
fn classes(f: fn(int) -> int, v: int, xs: array<int>, p: P, sh: Sh, c: Color, s: string, x: float, t: bool) -> int {
    @@ fn-body ret=int par=f:fn,v:int,xs:arr,p:P,sh:Sh,c:Color,s:string,x:float,t:bool glob=gcfg:int,gname:string,gflag:bool
    let once: int = (f v)
    let g: fn(int) -> int = <<let-fnvalue:fn|i2i>>
    let ys: array<int> = [v, once]
    let q: P = P { x: v, y: once }
    let s2: Sh = Sh.Circle { r: once }
    let c2: Color = Color.Blue
    let nm: string = (+ s "!")
    let fx: float = (* x 2.0)
    let ok: bool = (not t)
    @@ fn-body ret=int imm=once:int,g:fn,ys:arr,q:P,s2:Sh,c2:Color,nm:string,fx:float,ok:bool par=f:fn,v:int,xs:arr,p:P,sh:Sh,c:Color,s:string,x:float,t:bool glob=gcfg:int,gname:string,gflag:bool
    let mut acc: int = 0
    for k in (range 0 (array_length xs)) {
        @@ for-body ret=int imm=once:int,g:fn,ys:arr,nm:string loopvar=k:int par=f:fn,xs:arr,sh:Sh,s:string glob=gname:string
        set acc (+ acc (at xs k))
    }
    match sh {
        Circle(cc) => {
            @@ match-arm ret=int imm=once:int,q:P,g:fn,ok:bool bind=cc:payload par=f:fn,sh:Sh,p:P,c:Color,x:float,t:bool glob=gflag:bool
            let r1: int = <<let@match-arm:int|cc.r>>
            let b1: bool = <<let@match-arm:bool|(> r1 2)>>
            set acc <<set@match-arm:int|(+ acc r1)>>
            if <<cond-if@match-arm:bool|(and b1 (> r1 100))>> {
                return <<return@match-arm:int|r1>>
            }
        }
        Sq(qq) => {
            @@ match-arm ret=int imm=once:int,ys:arr,s2:Sh,c2:Color,nm:string,fx:float bind=qq:payload par=v:int,xs:arr,s:string glob=gcfg:int
            let r2: int = <<let@match-arm:int|qq.s>>
            set acc <<set@match-arm:int|(+ acc r2)>>
            if <<cond-if@match-arm:bool|(> r2 100)>> {
                return <<return@match-arm:int|(+ r2 1)>>
            }
        }
    }
    let h: int = (ap <<arg-fnvalue@let:fn|g>> once)
    let pf: fn(int) -> int = (pickfn 1)
    (println nm)
    (println fx)
    (println ok)
    (println (c2i c2))
    (println (p2i q))
    (println (sh2i s2))
    (println (at ys 1))
    (println gname)
    (println gflag)
    return (+ (+ acc h) (+ (pf once) gcfg))
}
shadow classes {
    let sp: P = P { x: 1, y: 2 }
    let sv: int = (classes i2i 2 [1, 2] sp Sh.Sq { s: 3 } Color.Red "s" 1.5 true)
    @@ shadow-body imm=sp:P,sv:int
    assert (> sv 0)
}
fn main() -> int {
    (println "%MARKER%")
    let mp: P = P { x: 5, y: 6 }
    (println (classes i2i 3 [4, 5, 6] mp Sh.Circle { r: 2 } Color.Green "ab" 0.5 false))
    let m1: int = (ap <<arg-fnvalue@let:fn|i2i>> 4)
    (println m1)
    let lf: fn(int) -> int = <<let-fnvalue:fn|i2i>>
    (println (lf 9))
    return 0
}
shadow main {
    let rc: int = (main)
    @@ shadow-body imm=rc:int
    assert (== rc 0)
}
'''

# closures (nested functions) and tuples: NanoISA pipeline only - the C transpiler has no nested functions, and tuple
# parameters do not get through the C compiler
B9 = '''fn make_mul(factor: int, tag: string) -> fn(int) -> int {
    let f: int = factor
    let lbl: string = (+ tag ":")
    let big: bool = (> factor 10)
    fn mul(x: int) -> int {
        @@ closure-body ret=int par=x:int cap=f:int,lbl:string,big:bool,factor:int,tag:string
        let y: int = <<let@closure:int|(* x f)>>
        let ok: bool = <<let@closure:bool|(or big (> y 5))>>
        let nm: string = <<let@closure:string|(+ lbl "v")>>
        let mut z: int = 0
        set z <<set@closure:int|(+ y 1)>>
        @@ closure-body ret=int imm=y:int,ok:bool,nm:string par=x:int cap=f:int,lbl:string,big:bool
        if <<cond-if@closure:bool|(and ok (> z 1000))>> {
            return <<return@closure:int|z>>
        }
        return <<return@closure:int|y>>
    }
    return mul
}
fn make_add(k: int) -> fn(int) -> int {
    let base: int = (+ k 1)
    fn add(x: int) -> int {
        let w: int = <<let@closure:int|(+ x base)>>
        @@ closure-body ret=int imm=w:int par=x:int cap=base:int,k:int
        let mut u: int = w
        set u <<set@closure:int|(+ u 0)>>
        if <<cond-if@closure:bool|(< u 0)>> {
            return <<return@closure:int|0>>
        }
        return <<return@closure:int|u>>
    }
    return add
}
fn pairsum(tp: (int, bool), n: int) -> int {
    @@ fn-body ret=int par=tp:tup,n:int
    let t2: (int, bool) = (n, true)
    @@ fn-body ret=int imm=t2:tup par=tp:tup,n:int
    return (+ tp.0 t2.0)
}
fn main() -> int {
    (println "%MARKER%")
    let triple: fn(int) -> int = (make_mul 3 "m")
    (println (triple 7))
    let add5: fn(int) -> int = (make_add 4)
    (println (add5 10))
    (println (pairsum (2, false) 5))
    return 0
}
'''

HAND_BASES = [("b1", B1), ("b2", B2), ("b3", B3), ("b4", B4), ("b5", B5)]


# =========================================================================================================
#  template machinery
# =========================================================================================================
import os
import re
import random

HOLE_RE = re.compile(r"<<([a-z@-]+):([A-Za-z]+)\|(.*?)>>")
RET_RE = re.compile(r"^@ret:([a-z-]+)@")
FN_RE = re.compile(r"^\s*(?:pub )?fn \w+\(.*\) -> (.+?) \{\s*$")
MARK_RE = re.compile(r"^(\s*)@@ ([a-z-]+)(.*)$")


class Hole:
    def __init__(self, idx, line, ctx, T, default):
        self.idx, self.line, self.ctx, self.T, self.default = idx, line, ctx, T, default


class StmtPoint:
    def __init__(self, idx, line, indent, blockctx, ret, imm, par, extra=None):
        self.idx, self.line, self.indent, self.blockctx, self.ret, self.imm, self.par = idx, line, indent, blockctx, ret, imm, par
        extra = extra or {}
        self.loopvar = _pairs(extra.get("loopvar", ""))     # for-loop variables in scope (immutable, userguide ch.5)
        self.bind = _pairs(extra.get("bind", ""))           # match payload bindings in scope
        self.cap = _pairs(extra.get("cap", ""))             # immutable bindings of the enclosing function seen from a closure
        self.glob = _pairs(extra.get("glob", ""))           # immutable globals declared by the base itself


class RetLine:
    def __init__(self, idx, line, shape):
        self.idx, self.line, self.shape = idx, line, shape


def _pairs(s):
    return [tuple(x.split(":")) for x in s.split(",") if x]


class Base:
    """a parsed template; render(mutation) gives program text.
    mutation: None | ('hole', idx, pre_lines, expr) | ('stmt', idx, lines) | ('ret', idx)"""

    def __init__(self, name, body, prelude=PRELUDE, kind="hand", extra_files=None, imp=None, target="p.nano", tools=None):
        self.name = name
        self.tools = tools or ["nanoc", "virt-run", "virt-emit"]    # nested functions exist in the NanoISA pipeline only
        self.kind = kind
        self.extra_files = extra_files or {}
        self.imp = imp              # import context (None = a single-file program / a generated program)
        self.target = target        # the file the template is rendered to (an imported module for 'in-module')
        text = body.replace("%MARKER%", MARKER)
        if prelude:
            # imports stay in front of the prelude
            ls = text.split("\n")
            k = 0
            while k < len(ls) and ls[k].startswith(("from ", "module ", "unsafe module ", "import ")):
                k += 1
            pl = prelude.rstrip("\n").split("\n")
            text = "\n".join(ls[:k] + pl + ls[k:])
            self.body_start = k + len(pl)
        else:
            self.body_start = 0
        self.lines = text.split("\n")
        self.holes, self.points, self.rets = [], [], []
        for li, l in enumerate(self.lines):
            m = MARK_RE.match(l)
            if m:
                attrs = dict(a.split("=", 1) for a in m.group(3).split())
                self.points.append(StmtPoint(len(self.points), li, m.group(1), m.group(2), attrs.get("ret"),
                                             _pairs(attrs.get("imm", "")), _pairs(attrs.get("par", "")), attrs))
                continue
            m = RET_RE.match(l)
            if m:
                self.rets.append(RetLine(len(self.rets), li, m.group(1)))
            for hm in HOLE_RE.finditer(l):
                self.holes.append(Hole(len(self.holes), li, hm.group(1), hm.group(2), hm.group(3)))

    def ret_type_at(self, line):
        """declared return type of the function whose body contains template line `line` (None in a shadow block)"""
        for li in range(line, -1, -1):
            l = self.lines[li]
            if l.startswith("shadow "):
                return None
            m = FN_RE.match(l)
            if m:
                return m.group(1).strip()
        return None

    def render(self, mut=None):
        out = []
        hidx = 0
        top = mut[3] if mut and mut[0] == "stmt" and len(mut) > 3 else None
        for li, l in enumerate(self.lines):
            if top and li == self.body_start:
                out.extend(top)            # top-level declarations in front of the base's own functions
            m = MARK_RE.match(l)
            if m:
                if mut and mut[0] == "stmt" and self.points[mut[1]].line == li:
                    out.extend(m.group(1) + x for x in mut[2])
                continue
            m = RET_RE.match(l)
            if m:
                if mut and mut[0] == "ret" and self.rets[mut[1]].line == li:
                    continue
                l = l[m.end():]
            if "<<" in l:
                pre = []

                def sub(hm):
                    nonlocal hidx
                    h = self.holes[hidx]
                    hidx += 1
                    if mut and mut[0] == "hole" and mut[1] == h.idx:
                        pre.extend(mut[2])
                        return mut[3]
                    return hm.group(3)
                nl = HOLE_RE.sub(sub, l)
                ind = l[:len(l) - len(l.lstrip())]
                out.extend(ind + x for x in pre)
                out.append(nl)
            else:
                out.append(l)
        return "\n".join(out)

    def files(self, mut=None):
        d = dict(self.extra_files)
        d[self.target] = self.render(mut)
        return d


# =========================================================================================================
#  rule catalogue.  Every entry is a CERTAIN violation of the named rule wherever it is placed:
#  the offending expression never depends on the surroundings except through D (the slot's own well-typed
#  default expression, of the slot's type) and names declared by the prelude / by its own `pre` statements.
# =========================================================================================================
SIMPLE = ("int", "bool", "string", "float")
LIT = {"int": ["7", "0", "42"], "bool": ["true", "false"], "string": ['"zq"', '""'], "float": ["2.5"],
       "P": ["P { x: 0, y: 0 }"], "Color": ["Color.Red"], "Sh": ["Sh.Sq { s: 1 }"],
       # type classes used by the immutable-binding matrix: array<int>, (int, bool), fn(int) -> int
       "arr": ["[1, 2]", "[]"], "tup": ["(1, true)"], "fn": ["i2i"]}
# literals / well-typed expressions whose type certainly differs from the slot's (no int<->enum, see notes)
WRONG = {
    "int": ['"zq"', "true", '"7"', "2.5", "(i2s 1)", "(i2b 1)", "P { x: 1, y: 2 }"],
    "bool": ["7", '"zq"', "0", '"true"', "(i2i 1)", "(i2s 1)"],
    "string": ["7", "true", "0", "2.5", "(i2i 1)", "(i2b 1)"],
    "float": ['"zq"', "true", "3", "(i2s 1)"],
    "P": ["7", '"zq"', "true"],
    "Sh": ["7", "true", '"zq"'],
    "Color": ['"zq"', "true", "2.5"],
    # a slot of type fn(int) -> int: non-functions, and functions of another signature
    "fn": ["7", '"zq"', "true", "s2i", "ii2i"],
}
SUF = {"int": "i", "bool": "b", "string": "s", "float": "f", "P": "p"}


def _d(D, T):
    return D if D is not None else LIT[T][0]


def r_mismatch(T, D):
    return [("wrong:" + w, [], w) for w in WRONG.get(T, [])]


def r_operand_arith(T, D):
    out = []
    if T == "int":
        for op in ("-", "*", "/", "%", "+"):
            out.append(("%s int,string" % op, [], "(%s %s \"zq\")" % (op, _d(D, T))))
            out.append(("%s bool,int" % op, [], "(%s true %s)" % (op, _d(D, T))))
        out.append(("- string,int", [], '(- "zq" %s)' % _d(D, T)))
    elif T == "float":
        out.append(("* float,string", [], '(* %s "zq")' % _d(D, T)))
        out.append(("- bool,float", [], "(- true %s)" % _d(D, T)))
        out.append(("+ float,int", [], "(+ %s 1)" % _d(D, T)))
    elif T == "string":
        out.append(("+ string,int", [], "(+ %s 7)" % _d(D, T)))
        out.append(("+ bool,string", [], "(+ true %s)" % _d(D, T)))
    return out


def r_operand_ordering(T, D):
    if T != "bool":
        return []
    return [("< int,string", [], '(< 3 "zq")'), (">= string,int", [], '(>= "zq" 3)'),
            ("> int,bool", [], "(> 3 true)"), ("<= bool,int", [], "(<= false 3)"),
            ("< string,bool", [], '(< "zq" true)'), ("<= float,string", [], '(<= 2.5 "zq")')]


def r_operand_equality(T, D):
    if T != "bool":
        return []
    return [("== int,string", [], '(== 3 "zq")'), ("!= string,int", [], '(!= "zq" 3)'),
            ("== bool,int", [], "(== true 3)"), ("!= int,bool", [], "(!= 3 false)"),
            ("== string,bool", [], '(== "zq" true)'), ("!= float,string", [], '(!= 2.5 "zq")')]


def r_operand_logic(T, D):
    if T != "bool":
        return []
    d = _d(D, T)
    return [("and bool,int", [], "(and %s 7)" % d), ("or string,bool", [], '(or "zq" %s)' % d),
            ("and int,bool", [], "(and 7 %s)" % d), ("or bool,string", [], '(or %s "zq")' % d),
            ("and float,bool", [], "(and 2.5 %s)" % d), ("or bool,int", [], "(or %s 0)" % d)]


def r_operand_not(T, D):
    if T != "bool":
        return []
    return [("not int", [], "(not 7)"), ("not string", [], '(not "zq")'), ("not int 0", [], "(not 0)"),
            ("not float", [], "(not 2.5)"), ("not empty string", [], '(not "")'), ("not int call", [], "(not (i2i 1))")]


def r_operand_neg(T, D):
    if T != "int":
        return []
    return [("neg string", [], '(- "zq")'), ("neg bool", [], "(- true)"), ("neg empty string", [], '(- "")'),
            ("neg bool false", [], "(- false)")]


def r_argtype_user(T, D):
    t = {
        "int": ['(i2i "zq")', "(i2i true)", "(s2i 7)", "(b2i 7)", '(ii2i %s "zq")' % _d(D, "int"),
                "(ii2i true %s)" % _d(D, "int"), "(p2i 7)", '(c2i "zq")'],
        "bool": ['(i2b "zq")', "(s2b 7)", "(b2b 7)", '(ib2b "zq" %s)' % _d(D, "bool"), "(ib2b 1 7)"],
        "string": ['(i2s "zq")', "(s2s 7)", '(b2s "zq")', '(is2s "zq" %s)' % _d(D, "string"), "(is2s 1 7)"],
        "float": ['(i2f "zq")', "(i2f true)"],
        "P": ['(i2p "zq")', "(i2p true)"],
        "void": ['(vd "zq")', "(vd true)"],
    }
    return [("call " + e, [], e) for e in t.get(T, [])]


def r_argtype_builtin(T, D):
    t = {
        "int": ['(abs "zq")', "(abs true)", "(str_length 7)", '(max 1 "zq")', '(min "zq" 2)', "(string_to_int 7)"],
        "bool": ['(str_equals "a" 7)', '(str_contains 7 "a")'],
        "string": ['(int_to_string "zq")', '(str_concat "a" 7)', '(str_concat 7 "a")', "(str_substring 7 0 1)"],
    }
    return [("call " + e, [], e) for e in t.get(T, [])]


def r_arity_user(T, D):
    t = {
        "int": ["(i2i)", "(i2i 1 2)", "(ii2i 1)", "(ii2i 1 2 3)"],
        "bool": ["(i2b)", "(i2b 1 2)", "(ib2b 1)"],
        "string": ["(i2s)", "(i2s 1 2)", '(is2s 1 "a" "b")'],
        "float": ["(i2f)", "(i2f 1 2)"],
        "P": ["(i2p)", "(i2p 1 2)"],
        "void": ["(vd)", "(vd 1 2)"],
    }
    return [("call " + e, [], e) for e in t.get(T, [])]


def r_arity_builtin(T, D):
    t = {
        "int": ["(abs)", "(abs 1 2)", "(str_length)", '(str_length "a" "b")', "(max 1)"],
        "bool": ['(str_equals "a")', '(str_contains "a" "b" "c")'],
        "string": ["(int_to_string)", "(int_to_string 1 2)", '(str_concat "a")'],
    }
    return [("call " + e, [], e) for e in t.get(T, [])]


def r_unknown_var(T, D):
    return [("name zz_nosuch", [], "zz_nosuch"), ("name nosuch9", [], "nosuch9"), ("name undefined_total", [], "undefined_total"),
            ("name x9z", [], "x9z")]


def r_unknown_fn(T, D):
    return [("call " + e, [], e) for e in ("(zz_nosuchfn 1)", "(zz_nosuchfn)", '(zz_nosuchfn "a" 2)')]


def r_scope_block(T, D):
    if T not in LIT or T in ("Color", "Sh"):
        return []
    v = LIT[T][0]
    out = [("after if-block", ["if true {", "    let zblk: %s = %s" % (T, v), "}"], "zblk"),
           ("after while-block", ["let mut zcnt: int = 0", "while (< zcnt 1) {", "    let zblk: %s = %s" % (T, v),
                                  "    set zcnt (+ zcnt 1)", "}"], "zblk"),
           ("after else-block", ["if false {", "    set gmut 1", "} else {", "    let zblk: %s = %s" % (T, v), "}"], "zblk")]
    # NOT in the catalogue: a `for` variable used after its loop.  SPEC 5.4 defines `for i in (range a b) {..}` as
    # equivalent to `let mut i: int = a` + while, which leaves i visible afterwards, so that use is not certainly ill-formed.
    return out


def r_scope_otherfn(T, D):
    if T not in ("int", "bool", "string"):
        return []
    s = SUF[T]
    return [("local of other()", [], "oloc_" + s), ("parameter of other()", [], "opar_" + s)]


def r_undefined_field(T, D):
    pre = ["let zp: P = P { x: 1, y: 2 }"]
    return [("field zp.nosuch", pre, "zp.nosuch"), ("field zp.z", pre, "zp.z"), ("field zp.w", pre, "zp.w"),
            ("field zp.xx", pre, "zp.xx")]


def r_undefined_variant(T, D):
    if T == "Color":
        return [("enum variant", [], "Color.Nosuch"), ("enum variant (case)", [], "Color.red"), ("enum variant Purple", [], "Color.Purple")]
    if T == "Sh":
        return [("union variant", [], "Sh.Nosuch { r: 1 }"), ("union variant Tri", [], "Sh.Tri { s: 2 }"),
                ("union variant (case)", [], "Sh.circle { r: 1 }")]
    return []


def r_void_use(T, D):
    return [("call (vd 1)", [], "(vd 1)"), ("call (vd 0)", [], "(vd 0)"), ("call (vd 42)", [], "(vd 42)")]


def r_consumed_use(T, D):
    pres = [["let zr: Res = (mk 3)", "(closer zr)"], ["let zr: Res = Res { fd: 3 }", "(closer zr)"]]
    out = []
    if T == "int":
        for i, p in enumerate(pres):
            out.append(("pass consumed #%d" % i, p, "(peek zr)"))
            out.append(("read field of consumed #%d" % i, p, "zr.fd"))
    elif T == "void":
        for i, p in enumerate(pres):
            out.append(("consume twice #%d" % i, p, "(closer zr)"))
    return out


def r_extern_nounsafe(T, D):
    if T != "int":
        return []
    return [("call (labs 3)", [], "(labs 3)"), ("call (labs D)", [], "(labs %s)" % _d(D, "int")), ("call (labs 0)", [], "(labs 0)"),
            ("call (labs -4)", [], "(labs -4)"), ("call (get_argc)", [], "(get_argc)")]


EXPR_RULES = [
    ("type-mismatch", r_mismatch), ("operand-arith", r_operand_arith), ("operand-ordering", r_operand_ordering),
    ("operand-equality", r_operand_equality), ("operand-logic", r_operand_logic), ("operand-not", r_operand_not),
    ("operand-neg", r_operand_neg), ("argtype-user", r_argtype_user), ("argtype-builtin", r_argtype_builtin),
    ("arity-user", r_arity_user), ("arity-builtin", r_arity_builtin), ("unknown-var", r_unknown_var),
    ("unknown-fn", r_unknown_fn), ("scope-after-block", r_scope_block), ("scope-other-function", r_scope_otherfn),
    ("undefined-field", r_undefined_field), ("undefined-variant", r_undefined_variant), ("void-result-use", r_void_use),
    ("consumed-resource-use", r_consumed_use), ("extern-outside-unsafe", r_extern_nounsafe),
]
# rules whose offending expression has no type of its own (fits a slot of any type)
ANYTYPE_RULES = {"unknown-var", "unknown-fn", "undefined-field", "void-result-use"}
EXPR_CONTEXTS = ["let", "set", "return", "cond-if", "cond-while", "arg-user@let", "arg-user@stmt", "arg-user@println",
                 "arg-builtin@let", "arg-builtin@println", "arg-println", "operand@let", "operand@cond",
                 "operand@println", "elem@let", "field@let", "expr-stmt", "let@shadow", "arg-println@shadow"]
ANYOK_CONTEXTS = {"arg-println", "expr-stmt", "arg-println@shadow"}        # the slot itself accepts a value of any type
# call-shaped entries only in expr-stmt (an operator expression / a bare name as a statement is a different error)
STMT_CONTEXTS = ["fn-body", "if-then", "if-else", "while-body", "for-body", "nested", "match-arm", "shadow-body", "closure-body"]
CLASSIC_STMT_CONTEXTS = {"fn-body", "if-then", "if-else", "while-body", "for-body", "nested", "match-arm"}
# Further places a violating expression can sit (closure = body of a nested function, NanoISA pipeline only).  Only rules
# that are rejected in the corresponding plain context are instantiated there (the point is the PLACE, not the rule).
NEW_EXPR_CONTEXTS = ["let@closure", "set@closure", "return@closure", "cond-if@closure", "let@match-arm", "set@match-arm",
                     "return@match-arm", "cond-if@match-arm", "global-init", "let-fnvalue", "arg-fnvalue@let", "return-fnvalue"]
NEW_CONTEXT_RULES = ["type-mismatch", "unknown-var", "unknown-fn", "operand-arith", "operand-neg", "arity-builtin",
                     "undefined-field", "scope-other-function"]
# assignment to every kind of immutable binding x type class of the binding
BINDING_KINDS = ["param", "let", "global", "loop-variable", "match-binding", "closure-param", "closure-let", "closure-capture"]
RET_SHAPES = ["only", "after-if", "then-branch", "else-branch", "nested-else", "after-while"]


def expr_variants(rule, fn, ctx, T, D):
    """variants of `rule` that may be put into a slot (ctx, T, default D)"""
    if ctx == "expr-stmt":
        if rule in ("type-mismatch", "void-result-use"):
            return []          # nothing is expected of an expression statement; a void call as a statement is legal
        out = []
        for T2 in ("int", "bool", "string", "float", "P", "void"):
            for v in fn(T2, None):
                e = v[2]
                if e.startswith("(") and re.match(r"\([A-Za-z_]", e) and not re.match(r"\((and|or|not)\b", e):
                    out.append(v)
            if rule in ANYTYPE_RULES:
                break
        if rule == "extern-outside-unsafe":
            # three variants, so that the >= 3 sites of a cell always include the bare `(get_argc)` call, which - unlike
            # `(labs 3)` (cc: statement with no effect) - would also get through the C compiler if nanoc accepted it
            out = [v for v in out if v[2] in ("(get_argc)", "(labs 3)", "(labs -4)")]
        return out
    if rule == "type-mismatch" and ctx in ANYOK_CONTEXTS:
        return []
    if ctx == "global-init":
        return [v for v in fn(T, D) if not v[1]]      # nothing can be inserted in front of a global
    if rule in ANYTYPE_RULES:
        return fn(T, D)
    if ctx in ANYOK_CONTEXTS:
        out = list(fn(T, D))
        for T2 in SIMPLE:
            if T2 != T:
                out += fn(T2, None)
        return out
    return fn(T, D)


def stmt_variants(rule, pt):
    """statement-level violations that may be inserted at a statement point"""
    out = []
    if rule == "set-immutable-local":
        for n, T in pt.imm:
            for v in LIT.get(T, [])[:2]:
                out.append(("set %s:%s = %s" % (n, T, v), ["set %s %s" % (n, v)]))
    elif rule == "set-parameter":
        for n, T in pt.par:
            for v in LIT.get(T, [])[:2]:
                out.append(("set %s:%s = %s" % (n, T, v), ["set %s %s" % (n, v)]))
    elif rule == "set-immutable-global":
        out.append(("set gimm", ["set gimm 5"]))
        out.append(("set gimm expr", ["set gimm (+ gimm 1)"]))
        out.append(("set gimm 0", ["set gimm 0"]))
    elif rule == "set-unknown-var":
        out.append(("set zz_nosuch", ["set zz_nosuch 5"]))
        out.append(("set nosuch9", ["set nosuch9 0"]))
        out.append(("set zz_flag", ["set zz_flag true"]))
    elif rule == "return-type":
        if pt.ret == "void":
            out.append(("return 5 in void fn", ["return 5"]))
            out.append(('return "zq" in void fn', ['return "zq"']))
        elif pt.ret in WRONG:
            for w in WRONG[pt.ret][:4]:
                out.append(("return %s in %s fn" % (w, pt.ret), ["return " + w]))
    elif rule == "match-undefined-variant":
        out.append(("extra arm Nosuch", ["let zs: Sh = Sh.Circle { r: 1 }", "match zs {", "    Circle(zc) => { set gmut zc.r }",
                                         "    Sq(zq) => { set gmut zq.s }", "    Nosuch(zn) => { set gmut 0 }", "}"]))
        out.append(("arm Tri instead of Sq", ["let zs: Sh = Sh.Circle { r: 1 }", "match zs {", "    Circle(zc) => { set gmut zc.r }",
                                              "    Tri(zq) => { set gmut 0 }", "}"]))
        out.append(("extra arm circle (case)", ["let zs: Sh = Sh.Sq { s: 1 }", "match zs {", "    Circle(zc) => { set gmut zc.r }",
                                                "    Sq(zq) => { set gmut zq.s }", "    circle(zn) => { set gmut 1 }", "}"]))
    return out


OTHER_T = {"int": "string", "string": "int", "bool": "int", "float": "string", "arr": "int", "P": "int", "Sh": "int",
           "Color": "string", "tup": "int", "fn": "int", "payload": "int"}
CLS_TYPE = {"int": "int", "string": "string", "bool": "bool", "float": "float", "arr": "array<int>", "P": "P", "Sh": "Sh",
            "Color": "Color", "tup": "(int, bool)", "fn": "fn(int) -> int"}
COINCIDENCES = ["", "same-name-mut-local-of-earlier-fn", "same-name-mut-global"]


def coincidence_top(co, n, U):
    """top-level declarations that give the NAME n an earlier life as a MUTABLE variable of another type U"""
    v1, v2 = LIT[U][0], LIT[U][-1]
    U = CLS_TYPE[U]
    if co == "same-name-mut-local-of-earlier-fn":
        return ["fn zco_%s(zz: int) -> int {" % n, "    let mut %s: %s = %s" % (n, U, v1), "    set %s %s" % (n, v2),
                "    return zz", "}", "shadow zco_%s { assert (== (zco_%s 1) 1) }" % (n, n)]
    if co == "same-name-mut-global":
        return ["let mut %s: %s = %s" % (n, U, v1)]
    return None


def binding_sites(rule, kind, cls, co, pt):
    """[(variant, mutation, control)] for the two binding rules at one statement point.
    set-immutable-binding: `set n <value of n's own type>`; binding-used-at-wrong-type: `let zuse: U = n` with U != type(n).
    With a coincidence, an earlier function / a global declares a MUTABLE variable of the same name: of the binding's own
    type for the assignment (only the mutability differs, so a mix-up of the two symbols makes the assignment look legal),
    of type U for the wrong-type use (a mix-up makes the use look well-typed)."""
    out = []
    for vn, lines in binding_variants(kind, cls, pt):
        n = lines[0].split()[1]
        U = OTHER_T[cls]
        if rule == "binding-used-at-wrong-type":
            if cls == "payload":
                continue
            lines = ["let zuse: %s = %s" % (U, n)]
            vn = "let zuse: %s = %s:%s" % (U, n, cls)
        if not co:
            out.append((vn, ("stmt", pt.idx, lines)))
            continue
        if n == "gimm" or (kind == "global" and co == "same-name-mut-global"):
            continue
        if rule == "set-immutable-binding" and cls not in CLS_TYPE:
            continue
        top = coincidence_top(co, n, cls if rule == "set-immutable-binding" else U)
        out.append((vn + " [" + co + "]", ("stmt", pt.idx, lines, top), ("stmt", pt.idx, [], top)))
    seen, uniq = set(), []
    for v in out:
        if v[0] not in seen:
            seen.add(v[0])
            uniq.append(v)
    return uniq


# scope-after-block where the declaring block is left by return / break / continue, per kind of block
RET_LIT = {"int": "0", "bool": "false", "string": '""', "float": "0.0", "P": "P { x: 0, y: 0 }", "Color": "Color.Red",
           "fn(int) -> int": "i2i"}
SCOPE_EXIT_CONTEXTS = ["let", "set", "return"]


def scope_exit_variants(T, ret):
    """{block-exit kind: pre statements} declaring zblk: T in a block that ends with / contains an exit statement"""
    if T not in ("int", "bool", "string", "float"):
        return {}
    v = LIT[T][0]
    d = "let zblk: %s = %s" % (T, v)
    out = {
        "while-break": ["let mut zcnt: int = 0", "while (< zcnt 1) {", "    set zcnt (+ zcnt 1)", "    " + d, "    break", "}"],
        "while-continue": ["let mut zcnt: int = 0", "while (< zcnt 1) {", "    set zcnt (+ zcnt 1)", "    " + d, "    continue", "}"],
        "for-break": ["for zi in (range 0 1) {", "    " + d, "    break", "}"],
        "for-continue": ["for zi in (range 0 1) {", "    " + d, "    continue", "}"],
        "for-plain": ["for zi in (range 0 1) {", "    " + d, "}"],
        "match-arm-plain": ["let zs: Sh = Sh.Circle { r: 1 }", "match zs {", "    Circle(zc) => {", "        " + d, "        set gmut zc.r",
                            "    }", "    Sq(zq) => {", "        set gmut zq.s", "    }", "}"],
        "unsafe-plain": ["unsafe {", "    " + d, "}"],
    }
    r = RET_LIT.get(ret)
    if r is not None:
        rl = "return " + r
        out.update({
            "if-return": ["if false {", "    " + d, "    " + rl, "}"],
            "else-return": ["if true {", "    set gmut gmut", "} else {", "    " + d, "    " + rl, "}"],
            "while-return": ["let mut zcnt: int = 0", "while (< zcnt 0) {", "    set zcnt (+ zcnt 1)", "    " + d, "    " + rl, "}"],
            "for-return": ["for zi in (range 0 0) {", "    " + d, "    " + rl, "}"],
            "match-arm-return": ["let zs: Sh = Sh.Circle { r: 1 }", "match zs {", "    Circle(zc) => {", "        set gmut zc.r", "    }",
                                 "    Sq(zq) => {", "        " + d, "        " + rl, "    }", "}"],
            "unsafe-return": ["if false {", "    unsafe {", "        " + d, "        " + rl, "    }", "}"],
            "nested-if-return": ["if true {", "    if false {", "        " + d, "        " + rl, "    }", "}"],
        })
    return out


SCOPE_EXIT_KINDS = ["if-return", "else-return", "while-return", "while-break", "while-continue", "for-plain", "for-return", "for-break",
                    "for-continue", "match-arm-plain", "match-arm-return", "unsafe-plain", "unsafe-return", "nested-if-return"]


def binding_variants(kind, cls, pt):
    """`set <name> <value of the binding's own type>` for every binding of this kind and type class visible at pt"""
    closure = pt.blockctx == "closure-body"
    src = {"param": [] if closure else pt.par, "let": [] if closure else pt.imm, "global": pt.glob + [("gimm", "int")],
           "loop-variable": pt.loopvar, "match-binding": pt.bind, "closure-param": pt.par if closure else [],
           "closure-let": pt.imm if closure else [], "closure-capture": pt.cap}[kind]
    out = []
    for n, T in src:
        if T != cls:
            continue
        if kind == "match-binding":
            out.append(("set %s %s" % (n, n), ["set %s %s" % (n, n)]))      # the payload has no literal of its own type
            continue
        for v in LIT.get(T, [])[:2]:
            out.append(("set %s:%s = %s" % (n, T, v), ["set %s %s" % (n, v)]))
    return out


STMT_RULES = ["set-immutable-local", "set-parameter", "set-immutable-global", "set-unknown-var", "return-type",
              "match-undefined-variant"]
# positive controls for entries that bring their own statements: these must be ACCEPTED
STMT_CONTROLS = [("match-all-variants", ["let zs: Sh = Sh.Circle { r: 1 }", "match zs {", "    Circle(zc) => { set gmut zc.r }",
                                         "    Sq(zq) => { set gmut zq.s }", "}"]),
                 ("set-mutable-global", ["set gmut 5"]),
                 ("resource-create-consume", ["let zr: Res = (mk 3)", "(closer zr)"]),
                 ("resource-literal-consume", ["let zr: Res = Res { fd: 3 }", "(closer zr)"]),
                 ("extern-in-unsafe", ["let mut ze: int = 0", "unsafe {", "    set ze (labs 3)", "}"])]


# =========================================================================================================
#  import contexts (multi-file): state that leaks between modules through the shared Environment cannot be seen
#  by a single-file table.  The same violating site is placed in a main program that imports (ii) an ordinary
#  module, (iii) a module declaring extern functions, (iv) a wrapper module that itself has an `unsafe module`
#  import, and (v) inside an imported module while main is fine.  (i) "imports nothing" is the plain table.
#  Only rule/context pairs that are rejected in the single-file table are instantiated here.
# =========================================================================================================
ZM_PLAIN = '''# an ordinary module
pub fn zm_twice(a: int) -> int {
    return (* a 2)
}
'''
ZM_EXTERN = '''# raw FFI declarations (get_argc is provided by the runtime)
extern fn get_argc() -> int

pub fn zm_argc() -> int {
    let mut n: int = 0
    unsafe {
        set n (get_argc)
    }
    return n
}
'''
ZM_WRAP = '''# wrapper around the raw FFI module: note the *unsafe* import
unsafe module "zmextern.nano"

pub fn zm_count() -> int {
    return (zm_argc)
}
'''
IMPORT_CTX = {
    # name: (import line of main, a use of the imported function in main, files)
    "imports-plain": ('module "zmplain.nano"', "(println (zm_twice 21))", {"zmplain.nano": ZM_PLAIN}),
    "imports-extern-module": ('module "zmextern.nano"', "(println (>= (zm_argc) 0))", {"zmextern.nano": ZM_EXTERN}),
    "imports-unsafe-wrapper": ('module "zmwrap.nano"', "(println (>= (zm_count) 0))",
                               {"zmwrap.nano": ZM_WRAP, "zmextern.nano": ZM_EXTERN}),
}
IMPORT_CONTEXTS = list(IMPORT_CTX) + ["in-module"]

# (v): the template is the imported module; p.nano (IN_MODULE_MAIN) is well-formed.  The module gets a reduced
# prelude (what the IMPORT_PAIRS entries refer to): enum / union parameters inside a module trip over false
# diagnostics of the module type check, which would make the control fail.
MOD_PRELUDE = '''struct P { x: int, y: int }
extern fn labs(x: int) -> int
extern fn get_argc() -> int
let gimm: int = 11
let mut gmut: int = 12
fn i2i(a: int) -> int {
    return (+ a 1)
}
shadow i2i { assert (== (i2i 1) 2) }
fn i2b(a: int) -> bool {
    return (> a 0)
}
shadow i2b { assert (i2b 1) }
fn i2s(a: int) -> string {
    return (int_to_string a)
}
shadow i2s { assert (== (i2s 1) "1") }
'''
IN_MODULE = '''pub fn zm_work(a: int, s: string, t: bool) -> int {
    @@ fn-body ret=int par=a:int,s:string,t:bool
    let x: int = <<let:int|(+ a 1)>>
    let ok: bool = <<let:bool|(> a 2)>>
    let nm: string = <<let:string|(+ s "!")>>
    let mut y: int = 0
    let mut fg: bool = false
    set y <<set:int|(* x 2)>>
    set fg <<set:bool|(and ok t)>>
    @@ fn-body ret=int imm=x:int,ok:bool,nm:string par=a:int,s:string,t:bool
    if <<cond-if:bool|(> y 3)>> {
        @@ if-then ret=int imm=x:int,ok:bool par=a:int,t:bool
        set y (+ y 1)
    } else {
        @@ if-else ret=int imm=x:int,nm:string par=s:string
        set y (+ y 2)
    }
    let mut i: int = 0
    while <<cond-while:bool|(< i 3)>> {
        set i (+ i 1)
        @@ while-body ret=int imm=x:int,ok:bool par=a:int,s:string
        if (> i 6) {
            break
        }
    }
    for k in (range 0 2) {
        @@ for-body ret=int imm=x:int,nm:string par=t:bool
        set y (+ y k)
        if (> y 1) {
            @@ nested ret=int imm=x:int par=a:int
            set y (+ y 1)
        }
    }
    (println nm)
    if <<cond-if:bool|fg>> {
        return <<return:int|(+ x y)>>
    }
    return <<return:int|y>>
}
pub fn zm_flag(n: int) -> bool {
    @@ fn-body ret=bool par=n:int
    let lim: int = <<let:int|10>>
    let mut c: int = 0
    while <<cond-while:bool|(< c n)>> {
        set c <<set:int|(+ c 1)>>
        if (> c 5) {
            break
        }
    }
    @@ fn-body ret=bool imm=lim:int par=n:int
    return <<return:bool|(< c lim)>>
}
pub fn zm_name(n: int) -> string {
    let base: string = <<let:string|(i2s n)>>
    @@ fn-body ret=string imm=base:string par=n:int
    return <<return:string|(+ base "#")>>
}
'''
IN_MODULE_MAIN = '''module "zmod.nano"

fn main() -> int {
    (println "%MARKER%")
    (println (zm_work 3 "ab" true))
    (println (zm_flag 4))
    (println (zm_name 7))
    return 0
}
shadow main { assert (== (main) 0) }
'''
# rule/context pairs that get an import dimension (all of them are rejected by all tools in a single file)
IMPORT_PAIRS = [("extern-outside-unsafe", "expr-stmt"),
                ("set-immutable-local", "fn-body"), ("set-immutable-local", "while-body"), ("set-parameter", "fn-body"),
                ("set-parameter", "if-then"), ("set-immutable-global", "fn-body"), ("set-unknown-var", "fn-body"),
                ("type-mismatch", "let"), ("type-mismatch", "set"), ("type-mismatch", "return"), ("return-type", "fn-body"),
                ("type-mismatch", "cond-if"), ("type-mismatch", "cond-while"),
                ("unknown-var", "let"), ("unknown-var", "return"), ("unknown-var", "cond-if"), ("unknown-fn", "let"),
                ("unknown-fn", "set")]


def import_bases(hand):
    """the hand-written bases once per import context (ii)-(iv), and the module template (v)"""
    out = []
    for ic, (line, use, files) in IMPORT_CTX.items():
        for name, body in hand:
            marker_line = '    (println "%MARKER%")\n'
            assert body.count(marker_line) == 1
            body2 = line + "\n" + body.replace(marker_line, marker_line + "    " + use + "\n")
            out.append(Base("%s+%s" % (name, ic), body2, extra_files=dict(files), imp=ic))
    out.append(Base("zmod", IN_MODULE, prelude=MOD_PRELUDE, extra_files={"p.nano": IN_MODULE_MAIN.replace("%MARKER%", MARKER)},
                    imp="in-module", target="zmod.nano"))
    return out


# =========================================================================================================
#  generated bases: missing-return shapes (b6) and nlv.gen programs with holes located in their AST
# =========================================================================================================
RT = {"int": ("1", "2", "(+ a 3)"), "bool": ("true", "false", "(> a 3)"), "string": ('"p"', '"q"', "(i2s a)"),
      "float": ("1.5", "2.5", "(i2f a)"), "P": ("P { x: 1, y: 1 }", "P { x: 2, y: 2 }", "(i2p a)"),
      "Color": ("Color.Red", "Color.Green", "Color.Blue")}
RET_SHAPES = ["only", "after-if", "then-branch", "else-branch", "nested-else", "after-while", "after-for"]


def returns_base(extra_prefix):
    """one function per (shape, return type); the marked `return` is the only one on its path"""
    fns, calls = [], []
    for shape in RET_SHAPES:
        for T, (v1, v2, v3) in RT.items():
            name = "r_%s_%s%s" % (shape.replace("-", "_"), T.lower(), "x" if extra_prefix else "")
            b = ["fn %s(a: int) -> %s {" % (name, T)]
            if extra_prefix:
                b += ["    let w: int = (* a 2)", "    if (> w 100) {", "        set gmut w", "    }"]
            tag = "@ret:%s@" % shape
            if shape == "only":
                b += ["    let z: int = (+ a 1)", "    set gmut z", tag + "    return " + v3]
            elif shape == "after-if":
                b += ["    if (> a 0) {", "        return " + v1, "    }", tag + "    return " + v2]
            elif shape == "then-branch":
                b += ["    if (> a 0) {", "        set gmut a", tag + "        return " + v1, "    } else {", "        return " + v2, "    }"]
            elif shape == "else-branch":
                b += ["    if (> a 0) {", "        return " + v1, "    } else {", "        set gmut a", tag + "        return " + v2, "    }"]
            elif shape == "nested-else":
                b += ["    if (> a 0) {", "        return " + v1, "    } else {", "        if (< a 0) {", "            return " + v2,
                      "        } else {", "            set gmut 0", tag + "            return " + v3, "        }", "    }"]
            elif shape == "after-while":
                b += ["    let mut i: int = 0", "    while (< i a) {", "        if (== i 3) {", "            return " + v1, "        }",
                      "        set i (+ i 1)", "    }", tag + "    return " + v2]
            elif shape == "after-for":
                b += ["    for i in (range 0 a) {", "        if (== i 3) {", "            return " + v1, "        }", "    }",
                      tag + "    return " + v2]
            b += ["}", "shadow %s { assert true }" % name]
            fns.append("\n".join(b))
            call = "(%s 1)" % name
            if T == "P":
                call = "(p2i %s)" % call
            elif T == "Color":
                call = "(c2i %s)" % call
            calls.append("    (println %s)" % call)
    main = ["fn main() -> int {", '    (println "%MARKER%")'] + calls + ["    return 0", "}", "shadow main { assert (== (main) 0) }"]
    return "\n".join(fns + main) + "\n"


def _simple_type(e, env, sigs):
    k = e[0]
    if k == "int":
        return "int"
    if k == "bool":
        return "bool"
    if k == "str":
        return "string"
    if k == "float":
        return "float"
    if k == "var":
        return env.get(e[1])
    if k == "bin":
        if e[1] in ("==", "!=", "<", "<=", ">", ">=", "and", "or"):
            return "bool"
        return _simple_type(e[2], env, sigs)
    if k == "un":
        return "bool" if e[1] == "not" else _simple_type(e[2], env, sigs)
    if k == "call":
        t = sigs.get(e[1])
        return t if isinstance(t, str) else None
    return None


def gen_template(prog):
    """nlv.gen Program -> Base with holes at let / set / return / if-condition / println-argument positions of the
    functions of its main module (static types come from the generator's own declarations)."""
    from ..gen import ast as A
    pr = A.Printer()
    sigs = {f.name: f.ret for f in prog.all_funcs()}
    sigs.update({"int_to_string": "string", "str_length": "int", "abs": "int", "str_concat": "string", "string_to_int": "int"})
    genv = {n: t for (n, t, mut, e) in prog.main.globals}
    count = [0]
    loop = [0]

    def wrap(ctx, T, e):
        txt = pr.e(e)
        if "<<" in txt or ">>" in txt or "\n" in txt:
            return e
        count[0] += 1
        return ("var", "<<%s:%s|%s>>" % (ctx, T, txt))

    def tx_if(s, fn, env, nowrap):
        c = s[1] if nowrap else wrap("cond-if", "bool", s[1])
        then = tx_block(s[2], fn, env)
        els = s[3]
        if els is not None:
            if len(els) == 1 and els[0][0] == "if" and els[0][-1] != "noelif":
                els = [tx_if(els[0], fn, env, True)]      # printed as `} else if c {`: nothing can be inserted in front
            else:
                els = tx_block(els, fn, env)
        return ("if", c, then, els) + tuple(s[4:])

    def tx_block(stmts, fn, env):
        out = []
        for s in stmts:
            k = s[0]
            if k == "let":
                if isinstance(s[2], str):
                    env[s[1]] = s[2]
                # loop counters (c<N>) stay intact: a mutant that is accepted must still terminate
                if s[2] in SIMPLE and not re.match(r"c\d+$", s[1]):
                    s = ("let", s[1], s[2], s[3], wrap("let", s[2], s[4]))
            elif k == "set":
                T = env.get(s[1])
                if T in SIMPLE and not loop[0] and not re.match(r"c\d+$", s[1]):
                    s = ("set", s[1], wrap("set", T, s[2]))
            elif k == "return":
                if s[1] is not None and fn.ret in SIMPLE:
                    s = ("return", wrap("return", fn.ret, s[1]))
            elif k == "if":
                s = tx_if(s, fn, env, False)
            elif k == "while":
                loop[0] += 1
                s = ("while", s[1], tx_block(s[2], fn, env))
                loop[0] -= 1
            elif k == "for":
                env[s[1]] = "int"
                s = ("for", s[1], s[2], s[3], tx_block(s[4], fn, env))
            elif k == "match":
                s = ("match", s[1], [(v, b, tx_block(body, fn, env)) for v, b, body in s[2]])
            elif k == "print" and s[2]:
                T = _simple_type(s[1], env, sigs)
                if T in SIMPLE:
                    s = ("print", wrap("arg-println", T, s[1]), s[2])
            out.append(s)
        return out

    saved = []
    try:
        for fn in prog.main.funcs:
            saved.append((fn, fn.body))
            env = dict(genv)
            env.update({n: t for n, t in fn.params if isinstance(t, str)})
            body = tx_block(fn.body, fn, env)
            if fn.name == "main":
                body = [("print", ("str", MARKER), True)] + body
            fn.body = body
        text = prog.main.text(pr)
    finally:
        for fn, body in saved:
            fn.body = body
    extra = {m.name + ".nano": m.text(pr) for m in prog.modules}
    return text, extra, count[0]


# =========================================================================================================
#  running one program on the three tools and classifying what was observed
# =========================================================================================================
from .. import build
from ..core import Inconclusive
from ..run import run as sh, pmap, Scratch

LEVEL = "fault_enumeration"
TOOLS = ["nanoc", "virt-run", "virt-emit"]
CMD = {"nanoc": "nanoc p.nano -o t.bin", "virt-run": "nano_virt p.nano --run", "virt-emit": "nano_virt p.nano --emit-nvm -o t.nvm"}
ARTIFACT = {"nanoc": "t.bin", "virt-run": None, "virt-emit": "t.nvm"}
GOOD = {"rejected", "rejected-late-by-cc", "diagnosed-rejected-by-cc"}
BAD = {"diagnosed-but-built", "silently-built", "rejected-without-diagnostic", "crashed-without-diagnostic"}
LETTER = {"rejected": "R", "rejected-late-by-cc": "C", "diagnosed-rejected-by-cc": "c", "diagnosed-but-built": "D",
          "silently-built": "S", "rejected-without-diagnostic": "N", "crashed-without-diagnostic": "X",
          "crashed-after-diagnostic": "x", "inconclusive": "?"}

# lines that come from the C compiler, not from the tool itself
GCC_LINE = re.compile(r"^(\S+\.[ch]:\d+|\S+\.[ch]: |cc1:|In file included|\s+from |\s*\d*\s*\||\s*\^|collect2:|/usr/bin/ld|gcc:|\S*fastcc)")


class Obs:
    __slots__ = ("tool", "cls", "stage", "rc", "sig", "artifact", "marker", "diag", "ccdiag", "out", "err")


def own_diag_lines(text):
    """diagnostic lines printed by the tool itself (warnings, C compiler output and the bare 'C compilation failed' removed)"""
    out = []
    for l in text.splitlines():
        s = l.strip()
        if not s or s.startswith("Warning") or s.startswith("[ffi_loader]"):
            continue
        if GCC_LINE.match(l) or s == "C compilation failed":
            continue
        if not re.search(r"[A-Za-z]{3}", s):
            continue
        out.append(s)
    return out


def stage_of(tool, text):
    if tool == "nanoc":
        for pat, st in (("Lexing failed", "lex"), ("Parsing failed", "parse"), ("Module loading failed", "import"),
                        ("Type checking failed", "typecheck"), ("Shadow tests failed", "shadow"), ("Transpilation failed", "transpile"),
                        ("C compilation failed", "cc")):
            if pat in text:
                return st
        return "other"
    for pat, st in (("lexer failed", "lex"), ("parser failed", "parse"), ("module loading failed", "import"),
                    ("type check failed", "typecheck"), ("codegen failed", "codegen"), ("verification failed", "verify"),
                    ("runtime error", "runtime")):
        if pat in text:
            return st
    return "other"


def run_tool(fl, tool, d):
    art = ARTIFACT[tool]
    if art:
        try:
            os.unlink(os.path.join(d, art))
        except OSError:
            pass
    for attempt in (0, 1):
        if tool == "nanoc":
            r = sh([fl.nanoc, "p.nano", "-o", "t.bin"], cwd=d, env=fl.fastcc_env({"TMPDIR": d}), cpu=40, wall=600)
        elif tool == "virt-run":
            r = sh([fl.nano_virt, "p.nano", "--run"], cwd=d, env={"NLVERIF_FUEL": "20000000"}, cpu=20, wall=400)
        else:
            r = sh([fl.nano_virt, "p.nano", "--emit-nvm", "-o", "t.nvm"], cwd=d, cpu=20, wall=400)
        if not (r.timeout or r.cpu_exceeded):
            break
    o = Obs()
    o.tool = tool
    o.rc, o.sig = r.rc, r.sig
    o.out, o.err = r.text(), r.errtext()
    o.artifact = bool(art) and os.path.exists(os.path.join(d, art))
    o.marker = MARKER in o.out
    text = o.err + ("\n" + o.out if tool != "virt-run" else "")
    o.diag = own_diag_lines(text)
    if tool == "virt-run":
        # what the VM says once the program is running (incl. the fuel hook) is not a diagnostic about the program text
        o.diag = [l for l in o.diag if not l.startswith("runtime error:")]
    o.ccdiag = bool(re.search(r"\berror\b", "\n".join(l for l in o.err.splitlines() if GCC_LINE.match(l)))) or "C compilation failed" in o.err
    o.stage = stage_of(tool, o.err + o.out)
    if r.timeout or r.cpu_exceeded:
        o.cls = "inconclusive"
    elif o.artifact or o.marker or r.status == 0:
        o.cls = "diagnosed-but-built" if o.diag else "silently-built"
        o.stage = "accepted"
    elif r.sig:
        o.cls = "crashed-after-diagnostic" if o.diag else "crashed-without-diagnostic"
    elif tool == "nanoc" and o.stage == "cc":
        o.cls = "diagnosed-rejected-by-cc" if o.diag else "rejected-late-by-cc"
    elif o.diag:
        o.cls = "rejected"
    else:
        o.cls = "rejected-without-diagnostic"
    return o


def write_files(d, files):
    os.makedirs(d, exist_ok=True)
    for fn, text in files.items():
        with open(os.path.join(d, fn), "w") as f:
            f.write(text)


class Mutant:
    """one site: (rule, context) instantiated at (base, place) with one catalogue variant"""
    __slots__ = ("rule", "context", "base", "mut", "variant", "where", "line", "obs", "n", "ctl")


def mutated_line(base, mut):
    """the line(s) of the mutant that differ from the base (for reports)"""
    a = base.render().split("\n")
    b = base.render(mut).split("\n")
    i = 0
    while i < min(len(a), len(b)) and a[i] == b[i]:
        i += 1
    j = 0
    while j < min(len(a), len(b)) - i and a[-1 - j] == b[-1 - j]:
        j += 1
    new = b[i:len(b) - j]
    old = a[i:len(a) - j]
    return i + 1, [x.strip() for x in new], [x.strip() for x in old]


# =========================================================================================================
#  the cell table
# =========================================================================================================
def build_cells(bases, nsites, rng_for):
    """-> (cells {(rule, context): [Mutant]}, table description).  Sites are spread over bases and places first,
    over catalogue variants second."""
    cells = {}
    n_candidates = {}

    def pick(rule, context, cands):
        # cands: [(base, place_key, where, [(variant, mut)])]
        r = rng_for(rule, context)
        cands = [c for c in cands if c[3]]
        n_candidates[(rule, context)] = sum(len(c[3]) for c in cands)
        if not cands:
            return
        r.shuffle(cands)
        # interleave bases so that the first sites come from different base programs
        by_base = {}
        for c in cands:
            by_base.setdefault(c[0].name, []).append(c)
        order = []
        names = sorted(by_base)
        r.shuffle(names)
        while any(by_base.values()):
            for nm in names:
                if by_base[nm]:
                    order.append(by_base[nm].pop())
        chosen = []
        used = set()
        progress = True
        while len(chosen) < nsites and progress:
            progress = False
            for base, pk, where, vs in order:
                avail = [v for v in vs if (base.name, pk, v[0]) not in used]
                if not avail:
                    continue
                # prefer variants not yet used anywhere in this cell
                fresh = [v for v in avail if v[0] not in {u[2] for u in used}] or avail
                v = r.choice(fresh)
                used.add((base.name, pk, v[0]))
                m = Mutant()
                m.rule, m.context, m.base, m.mut, m.variant, m.where = rule, context, base, v[1], v[0], where
                m.ctl = v[2] if len(v) > 2 else None      # the same change without the offending part: must be ACCEPTED
                m.obs = None
                chosen.append(m)
                progress = True
                if len(chosen) >= nsites:
                    break
        cells[(rule, context)] = chosen

    all_bases = bases
    bases = [b for b in all_bases if b.imp is None]
    expr_fn = dict(EXPR_RULES)

    def expr_cands(rule, context, bs):
        fn = expr_fn[rule]
        cands = []
        for b in bs:
            if context == "expr-stmt":
                vs0 = expr_variants(rule, fn, context, None, None)
                for pt in b.points:
                    if pt.blockctx not in CLASSIC_STMT_CONTEXTS:
                        continue
                    cands.append((b, "p%d" % pt.idx, "stmt point %d (%s)" % (pt.idx, pt.blockctx),
                                  [(vn, ("stmt", pt.idx, list(pre) + [e])) for vn, pre, e in vs0]))
            else:
                for h in b.holes:
                    if h.ctx != context:
                        continue
                    vs = expr_variants(rule, fn, context, h.T, h.default)
                    cands.append((b, "h%d" % h.idx, "hole %d (%s:%s)" % (h.idx, h.ctx, h.T),
                                  [(vn, ("hole", h.idx, list(pre), e)) for vn, pre, e in vs]))
        return cands

    def stmt_cands(rule, context, bs):
        cands = []
        for b in bs:
            for pt in b.points:
                if pt.blockctx == context:
                    cands.append((b, "p%d" % pt.idx, "stmt point %d (%s)" % (pt.idx, pt.blockctx),
                                  [(vn, ("stmt", pt.idx, lines)) for vn, lines in stmt_variants(rule, pt)]))
        return cands

    for rule, fn in EXPR_RULES:
        for context in EXPR_CONTEXTS:
            pick(rule, context, expr_cands(rule, context, bases))
    for rule in STMT_RULES:
        for context in STMT_CONTEXTS:
            if rule == "match-undefined-variant" and context in ("shadow-body", "closure-body", "match-arm"):
                continue
            pick(rule, context, stmt_cands(rule, context, bases))
    for rule in NEW_CONTEXT_RULES:
        for context in NEW_EXPR_CONTEXTS:
            pick(rule, context, expr_cands(rule, context, bases))
    for kind in BINDING_KINDS:
        for cls in ("int", "string", "bool", "float", "arr", "P", "Sh", "Color", "tup", "fn", "payload"):
            for rule in ("set-immutable-binding", "binding-used-at-wrong-type"):
                for co in COINCIDENCES:
                    cands = []
                    for b in bases:
                        if b.kind != "hand":
                            continue
                        for pt in b.points:
                            if pt.blockctx == "shadow-body":
                                continue
                            cands.append((b, "p%d" % pt.idx, "stmt point %d (%s)" % (pt.idx, pt.blockctx),
                                          binding_sites(rule, kind, cls, co, pt)))
                    pick(rule, "%s:%s%s" % (kind, cls, "+" + co if co else ""), cands)
    # out-of-scope use where the declaring block is left by return / break / continue (the `for` variable itself is not
    # used: only names declared INSIDE the block)
    for hctx in SCOPE_EXIT_CONTEXTS:
        for xk in SCOPE_EXIT_KINDS:
            cands = []
            for b in bases:
                if b.kind != "hand":
                    continue
                for h in b.holes:
                    if h.ctx != hctx:
                        continue
                    pre = scope_exit_variants(h.T, b.ret_type_at(h.line)).get(xk)
                    if pre:
                        cands.append((b, "h%d" % h.idx, "hole %d (%s:%s)" % (h.idx, h.ctx, h.T),
                                      [(xk, ("hole", h.idx, list(pre), "zblk"), ("hole", h.idx, list(pre), h.default))]))
            pick("scope-after-exiting-block", "%s~%s" % (hctx, xk), cands)
    # import dimension: context names are "<context>+<import context>"
    for ic in IMPORT_CONTEXTS:
        bs = [b for b in all_bases if b.imp == ic]
        if not bs:
            continue
        for rule, context in IMPORT_PAIRS:
            cands = stmt_cands(rule, context, bs) if rule in STMT_RULES else expr_cands(rule, context, bs)
            if rule == "extern-outside-unsafe" and ic == "in-module":
                pass        # the module's prelude declares labs itself: same entry
            pick(rule, context + "+" + ic, cands)
    for shape in RET_SHAPES:
        cands = []
        for b in bases:
            for rl in b.rets:
                if rl.shape == shape:
                    cands.append((b, "r%d" % rl.idx, "return line %d" % rl.idx, [("delete the return", ("ret", rl.idx))]))
        pick("missing-return", shape, cands)
    return cells, n_candidates


def control_mutants(bases):
    """programs that must be ACCEPTED: every base unmutated, and the statements that catalogue entries bring along
    (`pre`) without the offending expression."""
    out = []
    for b in bases:
        out.append(("base:" + b.name, b, None))
    hb = [b for b in bases if b.kind == "hand" and b.points and b.imp is None]
    pres = {}
    for rule, fn in EXPR_RULES:
        for T in ("int", "bool", "string", "float", "P", "void", "Color", "Sh"):
            for vn, pre, e in fn(T, None):
                if pre:
                    pres.setdefault(tuple(pre), "%s/%s" % (rule, vn))
    k = 0
    for pre, name in sorted(pres.items(), key=lambda kv: kv[1]):
        b = hb[k % len(hb)]
        pt = b.points[k % len(b.points)]
        out.append(("pre:" + name, b, ("stmt", pt.idx, list(pre))))
        k += 1
    for name, lines in STMT_CONTROLS:
        b = hb[k % len(hb)]
        pt = b.points[k % len(b.points)]
        out.append(("stmt:" + name, b, ("stmt", pt.idx, lines)))
        k += 1
    return out


# =========================================================================================================
#  the check
# =========================================================================================================
def make_bases(ctx):
    bases = [Base(n, t) for n, t in HAND_BASES]
    bases.append(Base("b6", returns_base(False)))
    bases.append(Base("b8", B8))
    bases.append(Base("b9", B9, tools=["virt-run", "virt-emit"]))
    bases += import_bases(HAND_BASES)
    if os.environ.get("NLV_C05_ALL"):
        bases.append(Base("b7", returns_base(True)))
        return bases
    if not ctx.quick():
        bases.append(Base("b7", returns_base(True)))
        from .. import sweep
        want = 24
        batch = sweep.gen_batch(ctx, want, {"exit_codes": False}, 1.0, label="c05base")
        for i, prog, exp in batch:
            text, extra, nholes = gen_template(prog)
            if nholes >= 10:
                bases.append(Base("g%02d" % i, text, extra_files=extra, kind="gen"))
    return bases


def run(ctx):
    fl = build.get("plain")
    nsites = ctx.n(3, 12)
    if os.environ.get("NLV_C05_ALL"):        # development: every candidate site (used to generate findings/C05/known.json)
        nsites = 10 ** 9
    bases = make_bases(ctx)
    with Scratch("c05") as sc:
        # ---- controls: everything the mutants are derived from is accepted, built and run --------------------
        def do_control(item):
            i, (name, b, mut) = item
            d = sc.sub("ctl/%03d" % i)
            write_files(d, b.files(mut))
            obs = [run_tool(fl, t, d) if t in b.tools else None for t in TOOLS]
            native = None
            if obs[0] is not None and obs[0].artifact:
                native = sh([os.path.join(d, "t.bin")], cwd=d, cpu=20)
            return name, b, mut, obs, native

        def accepted(b, obs, native):
            # accepted = no diagnostic, exit 0 (a generated program may end with an exit status of its own under --run),
            # both output files written, the marker printed by the VM and by the native binary
            return (all(o.cls == "silently-built" and not o.sig for o in obs if o) and obs[2].rc == 0
                    and (obs[1].rc == 0 or b.kind == "gen") and obs[2].artifact and obs[1].marker
                    and (obs[0] is None or (obs[0].rc == 0 and obs[0].artifact and native is not None and MARKER in native.text())))

        def why_not(obs):
            return "; ".join("%s: %s rc=%s %s" % (o.tool, o.cls, o.rc, (o.diag or [""])[0][:100]) for o in obs if o)

        # 1. the bases themselves.  A base that the tree under test does not accept (a seeded or real regression can make a
        #    well-formed base fail) is left out, counted and reported; the others go on.
        n_ctl = 0
        ctl_id = [0]

        def run_controls(items):
            base_i = ctl_id[0]
            ctl_id[0] += len(items)
            return pmap(do_control, [(base_i + i, it) for i, it in enumerate(items)])

        good_bases, dropped, bases_not_accepted = [], [], []
        for name, b, mut, obs, native in run_controls([("base:" + b.name, b, None) for b in bases]):
            n_ctl += 1
            if accepted(b, obs, native):
                good_bases.append(b)
            elif b.kind == "gen":
                dropped.append(b.name + " (" + why_not(obs)[:160] + ")")     # a generated program outside the engines' clean zone
            else:
                bases_not_accepted.append({"base": b.name, "why": why_not(obs)[:300]})
        if dropped:
            ctx.note("generated bases not accepted unmutated (dropped): " + ", ".join(dropped)[:600])
        if bases_not_accepted:
            ctx.note("hand-written bases NOT ACCEPTED by the tree under test (left out): " +
                     "; ".join("%s [%s]" % (x["base"], x["why"][:140]) for x in bases_not_accepted)[:900])
        n_hand = len([b for b in bases if b.kind == "hand"])
        n_hand_ok = len([b for b in good_bases if b.kind == "hand"])
        core_ok = [b.name for b in good_bases if b.name in ("b1", "b2", "b3", "b4", "b5")]
        ctx.require(len(core_ok) >= 3 and n_hand_ok >= 0.6 * n_hand,
                    "too few base programs are accepted by the tree under test (%d of %d hand-written; core: %s): %s" % (
                        n_hand_ok, n_hand, core_ok, bases_not_accepted[:4]))
        bases = good_bases
        # 2. the statements that catalogue entries bring along, on accepted bases
        controls_not_accepted = []
        for name, b, mut, obs, native in run_controls([c for c in control_mutants(bases) if c[2] is not None]):
            n_ctl += 1
            if not accepted(b, obs, native):
                controls_not_accepted.append({"control": name, "base": b.name, "why": why_not(obs)[:300]})
        if controls_not_accepted:
            ctx.note("catalogue controls NOT ACCEPTED: " + "; ".join("%s on %s [%s]" % (x["control"], x["base"], x["why"][:120])
                                                                      for x in controls_not_accepted)[:900])
        ctx.require(len(controls_not_accepted) <= 3, "catalogue controls are not accepted: %s" % controls_not_accepted[:5])

        # ---- the table ---------------------------------------------------------------------------------------
        cells, ncand = build_cells(bases, nsites, lambda *a: ctx.rng("cell", *a))
        if os.environ.get("NLV_C05_RULES"):      # development: only these rules (the size requirements below will not hold)
            only = set(os.environ["NLV_C05_RULES"].split(","))
            cells = {k: v for k, v in cells.items() if k[0] in only}
        # 3. twin controls: the same change without its offending part (an earlier same-name declaration, a block left by
        #    return/break/continue ...) must be accepted; sites whose twin is not accepted are left out
        twins = {}
        for k in cells:
            for m in cells[k]:
                if m.ctl is not None:
                    twins.setdefault((m.base.name, repr(m.ctl)), (m.base, m.ctl))
        twin_ok = {}
        tw_items = [("twin:%s" % k[0], b, c) for k, (b, c) in sorted(twins.items())]
        for (name, b, mut, obs, native), k in zip(run_controls(tw_items), sorted(twins)):
            n_ctl += 1
            twin_ok[k] = accepted(b, obs, native)
            if not twin_ok[k] and len(controls_not_accepted) < 40:
                ln, new, old = mutated_line(b, mut)
                controls_not_accepted.append({"control": "twin", "base": b.name, "change": " // ".join(new)[:160], "why": why_not(obs)[:200]})
        n_sites_dropped = 0
        for k in cells:
            keep = [m for m in cells[k] if m.ctl is None or twin_ok[(m.base.name, repr(m.ctl))]]
            n_sites_dropped += len(cells[k]) - len(keep)
            cells[k] = keep
        if n_sites_dropped:
            ctx.note("%d sites left out because their twin control (same change without the violation) is not accepted" % n_sites_dropped)
        mutants = [m for k in sorted(cells) for m in cells[k]]
        for i, m in enumerate(mutants):
            m.n = i

        def do_mutant(m):
            d = sc.sub("m/%05d" % m.n)
            write_files(d, m.base.files(m.mut))
            m.obs = [run_tool(fl, t, d) if t in m.base.tools else None for t in TOOLS]
            # evidence only: did nanoc run the shadow tests (compile-time execution) of a program it later rejected?
            return m

        pmap(do_mutant, mutants)

        # ---- verdicts ----------------------------------------------------------------------------------------
        table = {}           # rule -> context -> "nanoc virt-run virt-emit" letters
        class_hist = {t: {} for t in TOOLS}
        stage_hist = {t: {} for t in TOOLS}
        cell_hist = {"all-sites-rejected": 0, "some-site-not-rejected": 0}
        executed_cells = set()
        n_runs = 0
        n_inconcl = 0
        parse_errors = []
        samples = []
        diag_samples = {}
        for (rule, context), ms in sorted(cells.items()):
            row = []
            for ti, tool in enumerate(TOOLS):
                classes = {}
                for m in ms:
                    o = m.obs[ti]
                    if o is None:
                        continue
                    n_runs += 1
                    if o.cls == "inconclusive":
                        n_inconcl += 1
                        continue
                    if o.stage in ("parse", "lex"):
                        parse_errors.append((rule, context, m.variant, m.base.name))
                    classes.setdefault(o.cls, []).append(m)
                    class_hist[tool][o.cls] = class_hist[tool].get(o.cls, 0) + 1
                    stage_hist[tool][o.stage] = stage_hist[tool].get(o.stage, 0) + 1
                if classes:
                    executed_cells.add((rule, context, tool))
                    cell_hist["all-sites-rejected" if all(c in GOOD for c in classes) else "some-site-not-rejected"] += 1
                row.append("/".join(sorted(LETTER[c] for c in classes)) or ("-" if all(m.obs[ti] is None for m in ms) else "?"))
                for cls, cms in sorted(classes.items()):
                    if cls not in BAD and cls != "crashed-after-diagnostic":
                        continue
                    if cls == "crashed-after-diagnostic":
                        continue
                    m = cms[0]
                    o = m.obs[ti]
                    ln, new, old = mutated_line(m.base, m.mut)
                    key = "cell|%s|%s|%s|%s" % (rule, context, tool, cls)
                    what = ("rule '%s' violated in context '%s': `%s` %s (exit %s%s%s%s) at %d of %d sites; e.g. base %s line %d: `%s`%s%s" % (
                        rule, context, CMD[tool], cls, o.rc if not o.sig else "signal %d" % o.sig,
                        ", output file written" if o.artifact else "", ", program output on stdout" if o.marker else "",
                        ", diagnostic: " + o.diag[0][:90] if o.diag else ", no diagnostic",
                        len(cms), len(ms), m.base.name, ln, " // ".join(new)[:160],
                        " (was `%s`)" % " // ".join(old)[:100] if old else " (inserted)" if new else " (line `%s` deleted)" % "",
                        "" if new else " deleted: `%s`" % " // ".join(old)[:100]))
                    files = dict(("prog/" + k, v) for k, v in m.base.files(m.mut).items())
                    files.update({"cmd.txt": "cd prog && " + CMD[tool] + "\n# variant: %s; %s\n" % (m.variant, m.where),
                                  "stdout.txt": o.out[-4000:], "stderr.txt": o.err[-6000:]})
                    ctx.violation(key, what, files)
            table.setdefault(rule, {})[context] = " ".join(row)
            # samples of what the diagnostics say (to audit that rejections happen for the stated rule)
            for m in ms[:1]:
                o = m.obs[1]
                ln, new, old = mutated_line(m.base, m.mut)
                if rule not in diag_samples:
                    diag_samples[rule] = {"context": context, "mutant": " // ".join(new)[:140] or "deleted: " + " // ".join(old)[:100],
                                          "virt-run": o.cls, "diagnostic": (o.diag or ["-"])[0][:140]}
                if len(samples) < 12 and (len(samples) % 2 == 0) == (o.cls in GOOD):
                    samples.append({"cell": "%s|%s" % (rule, context), "base": m.base.name, "line": ln, "mutant": " // ".join(new)[:160],
                                    "outcomes": {t: m.obs[i].cls for i, t in enumerate(TOOLS) if m.obs[i]}})

        if os.environ.get("NLV_C05_DUMP"):
            import json
            with open(os.environ["NLV_C05_DUMP"], "w") as f:
                for m in mutants:
                    ln, new, old = mutated_line(m.base, m.mut)
                    json.dump({"rule": m.rule, "context": m.context, "base": m.base.name, "variant": m.variant, "where": m.where,
                               "mut": m.mut, "kind": m.base.kind, "line": ln,
                               "files": m.base.files(m.mut) if m.base.kind == "gen" and any(o.cls in BAD for o in m.obs if o) else None, "new": new, "old": old,
                               "obs": [{"tool": o.tool, "cls": o.cls, "stage": o.stage, "rc": o.rc, "sig": o.sig, "art": o.artifact,
                                        "marker": o.marker, "diag": o.diag[:3], "err": o.err[-600:]} for o in m.obs if o]}, f)
                    f.write("\n")
        ctx.require(not parse_errors, "catalogue entries that do not parse (a mutant must be ill-formed by a static rule, "
                    "not syntactically): %s" % parse_errors[:5])
        ctx.require(n_inconcl <= 0.02 * max(1, n_runs), "%d of %d runs hit the watchdog" % (n_inconcl, n_runs))
        n_cells_expected = len({(k, t) for k, v in cells.items() for m in v for t in m.base.tools})
        if not ctx.violations:
            ctx.require(len(executed_cells) == n_cells_expected, "only %d of %d cells have a conclusive site" % (len(executed_cells), n_cells_expected))
            ctx.require(len(executed_cells) >= 600, "cell table too small: %d" % len(executed_cells))
        short = sorted(k for k, v in cells.items() if 0 < len(v) < nsites)

        coverage = {
            "evaluations": n_runs,
            "distinct_nontrivial": len(executed_cells),
            "rule": "distinct (rule, context, tool) cells with >= 1 conclusive site (a site = one catalogue variant placed at one "
                    "slot of one base program; all sites of a cell differ in base/slot/variant by construction)",
            "exhaustive": True,
            "exhaustive_over": "the cell table: every (rule, context) pair for which the bases offer a type-correct slot, x 3 tools",
            "rules": len({r for r, c in cells if cells[(r, c)]}),
            "contexts": len({c for r, c in cells if cells[(r, c)]}),
            "rule_context_pairs": len([k for k, v in cells.items() if v]),
            "cells": len(executed_cells),
            "sites_per_cell": nsites,
            "cells_with_fewer_sites": {"%s|%s" % k: len(cells[k]) for k in short},
            "mutants": len(mutants),
            "bases": {"hand": [b.name for b in bases if b.kind == "hand"], "generated": len([b for b in bases if b.kind == "gen"])},
            "controls_accepted": n_ctl - len(dropped) - len(bases_not_accepted) - len(controls_not_accepted),
            "bases_not_accepted": bases_not_accepted,
            "controls_not_accepted": controls_not_accepted[:40],
            "sites_dropped_by_twin_control": n_sites_dropped,
            "class_histogram": class_hist,
            "stage_histogram": stage_hist,
            "cell_histogram": cell_hist,
            "legend": "per cell: outcome letters for nanoc, nano_virt --run, nano_virt --emit-nvm. " + ", ".join(
                "%s=%s" % (v, k) for k, v in LETTER.items()),
            "cell_table": table,
            "diagnostic_samples": diag_samples,
            "samples": samples,
            "inconclusive_runs": n_inconcl,
            # nanoc runs the shadow tests (compile-time execution in its interpreter) after the type check and before
            # transpiling: every rejection at stage shadow/transpile/cc happened AFTER code of the ill-formed program ran
            "nanoc_rejections_after_shadow_execution": sum(v for k, v in stage_hist["nanoc"].items() if k in ("shadow", "transpile", "cc")),
        }
        assumptions = [
            "A mutant is ill-formed by construction: each catalogue entry is a fixed expression/statement whose rule violation does "
            "not depend on where it is put (mixed-type operands only: int/string, int/bool, float/int; never same-type pairs such as "
            "string+string or string<string, never int where an enum is expected).",
            "Reading of 'reports a diagnostic': any error text shown to the user counts, including the C compiler's error text that "
            "nanoc passes through followed by 'C compilation failed' (class rejected-late-by-cc: exit non-zero, no file, no diagnostic "
            "of nanoc's own).  Such cells are NOT counted as violations; they are listed in the table (letter C, or c when nanoc also "
            "printed its own diagnostic but continued to the C compiler).  A rejection with no text at all would be a violation.",
            "'executes nothing' is observed through the marker that main prints first (nano_virt --run) and the -o file; nanoc's "
            "compile-time execution of shadow tests prints nothing without --verbose and is not counted.",
            "`(println (vd 1))` (void result used as a value) is taken as ill-formed: SPEC 3.1 'void: absence of value (return only)'; "
            "the native binary prints '<unknown>' and the VM prints 'void' for it.",
            "extern-outside-unsafe follows the property text / spec.json ('Must be called inside unsafe { } blocks') although "
            "SPECIFICATION.md 6.4 shows extern calls without unsafe.",
        ]
        return ctx.finish(coverage, assumptions)
