"""C09 - the front end is total: every input ends in acceptance or a diagnostic (DESIGN §4 C09).

Oracle: every input (a byte string written to a .nano file) is handed to the real `nano_virt s.nano --emit-nvm -o x.nvm`
twice, one process each: the `asan` build (ASan+UBSan, 1 GiB stack so that ASan's inflated frames cannot manufacture a
stack overflow) and the `plain` build (the Makefile's own flags, default 8 MiB stack: the configuration whose stack
overflows are real).  Refuting events: fatal signal, sanitizer report, exit status not in {0,1}, the H4 parser
no-progress abort (exit 98), CPU budget exceeded (confirmed by one re-run), RSS limit exhausted, exit 1 without any
diagnostic, exit 0 without an output file, and - for the depth generators - acceptance of syntactic nesting beyond the
parser's documented maximum depth.

Violation keys (seed independent cause classes):
  asan|<kind>|f1<f2<f3            ASan report: kind + innermost three in-repo functions (line numbers stripped)
  ubsan|<message class>|f1<f2<f3  UBSan report
  no-progress|<function>          H4 abort; <function> = the parser function whose loop never advances (found with gdb
                                  on the plain build: frames are finished one by one until one never returns)
  stack-overflow|<function(s)>    SIGSEGV of the plain build with the fault address at the stack pointer; the recursive
                                  function(s) dominating the innermost 64 frames
  signal|<SIG>|f1<f2<f3           any other fatal signal of the plain build
  exit|<status>|<flavor>          exit status outside {0,1}
  budget|cpu|...  budget|rss      resource budget exceeded
  exit1-no-diagnostic / accept-no-output
  depth-limit-not-enforced|<generator>
"""
import json
import math
import os
import re
import shutil
import signal
import sys
from concurrent.futures import ProcessPoolExecutor

from .. import build, corpus
from .. import mutate_src as ms
from ..run import run as sh, Scratch, NCPU

LEVEL = "exploration"

DEPTHS = (10, 100, 999, 1000, 1001, 5000, 100000)
DEPTHS_THOROUGH = (1, 2, 500, 990, 995, 998, 1002, 1005, 1500, 1999, 2000, 2001, 2500, 10000, 30000, 60000)
CPU = 10                       # seconds of CPU for inputs <= 64 KiB (DESIGN: median cost 5 ms)
PLAIN_AS_MB = 4096
NO_PROGRESS_TEXT = "VERIF: parser made no progress"

# ---------------------------------------------------------------------------------------------- gdb helper
GDB_SCRIPT = r'''
import gdb
gdb.execute("set pagination off")
gdb.execute("set confirm off")
def names(limit):
    out = []
    try:
        f = gdb.newest_frame()
        while f is not None and len(out) < limit:
            out.append(f.name() or "?")
            f = f.older()
    except gdb.error:
        pass
    return out
def outer(limit):
    """the outermost frames (main first)"""
    ring = []
    try:
        f = gdb.newest_frame()
        n = 0
        while f is not None and n < 400000:
            ring.append(f.name() or "?")
            if len(ring) > limit:
                ring.pop(0)
            f = f.older()
            n += 1
    except gdb.error:
        pass
    ring.reverse()
    return ring
def at_exit():
    try:
        return (gdb.newest_frame().name() or "").endswith("_exit")
    except gdb.error:
        return False
def alive():
    try:
        return gdb.selected_inferior().pid != 0
    except gdb.error:
        return False
def val(expr):
    try:
        return int(gdb.parse_and_eval(expr))
    except gdb.error:
        return -1
try:
    gdb.execute("break _exit")
    gdb.execute("handle SIGXCPU stop nopass")
    out = gdb.execute("run", to_string=True)
    if not alive():
        print("NLVGDB result=ended")
    elif at_exit():
        print("NLVGDB stop=exit status=%d" % val("$rdi"))
        print("NLVGDB stack=" + ",".join(names(40)))
        looper = None
        if val("$rdi") == 98:
            for step in range(6000):
                if at_exit():
                    # undo the call of _exit: pop the return address and resume behind the call; the code that
                    # follows in match() resets the monitor's counter (done explicitly as well)
                    gdb.execute("set $pc = *(void **)$sp")
                    gdb.execute("set $sp = $sp + 8")
                    try:
                        gdb.execute("set {unsigned long}&g_verif_same_pos = 0")
                    except gdb.error:
                        pass
                cur = gdb.newest_frame().name() or "?"
                gdb.execute("finish", to_string=True)
                if not alive():
                    print("NLVGDB result=ended-while-finishing " + cur)
                    break
                if at_exit():
                    looper = cur
                    break
            if looper:
                print("NLVGDB looper=" + looper)
    else:
        print("NLVGDB stop=signal signo=%d" % val("$_siginfo.si_signo"))
        print("NLVGDB sp=%d fault=%d" % (val("$sp"), val("(unsigned long)$_siginfo._sifields._sigfault.si_addr")))
        print("NLVGDB stack=" + ",".join(names(64)))
        print("NLVGDB outer=" + ",".join(outer(8)))
except gdb.error as ex:
    print("NLVGDB error=" + str(ex).replace("\n", " "))
try:
    gdb.execute("kill")
except gdb.error:
    pass
'''

def _gdb(cfg, src, out, cpu, fast=False):
    """Run the plain build on `src` under gdb; -> dict(stop, signo, status, looper, stack, outer, sp, fault, raw).
    fast: skip reading debug info (enough to find the looping parser function; not enough to unwind out of libc)."""
    if not cfg["gdb"]:
        return None
    cmd = [cfg["gdb"], "-q", "-batch", "-nx"] + (["-readnever"] if fast else []) + [
           "-ex", "source " + cfg["gdbscript"], "--args", cfg["plain"], src, "--emit-nvm", "-o", out]
    r = sh(cmd, cwd=cfg["root"], env={"TMPDIR": cfg["tmp"]}, cpu=cpu, wall=max(120, 20 * cpu), stack_mb=8,
           max_out=96 << 20)
    txt = r.text() + "\n" + r.errtext()
    res = {"raw": "\n".join(l for l in txt.splitlines() if l.startswith("NLVGDB"))[:3000]}
    for line in txt.splitlines():
        if not line.startswith("NLVGDB "):
            continue
        for m in re.finditer(r"(\w+)=(\S+)", line[7:]):
            res.setdefault(m.group(1), m.group(2))
    for k in ("stack", "outer"):
        if k in res:
            res[k] = res[k].split(",")
    return res


def _phase(gd):
    """the front-end stage a stopped process was in: the in-repo function called from main"""
    o = (gd or {}).get("outer") or []
    while o and o[0] in ("_start", "__libc_start_main", "__libc_start_main_impl", "__libc_start_call_main", "?"):
        o = o[1:]
    if o and o[0] == "main":
        o = o[1:]
    return o[0] if o else "unclassified"


# functions called from main() after the front end (lexer, parser, imports, type checker) has accepted the program
BACK_END = {"codegen_compile", "nvm_serialize", "nvm_module_free", "wrapper_generate", "wrapper_generate_daemon",
            "vm_ffi_init", "vm_ffi_set_env", "vm_ffi_load_module", "vm_ffi_shutdown", "nvm_verify"}


def _distinct2(fs):
    """innermost function and the first different one above it (self-recursion collapsed).  In a recursive-descent
    parser the frames further out are input-shaped caller context, not part of the cause: one faulting line was seen
    under three different third frames in a single run."""
    out = []
    for f in fs:
        if not out or (f != out[-1] and len(out) < 2):
            out.append(f)
        if len(out) == 2:
            break
    return "<".join(out) or "?"


def _sig_gdb(stack, own):
    """signature of a gdb stack: in-repo functions only (symbols defined by the binary itself)"""
    fs = [f for f in stack if f in own]
    return _distinct2(fs)


def _recursive_fn(stack, own):
    """the function(s) that dominate the innermost frames of an overflowing stack"""
    cnt = {}
    for f in stack[:64]:
        if f not in own:
            continue
        cnt[f] = cnt.get(f, 0) + 1
    if not cnt:
        return "?"
    top = max(cnt.values())
    return "+".join(sorted(f for f, c in cnt.items() if c * 3 >= top))


# ---------------------------------------------------------------------------------------------- classification
ANSI = re.compile(r"\x1b\[[0-9;]*m")
ASAN_ERR = re.compile(r"ERROR: AddressSanitizer:? ([^\n]*)")
UBSAN_ERR = re.compile(r"^(\S+?):(\d+):(\d+): runtime error: ([^\n]*)", re.M)
FRAME = re.compile(r"^\s*#\d+ 0x[0-9a-f]+ in (\S+) (\S+)", re.M)


def _frames(report):
    """in-repo frames (function names) of a sanitizer stack trace, innermost first"""
    out = []
    first = True
    for m in FRAME.finditer(report):
        fn, loc = m.group(1), m.group(2)
        if loc.startswith("src/"):
            out.append(fn)
        # only the first stack of the report (the faulting one): stop at the first blank line after frames began
    return out


def _first_stack(report):
    lines = report.splitlines()
    out = []
    started = False
    for l in lines:
        if re.match(r"^\s*#\d+ 0x", l):
            started = True
            out.append(l)
        elif started:
            break
    return "\n".join(out)


def _asan_key(err):
    m = ASAN_ERR.search(err)
    if m:
        head = m.group(1).strip()
        kind = head.split(" on ")[0].split(" in ")[0].split(":")[0]
        kind = re.sub(r"0x[0-9a-f]+", "X", kind)
        kind = re.sub(r"\d+", "N", kind).strip()[:50].replace(" ", "-")
        if kind.startswith("attempting"):
            kind = "-".join(head.split()[:2])
        rep = err[m.start():]
        fr = _frames(_first_stack(rep))
        key = "asan|%s|%s" % (kind, _distinct2(fr))
        fm = re.search(r"\nfreed by thread [^\n]*\n((?:\s*#\d+ [^\n]*\n)+)", rep)
        if fm:
            ff = _frames(fm.group(1))
            key += "|freed-in:" + (_distinct2(ff))
        return kind, key, bool(set(fr) & BACK_END)
    m = UBSAN_ERR.search(err)
    if m:
        msg = re.sub(r"0x[0-9a-f]+", "X", m.group(4))
        msg = re.sub(r"-?\d+", "N", msg)
        msg = msg.split(" for type")[0].split(", which")[0]
        msg = re.sub(r"'[^']*'", "'T'", msg)[:60].strip().replace(" ", "-")
        fr = _frames(_first_stack(err[m.start():]))
        if not fr:
            fr = [os.path.basename(m.group(1))]
        return "ubsan", "ubsan|%s|%s" % (msg, _distinct2(fr)), bool(set(fr) & BACK_END)
    return None, None, False


def _diag_lines(r):
    txt = ANSI.sub("", r.errtext() + "\n" + r.text())
    out = []
    for l in txt.splitlines():
        s = l.strip()
        if not s:
            continue
        if s.startswith("==") and ("Sanitizer" in s or not s.strip("=")):
            continue
        if re.match(r"#\d+ 0x", s) or "runtime error:" in s:
            continue
        if s.startswith("VERIF") or s.startswith("NLVGDB") or s.startswith("AddressSanitizer") or s.startswith("UndefinedBehaviorSanitizer"):
            continue
        out.append(s)
    return out


def diag_class(r):
    """class of the first diagnostic line: numbers, quoted names and paths abstracted"""
    ls = _diag_lines(r)
    if not ls:
        return "-"
    s = ls[0]
    s = re.sub(r"'[^']*'", "'X'", s)
    s = re.sub(r"\"[^\"]*\"", "\"X\"", s)
    s = re.sub(r"/[\w./-]+", "PATH", s)
    s = re.sub(r"\d+", "N", s)
    s = re.sub(r"[^\x20-\x7e]", "?", s)
    return s[:90]


def _signame(n):
    try:
        return signal.Signals(n).name
    except ValueError:
        return "SIG%d" % n


def _run_flavor(cfg, flavor, src, out, cpu, asan_stack_mb=1024):
    try:
        os.unlink(out)
    except OSError:
        pass
    if flavor == "asan":
        return sh([cfg["asan"], src, "--emit-nvm", "-o", out], cwd=cfg["root"], env={"TMPDIR": cfg["tmp"]},
                  san=True, cpu=cpu, stack_mb=asan_stack_mb, max_out=32 << 20)
    return sh([cfg["plain"], src, "--emit-nvm", "-o", out], cwd=cfg["root"], env={"TMPDIR": cfg["tmp"]},
              cpu=cpu, stack_mb=8, as_mb=PLAIN_AS_MB, max_out=32 << 20)


def _one_flavor(cfg, flavor, src, out, cpu, big, asan_stack_mb=1024):
    """-> (outcome class, provisional key or None, Result).  Outcome classes: accept diagnosed no-progress sanitizer
    stack-overflow signal exit-other budget-cpu budget-rss exit1-silent accept-no-output watchdog large-input-over-budget"""
    r = _run_flavor(cfg, flavor, src, out, cpu, asan_stack_mb)
    if r.timeout:
        r = _run_flavor(cfg, flavor, src, out, cpu, asan_stack_mb)
        if r.timeout:
            return "watchdog", None, r
    err = r.errtext()
    if "hard rss limit exhausted" in err.lower():
        return "budget-rss", "budget|rss", r
    if r.rc == 98 or NO_PROGRESS_TEXT in err[-4000:]:
        return "no-progress", "no-progress|?", r
    if flavor == "asan":
        kind, key, backend = _asan_key(err)
        if kind == "stack-overflow":
            return "stack-overflow", None, r          # only believed if the plain build overflows as well
        if key:
            return ("backend-sanitizer" if backend else "sanitizer"), key, r
    if r.cpu_exceeded:
        if big:
            return "large-input-over-budget", None, r  # the time budget is only defined for inputs <= 64 KiB
        return "budget-cpu", "budget|cpu|?", r         # still to be confirmed by a re-run (caller)
    if r.sig:
        return "signal", "signal|%s|?" % _signame(r.sig), r
    if r.rc not in (0, 1):
        return "exit-other", "exit|%s|%s" % (r.rc, flavor), r
    if r.rc == 1:
        if not _diag_lines(r):
            return "exit1-silent", "exit1-no-diagnostic", r
        return "diagnosed", None, r
    try:
        ok = os.path.getsize(out) >= 32
    except OSError:
        ok = False
    if not ok:
        return "accept-no-output", "accept-no-output", r
    return "accept", None, r


def _flood(r):
    return (len(r.err) + len(r.out)) >= (1 << 20)


def oracle(cfg, data, want_reject=False, label="", extra=None):
    """Run one input through both builds.  -> record dict.  extra: sibling files {name: bytes} of a multi-file input."""
    src = os.path.join(cfg["work"], "i.nano")
    out = os.path.join(cfg["work"], "o.nvm")
    with open(src, "wb") as f:
        f.write(data)
    written = []
    for name, content in sorted((extra or {}).items()):
        if name == "i.nano" or "/" in name:
            continue
        with open(os.path.join(cfg["work"], name), "wb") as f:
            f.write(content)
        written.append(os.path.join(cfg["work"], name))
    try:
        return _oracle(cfg, data, src, out, want_reject, label)
    finally:
        for w in written:
            try:
                os.unlink(w)
            except OSError:
                pass


def _oracle(cfg, data, src, out, want_reject, label):
    big = len(data) > ms.MAX_INPUT
    cpu = 2 * CPU if big else CPU
    events = []          # (key, text): refute the property
    backend = []         # (key, text): crashes after the front end accepted (bytecode generator) - recorded, not C09
    gd = None
    # ------------------------------------------------------------------ plain build (real stack, real signals)
    op, kp, rp = _one_flavor(cfg, "plain", src, out, cpu, big)
    if op == "budget-cpu":
        # confirmation run under gdb: stopping at SIGXCPU again confirms, and tells the stage
        gd = _gdb(cfg, src, out, cpu)
        if gd is None:
            r2 = _run_flavor(cfg, "plain", src, out, cpu)
            confirmed = r2.cpu_exceeded
        else:
            confirmed = gd.get("stop") == "signal" and gd.get("signo") == str(int(signal.SIGXCPU))
        if confirmed:
            cause = "diagnostic-flood|" if _flood(rp) else ""
            ev = ("budget|cpu|%s%s" % (cause, _phase(gd) if gd else "unclassified"),
                  "plain build exceeds %d s of CPU twice on a %d byte input (%d bytes of diagnostics); stage: %s; innermost frames %s"
                  % (cpu, len(data), len(rp.err) + len(rp.out), _phase(gd), ",".join(((gd or {}).get("stack") or [])[:6])))
            (backend if _phase(gd) in BACK_END else events).append(ev)
        else:
            op, kp, rp = _one_flavor(cfg, "plain", src, out, cpu, big)
            if op == "budget-cpu":
                op, kp = "near-budget", None     # flapping around the budget: not believed
    elif op in ("no-progress", "signal"):
        gd = _gdb(cfg, src, out, cpu, fast=(op == "no-progress"))
    plain_signal = (op == "signal")
    if kp and op not in ("no-progress", "budget-cpu", "signal"):
        events.append((kp, "plain build: %s (rc=%s)" % (op, rp.rc)))
    # ------------------------------------------------------------------ asan build (memory errors, UB)
    if op == "budget-cpu":
        oa, ka, ra = "skipped", None, rp
    else:
        # when the plain build already died of unbounded recursion, a 1 GiB stack only makes the asan run slow
        pre_sp, pre_fault = int((gd or {}).get("sp", -1)), int((gd or {}).get("fault", -2))
        plain_overflow = plain_signal and rp.sig == signal.SIGSEGV and pre_sp > 0 and abs(pre_fault - pre_sp) < (1 << 20)
        oa, ka, ra = _one_flavor(cfg, "asan", src, out, cpu, big, 64 if plain_overflow else 1024)
        if oa == "budget-cpu" and plain_signal:
            # the plain build crashed on this input (reported below); how long the sanitizer build takes to get to the
            # same point is not a second finding
            oa, ka = "skipped-after-plain-crash", None
        if oa == "budget-cpu":
            r2 = _run_flavor(cfg, "asan", src, out, cpu)
            if r2.cpu_exceeded:
                cause = "diagnostic-flood|" if _flood(ra) else ""
                events.append(("budget|cpu|%sasan-only" % cause,
                               "asan build exceeds %d s of CPU twice on a %d byte input (plain build: %s)" % (cpu, len(data), op)))
            else:
                oa, ka, ra = _one_flavor(cfg, "asan", src, out, cpu, big)
                if oa == "budget-cpu":
                    oa, ka = "near-budget", None
        if oa == "sanitizer":
            events.append((ka, "sanitizer report (asan build)\n" + (ra.sanitizer_report() or "")[:2500]))
        elif oa == "backend-sanitizer":
            backend.append((ka, "sanitizer report in the bytecode generator (after the front end accepted the program)"))
        elif oa == "signal":
            events.append(("signal|%s|asan-build" % _signame(ra.sig), "asan build killed by %s without a report" % _signame(ra.sig)))
        elif ka and oa not in ("no-progress", "budget-cpu", "stack-overflow", "backend-sanitizer"):
            events.append((ka, "asan build: %s (rc=%s)" % (oa, ra.rc)))
    # ------------------------------------------------------------------ fatal signal of the plain build
    if plain_signal:
        st = (gd or {}).get("stack") or []
        sp, fault = int((gd or {}).get("sp", -1)), int((gd or {}).get("fault", -2))
        phase = _phase(gd)
        own = [f for f in st if f in cfg["own"]]
        if rp.sig == signal.SIGSEGV and own and sp > 0 and abs(fault - sp) < (1 << 20):
            fn = _recursive_fn(st, cfg["own"])
            op = "stack-overflow"
            ev = ("stack-overflow|" + fn,
                  "plain build (default 8 MiB stack) dies with SIGSEGV at the stack pointer: unbounded recursion in %s" % fn)
        elif own:
            ev = ("signal|%s|%s" % (_signame(rp.sig), _distinct2(own)),
                  "plain build killed by %s; innermost frames %s" % (_signame(rp.sig), ",".join(st[:8])))
        elif oa in ("sanitizer", "backend-sanitizer") and ka:
            # the stack of the plain build could not be unwound (crash inside libc's allocator): the asan build's
            # report of the same input names the site
            site = ka.split("|")[2] if ka.count("|") >= 2 else "?"
            ev = ("signal|%s|%s" % (_signame(rp.sig), site),
                  "plain build killed by %s (stack not unwindable); site taken from the asan report of the same input" % _signame(rp.sig))
            if oa == "backend-sanitizer":
                phase = "codegen_compile"
        else:
            ev = ("signal|%s|unclassified" % _signame(rp.sig), "plain build killed by %s; no usable stack" % _signame(rp.sig))
        if phase in BACK_END:
            op = "backend-" + op
            backend.append(ev)
        else:
            events.append(ev)
    # ------------------------------------------------------------------ parser no-progress monitor (either build)
    if "no-progress" in (oa, op):
        if (gd is None or "looper" not in gd) and cfg["gdb"]:
            gd = _gdb(cfg, src, out, cpu, fast=True)
        looper = (gd or {}).get("looper")
        if gd is None:
            looper = "unclassified"
        elif not looper:
            looper = "not-reproduced-under-gdb"
        events.insert(0, ("no-progress|" + looper,
                          "parser made no progress (H4 abort, exit 98); the loop that never advances is in %s()" % looper))
    # ------------------------------------------------------------------ nesting beyond the documented limit
    if want_reject:
        for fl, o in (("asan", oa), ("plain", op)):
            if o == "accept" or o.startswith("backend-"):
                events.append(("depth-limit-not-enforced|" + label,
                               "nesting beyond the documented maximum depth was accepted (exit 0, %s build)" % fl))
                break
    seen = set()
    ev = []
    for k, t in events:
        if k not in seen:
            seen.add(k)
            ev.append((k, t))
    if ev:
        outcome = ev[0][0].split("|")[0]
    elif backend:
        outcome = "accept+backend-crash"
    elif "watchdog" in (oa, op):
        outcome = "watchdog"
    elif oa in ("accept", "diagnosed"):
        outcome = oa
    else:
        outcome = op if oa in ("skipped", "stack-overflow") else oa
    both = ("accept", "diagnosed")
    rec = {"outcome": outcome, "asan": oa, "plain": op, "diag": diag_class(ra if oa != "skipped" else rp), "events": ev,
           "backend": [k for k, _t in backend],
           "agree": (oa == op) or oa not in both or op not in both}
    if ev:
        rec["detail"] = {
            "asan.stderr.txt": ra.errtext()[-6000:], "plain.stderr.txt": rp.errtext()[-3000:],
            "status.txt": "asan: %s rc=%s sig=%s  plain: %s rc=%s sig=%s\n%s" % (oa, ra.rc, ra.sig, op, rp.rc, rp.sig, (gd or {}).get("raw", "")),
        }
    return rec


# ---------------------------------------------------------------------------------------------- workers
_SEEDCACHE = {}


def _seed(cfg, i):
    if i not in _SEEDCACHE:
        name, path, data, _size = cfg["seeds"][i]
        if data is None:
            with open(path, "rb") as f:
                data = f.read()
        _SEEDCACHE[i] = (data, ms.tokenize(data))
    return _SEEDCACHE[i]


def make_input(cfg, case):
    """case descriptor -> (mutator label, bytes, want_reject, label, extra files or None)"""
    import random
    kind = case[0]
    if kind == "ctrl":
        return "control", _seed(cfg, case[1])[0], False, "", None
    if kind == "mut":
        _, name, si, s = case
        d, toks = _seed(cfg, si)
        rng = random.Random(s)
        fn = ms.havoc if name == "havoc" else ms.MUTATORS[name]
        out = fn(d, toks, rng)
        return name, (out if name == "ident_length" else out[:ms.MAX_INPUT]), False, "", None
    if kind == "trunc64":
        return "trunc64", _seed(cfg, case[1])[0][:case[2]], False, "", None
    if kind == "trunctok":
        return "trunc_token", _seed(cfg, case[1])[0][:case[2]], False, "", None
    if kind == "identlen":
        _, si, k, length, everywhere = case
        d, toks = _seed(cfg, si)
        return "ident_length_enum", ms.stretch(d, toks, k, length, everywhere), False, "", None
    if kind == "delclose":
        d, toks = _seed(cfg, case[1])
        s0, e0, _k = toks[case[2]]
        return "delete_closer_enum", d[:s0] + d[e0:], False, "", None
    if kind == "multi":
        files = ms.MULTI[case[1]]
        return "multi_file", files["i.nano"], False, "", files
    if kind == "soup":
        return "soup", ms.soup(random.Random(case[1])), False, "", None
    if kind == "hostile":
        return "hostile", ms.HOSTILE[case[1]], False, "", None
    if kind == "importchain":
        files = ms.import_chain(case[1])
        return "depth:import_chain", files["i.nano"], False, "", files
    if kind == "depth":
        _, g, d, limit = case
        builder, nesting, valid = ms.DEPTH_GENERATORS[g]
        return "depth:" + g, builder(d), bool(nesting and d > limit), g, None
    if kind == "file":
        keys = tuple(case[2] if len(case) > 2 else ()) + tuple(case[3] if len(case) > 3 else ())
        key = ([k for k in keys if k.startswith("depth-limit-not-enforced|")] + [""])[0]
        want = key.startswith("depth-limit-not-enforced|")
        with open(case[1], "rb") as f:
            data = f.read()
        extra = None
        wdir = os.path.dirname(case[1])
        if case[1].endswith(".gen"):
            # generated witness: "import_chain <n>" (thousands of sibling modules are not stored)
            w = data.split()
            if len(w) >= 2 and w[0] == b"import_chain":
                extra = ms.import_chain(int(w[1]))
                return "witness", extra["i.nano"], False, "", extra
        if os.path.basename(case[1]) == "i.nano":
            # multi-file witness: a directory whose main file is i.nano; the other files are its siblings
            extra = {}
            for n in sorted(os.listdir(wdir)):
                if n != "i.nano" and os.path.isfile(os.path.join(wdir, n)):
                    with open(os.path.join(wdir, n), "rb") as f:
                        extra[n] = f.read()
        return "witness", data, want, key.split("|", 1)[1] if want else "", extra
    raise ValueError(kind)


def _worker(arg):
    cfg, cases = arg
    cfg = dict(cfg)
    cfg["work"] = os.path.join(cfg["wroot"], "p%d" % os.getpid())
    cfg["tmp"] = os.path.join(cfg["work"], "tmp")
    os.makedirs(cfg["tmp"], exist_ok=True)
    out = []
    kept = set()
    for case in cases:
        mut, data, want, label, extra = make_input(cfg, case)
        rec = oracle(cfg, data, want, label, extra)
        if extra and rec["events"]:
            if len(extra) <= 40:
                rec.setdefault("detail", {}).update({"siblings/" + n: c for n, c in extra.items() if n != "i.nano"})
            else:
                rec.setdefault("detail", {})["siblings.txt"] = "%d generated sibling modules: nlv.mutate_src.import_chain(%d)\n" % (len(extra) - 1, len(extra) - 1)
        rec["mut"] = mut
        rec["case"] = case
        rec["size"] = len(data)
        if rec["events"]:
            # input and outputs travel back only for the first occurrence of a key in this chunk
            keys = set(k for k, _t in rec["events"])
            if keys - kept:
                kept |= keys
                rec["input"] = data if len(data) <= (1 << 20) else data[:1 << 20]
            else:
                rec.pop("detail", None)
        if rec["backend"] and len(data) <= 600:
            rec["backend_input"] = data.decode("latin-1")
        out.append(rec)
    return out


def _cfg(sc, seeds):
    asan = build.get("asan")
    plain = build.get("plain")
    bindir = sc.sub("bin")
    # private copies: the flavor cache may be pruned by concurrent builds while this check runs
    a = os.path.join(bindir, "nano_virt_asan")
    p = os.path.join(bindir, "nano_virt_plain")
    shutil.copy2(asan.nano_virt, a)
    shutil.copy2(plain.nano_virt, p)
    root = sc.sub("root")
    for d in ("modules", "std", "stdlib", "examples", "src_nano", "tests", "test_modules"):
        s = os.path.join(build.REPO, d)
        if os.path.isdir(s):
            os.symlink(s, os.path.join(root, d))
    wroot = os.path.join(root, "w")
    os.makedirs(wroot)
    gs = sc.file("gdb/looper.py", GDB_SCRIPT)
    own = set()
    r = sh(["nm", "--defined-only", p], cpu=30)
    for line in r.text().splitlines():
        f = line.split()
        if len(f) == 3 and f[1] in "tT":
            own.add(f[2])
    own -= {"_start", "_init", "_fini", "frame_dummy", "register_tm_clones", "deregister_tm_clones", "__do_global_dtors_aux"}
    return {"own": own, "asan": a, "plain": p, "root": root, "wroot": wroot, "gdb": shutil.which("gdb"), "gdbscript": gs,
            "seeds": seeds}


def _documented_limit():
    try:
        with open(os.path.join(build.REPO, "src", "parser.c"), "rb") as f:
            m = re.search(rb"#define\s+MAX_RECURSION_DEPTH\s+(\d+)", f.read())
        return int(m.group(1)) if m else 1000
    except OSError:
        return 1000


def _plan(ctx, seeds, limit):
    """-> list of case descriptors (small tuples); all randomness from ctx.rng"""
    n_seeds = len(seeds)
    gen_idx = [i for i, s in enumerate(seeds) if s[1] is None]
    repo_idx = [i for i, s in enumerate(seeds) if s[1] is not None]
    cases = []
    for i in range(n_seeds):
        cases.append(("ctrl", i))
    for name in sorted(ms.HOSTILE):
        cases.append(("hostile", name))
    for name in sorted(ms.MULTI):
        cases.append(("multi", name))
    name_idx = {s[0]: i for i, s in enumerate(seeds)}
    prio = [name_idx["gen:" + n] for n in ms.PRIORITY_SEEDS if "gen:" + n in name_idx]
    depths = list(DEPTHS) + [limit - 1, limit, limit + 1]
    if not ctx.quick():
        depths += list(DEPTHS_THOROUGH)
    depths += [2 * limit, 10000, 40000]
    depths = sorted(set(d for d in depths if d > 0))
    # systematic families (production x context): the depths around the limit and the stack-exhausting ones
    fam = sorted(set([limit - 1, limit, limit + 1, 2 * limit, 10000, 40000, 100000] + ([] if ctx.quick() else [10, 100, 5000])))
    for g in sorted(ms.DEPTH_GENERATORS):
        ds = fam if ":" in g else depths
        if ctx.quick() and g.startswith("expr:infix_chain@"):
            continue      # known diagnostic flood (10-40 s of CPU per case); the plain infix_chain generator stays
        if ctx.quick() and not g.startswith("type:") and ":" in g:
            ds = [d for d in ds if d != 40000]
        for d in ds:
            cases.append(("depth", g, d, limit))
    for d in (10, 100, limit - 1, limit, limit + 1, 2 * limit, 10000):
        cases.append(("importchain", d))
    # truncation at every 64th byte
    rng = ctx.rng("trunc")
    tr_seeds = list(repo_idx)
    rng.shuffle(tr_seeds)
    tr_seeds = tr_seeds[:ctx.n(14, len(tr_seeds))] + gen_idx
    for i in tr_seeds:
        ln = seeds[i][3]
        for off in range(64, ln, 64):
            cases.append(("trunc64", i, off))
    # truncation at every token boundary of small seeds
    small = [i for i in gen_idx if i not in prio]
    if not ctx.quick():
        small += sorted(repo_idx, key=lambda i: seeds[i][3])[:40]
    tb = []
    for i in small:
        with_data = seeds[i][2] if seeds[i][2] is not None else open(seeds[i][1], "rb").read()
        for (s, e, k) in ms.tokenize(with_data):
            tb.append(("trunctok", i, e))
    rng.shuffle(tb)
    cases.extend(tb[:ctx.n(300, len(tb))])
    # priority seeds (generic types, qualified names, contracts): enumerated in both tiers -
    # every token boundary, every closing bracket deleted, every identifier / string stretched
    quick_all = (300, 70000)
    quick_qual = (64, 256, 1024, 5000)
    for i in prio:
        d = seeds[i][2]
        toks = ms.tokenize(d)
        for (s, e, k) in toks:
            cases.append(("trunctok", i, e))
        for k in ms.closer_positions(d, toks):
            cases.append(("delclose", i, k))
        for k in ms.ident_targets(d, toks):
            if ctx.quick():
                ls = quick_all + (quick_qual if seeds[i][0][4:] in ms.QUALIFIED_SEEDS else ())
            else:
                ls = ms.IDENT_LENGTHS
            for ln in ls:
                cases.append(("identlen", i, k, ln, False))
            if not ctx.quick():
                cases.append(("identlen", i, k, 300, True))
    if not ctx.quick():
        for i in gen_idx:
            if i in prio:
                continue
            d = seeds[i][2]
            toks = ms.tokenize(d)
            for k in ms.closer_positions(d, toks):
                cases.append(("delclose", i, k))
            for k in ms.ident_targets(d, toks):
                for ln in (257, 1025, 70000):
                    cases.append(("identlen", i, k, ln, False))
    # random mutators
    per = ctx.n(200, 9000)
    for name in sorted(ms.MUTATORS) + ["havoc"]:
        r = ctx.rng("mut", name)
        for k in range(per):
            pool = gen_idx if r.random() < 0.5 else repo_idx
            cases.append(("mut", name, r.choice(pool), r.getrandbits(62)))
    r = ctx.rng("soup")
    for k in range(ctx.n(500, 15000)):
        cases.append(("soup", r.getrandbits(62)))
    return cases


def _seeds():
    seeds = []
    for name in sorted(ms.GEN_SEEDS):
        d = ms.GEN_SEEDS[name]
        seeds.append(("gen:" + name, None, d, len(d)))
    for p in corpus.repo_sources():
        sz = os.path.getsize(p)
        if sz <= ms.MAX_INPUT:
            seeds.append((os.path.relpath(p, build.REPO), p, None, sz))
    return seeds


def _report(ctx, rec, cfg, mut):
    inp = rec.get("input", b"(input not kept: a previous case of the same chunk carried this key)")
    for key, text in rec["events"]:
        files = {"input.nano": inp,
                 "cmd.txt": "cd <dir with modules/ stdlib/ of the repo>; nano_virt input.nano --emit-nvm -o x.nvm\n"
                            "asan build: ulimit -s 1048576; ASAN_OPTIONS=detect_leaks=0:exitcode=97 ; plain build: default 8 MiB stack\n"
                            "replay: ./check C09 --replay <this directory>\n"}
        files.update(rec.get("detail", {}))
        ctx.violation(key, "%s\ninput: %d bytes produced by '%s' (%s)\nasan build: %s, plain build: %s" % (
            text, rec["size"], mut, rec["case"][:3], rec["asan"], rec["plain"]), files)


def run(ctx):
    limit = _documented_limit()
    seeds = _seeds()
    ctx.require(len(seeds) >= 50, "too few seed programs (%d)" % len(seeds))
    with Scratch("c09") as sc:
        cfg = _cfg(sc, seeds)
        ctx.require(len(cfg["own"]) > 300, "nm did not list the symbols of the plain build")
        with open(cfg["plain"], "rb") as f:
            ctx.require(NO_PROGRESS_TEXT.encode() in f.read(), "parser progress monitor (hook H4) is not compiled in")
        cases = []
        # witnesses of known findings first
        wit = {}
        for key, e in sorted(ctx.open.items()):
            w = e.get("witness")
            if w and os.path.exists(os.path.join(core_verif(), w)):
                wit.setdefault(os.path.join(core_verif(), w), []).append(key)
        # witnesses of fixed findings stay in the regression corpus and must pass now (their key only tells whether
        # the input has to be refused because of its nesting depth)
        fixed_wit = {}
        try:
            with open(os.path.join(core_verif(), "findings", "C09", "known.json")) as f:
                for line in json.load(f).get("fixed", []):
                    m = re.search(r"\(key (.+), witness (findings/C09/[^)\s]+)\)\s*$", line)
                    if m and os.path.exists(os.path.join(core_verif(), m.group(2))):
                        fixed_wit.setdefault(os.path.join(core_verif(), m.group(2)), []).append(m.group(1))
        except (OSError, ValueError):
            pass
        for w in sorted(set(wit) | set(fixed_wit)):
            cases.append(("file", w, tuple(wit.get(w, [])), tuple(fixed_wit.get(w, []))))
        n_wit = len(cases)
        cases += _plan(ctx, seeds, limit)
        # big inputs first (better load balance), then chunks
        order = list(range(len(cases)))
        def is_heavy(c):
            return c[0] == "file" or (c[0] == "depth" and c[2] >= 5000) or (c[0] == "importchain" and c[1] >= 999)
        heavy = [i for i in order if is_heavy(cases[i])]
        light = [i for i in order if not is_heavy(cases[i])]
        chunks = [[cases[i]] for i in heavy]
        csz = 40 if ctx.quick() else 150
        for k in range(0, len(light), csz):
            chunks.append([cases[i] for i in light[k:k + csz]])
        workers = max(2, NCPU)
        results = []
        done = 0
        with ProcessPoolExecutor(workers) as ex:
            for recs in ex.map(_worker, [(cfg, c) for c in chunks]):
                results.extend(recs)
                done += 1
                if not ctx.quick() and done % max(1, len(chunks) // 20) == 0:
                    sys.stderr.write("C09 progress: %d/%d chunks, %d inputs\n" % (done, len(chunks), len(results)))
                    sys.stderr.flush()

        # ------------------------------------------------------------------ evaluation
        hist = {}
        by_mut = {}
        diags = set()
        triples = set()
        accepted = diagnosed = 0
        disagree = 0
        watchdogs = 0
        asan_only_so = 0
        depth_tab = {}
        multi_tab = {}
        samples = []
        wit_seen = {}
        need_gdb_missing = 0
        backend = {}
        for rec in results:
            for k in rec["backend"]:
                b = backend.setdefault(k, {"count": 0, "first_case": "%s %s" % (rec["mut"], list(rec["case"][:3]))})
                b["count"] += 1
                if "example_input" not in b and "backend_input" in rec:
                    b["example_input"] = rec["backend_input"]
            mut = rec["mut"]
            oc = rec["outcome"]
            hist[oc] = hist.get(oc, 0) + 1
            by_mut.setdefault(mut.split(":")[0] if mut.startswith("depth:") else mut, {})
            hm = by_mut[mut.split(":")[0] if mut.startswith("depth:") else mut]
            hm[oc] = hm.get(oc, 0) + 1
            if rec["asan"] == "accept":
                accepted += 1
            elif rec["asan"] == "diagnosed":
                diagnosed += 1
                diags.add(rec["diag"])
            if not rec["agree"]:
                disagree += 1
            if "watchdog" in (rec["asan"], rec["plain"]):
                watchdogs += 1
            if rec["asan"] == "stack-overflow" and rec["plain"] in ("accept", "diagnosed"):
                asan_only_so += 1
            triples.add((mut, oc, rec["diag"]))
            if rec["case"][0] == "multi":
                multi_tab[rec["case"][1]] = "%s/%s" % (rec["asan"], rec["plain"])
            if rec["case"][0] == "importchain":
                depth_tab.setdefault("import_chain", {})[rec["case"][1]] = "%s/%s" % (rec["asan"], rec["plain"])
            if rec["case"][0] == "depth":
                _, g, d, _l = rec["case"]
                depth_tab.setdefault(g, {})[d] = "%s/%s" % (rec["asan"], rec["plain"])
            if rec["case"][0] == "file":
                wit_seen[rec["case"][1]] = (rec["case"][2], [k for k, _t in rec["events"]])
            for k, _t in rec["events"]:
                if k.endswith("|unclassified") and not cfg["gdb"]:
                    need_gdb_missing += 1
            _report(ctx, rec, cfg, mut)
            if len(samples) < 8 and rec["case"][0] in ("mut", "soup") and oc == "diagnosed" and mut not in [x["mutator"] for x in samples]:
                samples.append({"mutator": mut, "case": list(rec["case"][:3]), "bytes": rec["size"], "outcome": oc, "first_diagnostic": rec["diag"]})
        ctx.require(need_gdb_missing == 0, "gdb is needed to classify %d crash/no-progress events and is not installed" % need_gdb_missing)
        for w, (keys, evs) in sorted(wit_seen.items()):
            if keys and not set(keys) & set(evs):
                ctx.note("witness %s of open finding(s) %s no longer fails (observed: %s) - the entry can move to 'fixed'"
                         % (os.path.basename(w), list(keys), evs or "clean"))

        # depth generators: sanity (small depths of the well-formed generators are accepted) and max depth handled
        max_ok = {}
        for g, tab in sorted(depth_tab.items()):
            builder, nesting, valid = ms.DEPTH_GENERATORS.get(g, (None, False, False))
            ok = [d for d, v in tab.items() if all(x in ("accept", "diagnosed") for x in v.split("/"))]
            max_ok[g] = max(ok) if ok else 0
            if valid:
                ctx.require(tab.get(10) == "accept/accept", "depth generator %s is not accepted at depth 10 (%s): the generator or the build is broken" % (g, tab.get(10)))
        n = len(results)
        ctx.require(n >= 0.98 * len(cases), "only %d of %d planned inputs were evaluated" % (n, len(cases)))
        ctx.require(watchdogs <= 2, "%d inputs hit the wall-clock watchdog twice (machine overloaded?)" % watchdogs)
        ctx.require(accepted >= 100 and diagnosed >= ctx.n(2000, 50000), "too few accepted (%d) / diagnosed (%d) inputs" % (accepted, diagnosed))
        ctx.require(len(diags) >= 40, "too few distinct diagnostics reached (%d)" % len(diags))
        if len(samples) < 3:
            for rec in results:
                if rec["case"][0] == "mut" and len(samples) < 5:
                    samples.append({"mutator": rec["mut"], "case": list(rec["case"][:3]), "bytes": rec["size"], "outcome": rec["outcome"], "first_diagnostic": rec["diag"]})
        return ctx.finish({
            "evaluations": n,
            "distinct_nontrivial": len(triples),
            "rule": "distinct (mutator or depth generator, outcome class, class of the first diagnostic line) triples over all inputs; "
                    "a diagnostic class is the first output line with numbers, quoted names and paths abstracted",
            "inputs": n,
            "processes": 2 * n,
            "accepted": accepted,
            "diagnosed": diagnosed,
            "distinct_first_diagnostic_classes": len(diags),
            "outcome_histogram": hist,
            "outcomes_per_mutator": by_mut,
            "documented_depth_limit": limit,
            "depth_results(asan/plain)": {g: {str(d): v for d, v in sorted(t.items())} for g, t in sorted(depth_tab.items())},
            "max_depth_handled_per_generator": max_ok,
            "multi_file_results(asan/plain)": multi_tab,
            "identifier_lengths": list(ms.IDENT_LENGTHS),
            "asan_only_stack_overflows_not_reported": asan_only_so,
            "crashes_after_the_front_end_accepted(bytecode generator; outside C09, not counted)": backend,
            "accept_vs_diagnose_disagreements_between_builds": disagree,
            "seeds": {"generated": len([s for s in seeds if s[1] is None]), "repository": len([s for s in seeds if s[1] is not None])},
            "witnesses_replayed": n_wit,
            "samples": samples,
        }, assumptions=[
            "front end = nano_virt <file> --emit-nvm -o <out> (lexer, parser, import processing, type checker; nothing is executed). "
            "The command also runs the bytecode generator; a crash whose stack lies below codegen_compile/nvm_serialize happens after "
            "the front end accepted the program and is recorded in the evidence, not counted against C09",
            "two processes per input: asan flavor (ASan+UBSan, 1 GiB stack, 3 GiB hard RSS limit) and plain flavor (8 MiB stack, 4 GiB address space)",
            "time budget = %d s CPU per 64 KiB of input, exceeded twice in a row; the H4 monitor aborts after 5e6 match() calls at one token" % CPU,
            "imports resolve against the repository's modules/ stdlib/ std/ (symlinked into the scratch working directory)",
            "the documented depth limit is MAX_RECURSION_DEPTH in src/parser.c (%d); only generators with syntactic nesting must be refused beyond it" % limit,
            "crash / no-progress events are classified with gdb on the plain build (function names only)",
        ])


def core_verif():
    return os.path.dirname(os.path.dirname(os.path.dirname(os.path.abspath(__file__))))


def replay(ctx, path):
    p = os.path.join(path, "input.nano") if os.path.isdir(path) else path
    with open(p, "rb") as f:
        data = f.read()
    with Scratch("c09r") as sc:
        cfg = _cfg(sc, [])
        cfg["work"] = os.path.join(cfg["wroot"], "replay")
        cfg["tmp"] = os.path.join(cfg["work"], "tmp")
        os.makedirs(cfg["tmp"])
        extra = None
        sib = os.path.join(path, "siblings") if os.path.isdir(path) else os.path.dirname(os.path.abspath(p))
        if os.path.isdir(path) and os.path.isdir(sib):
            extra = {n: open(os.path.join(sib, n), "rb").read() for n in sorted(os.listdir(sib))}
        elif not os.path.isdir(path) and os.path.basename(p) == "i.nano":
            extra = {n: open(os.path.join(sib, n), "rb").read() for n in sorted(os.listdir(sib))
                     if n != "i.nano" and os.path.isfile(os.path.join(sib, n))}
        if p.endswith(".gen") and data.split()[:1] == [b"import_chain"]:
            extra = ms.import_chain(int(data.split()[1]))
            data = extra["i.nano"]
        rec = oracle(cfg, data, extra=extra)
        print("asan build: %s   plain build: %s   first diagnostic: %s" % (rec["asan"], rec["plain"], rec["diag"]))
        for k, t in rec["events"]:
            print("EVENT %s\n  %s" % (k, t.replace("\n", "\n  ")[:1500]))
        return 1 if rec["events"] else 0
