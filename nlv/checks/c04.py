"""C04 - accepted programs never get stuck on any backend (DESIGN §4 C04).

E: the type checker accepts a program (`nanoc --verbose` prints "✓ Type checking complete" / `nano_virt` goes past
   type_check, i.e. prints none of "lexer failed", "parser failed", "module loading failed", "type check failed")
   and afterwards one of: "Transpilation failed", "C compilation failed", "codegen failed", "bytecode verification
   failed", a VM run ending with an error of class Type error / Undefined function / Undefined global / Instruction
   decode error / Invalid opcode / Stack over-/underflow / an internal slot or field index out of range, a native run
   ending with SIGSEGV / SIGBUS / SIGILL or an abort that is not the documented bounds check, or nanoc / nano_virt
   themselves dying after acceptance.
O: a classifier over (stage, exit status, signal, stderr class).  Allowed endings: normal exit (any status), failed
   assert, index out of bounds, SIGFPE natively (division by zero), "Call depth exceeded" (natively: stack exhaustion of a
   program whose VM run ends with "Call depth exceeded").  Programs cut by VM fuel / the CPU limit are skipped and counted.
W: (1) generator programs with the default switches - must be clean;
   (2) cells: every census program (each generator switch that is off is bound to one) plus C04's own witnesses;
   (3) accepted mutants: generated programs mutated at AST level by the catalogue MUTATORS below; every mutant the checker
       still accepts is run on the VM, a kind-balanced sample also natively.
Violation keys: `stage|message with identifiers and numbers stripped|{diagnostic titles the checker printed}`.
"""
import copy
import os
import re
import resource
import signal
import subprocess
import time

from .. import build, engines, sweep, census
from ..gen import gen, ast as A
from . import c04_families
from ..run import pmap, Scratch, Result, run as sh

LEVEL = "exploration"

FUEL = 3000000          # VM instructions per run (logical budget)
NATIVE_CPU = 3          # CPU seconds of a native run (logical budget)
OUT_LIMIT = 16 << 20    # bytes of stdout a run may write

# ======================================================================================================================
# running
# ======================================================================================================================


def runf(cmd, cwd, env=None, cpu=10, wall=None, tag="run"):
    """Like run.run, but stdout/stderr go to files under RLIMIT_FSIZE (a mutant may print without end)."""
    e = dict(os.environ)
    for k in ("VERIF_SEED", "VERIF_TIER"):
        e.pop(k, None)
    if env:
        e.update(env)
    if wall is None:
        wall = max(60, 30 * cpu)
    po, pe = os.path.join(cwd, tag + ".stdout"), os.path.join(cwd, tag + ".stderr")

    def pre():
        os.setsid()
        resource.setrlimit(resource.RLIMIT_CPU, (cpu, cpu + 2))
        resource.setrlimit(resource.RLIMIT_FSIZE, (OUT_LIMIT, OUT_LIMIT))
        resource.setrlimit(resource.RLIMIT_CORE, (0, 0))
    t0 = time.time()
    timeout = False
    with open(po, "wb") as fo, open(pe, "wb") as fe:
        try:
            p = subprocess.Popen(cmd, cwd=cwd, env=e, stdin=subprocess.DEVNULL, stdout=fo, stderr=fe, preexec_fn=pre)
        except OSError as ex:
            return Result(127, 0, b"", ("exec failed: %s" % ex).encode(), False, 0.0)
        try:
            p.wait(timeout=wall)
        except subprocess.TimeoutExpired:
            timeout = True
        try:
            os.killpg(p.pid, signal.SIGKILL)
        except OSError:
            pass
        p.wait()
    rc, sig = p.returncode, 0
    if rc is not None and rc < 0:
        sig, rc = -rc, None
    with open(po, "rb") as f:
        out = f.read(1 << 20)
    with open(pe, "rb") as f:
        err = f.read(1 << 20)
    return Result(rc, sig, out, err, timeout, time.time() - t0)


# ======================================================================================================================
# classification
# ======================================================================================================================

TITLE_RE = re.compile(r"^-- ([A-Z][A-Z0-9 _'/-]*?) -{3,}", re.M)
ERRLINE_RE = re.compile(r"^(?:Error|Type error) at line \d+, column \d+: (.*)$", re.M)


def norm(msg):
    """failure message with identifiers, numbers and quoted text stripped"""
    msg = msg.strip()
    msg = re.sub(r"[‘'`\"][^’'`\"]*[’'`\"]", "'_'", msg)
    msg = re.sub(r"0x[0-9a-fA-F]+", "N", msg)
    msg = re.sub(r"-?\d+", "N", msg)
    msg = re.sub(r"\s+", " ", msg)
    return msg[:90]


TYPE_WORDS = re.compile(r"\b(int|u8|float|bool|string|void|array|struct|enum|union|function|list_int|list_string|HashMap|unknown|tuple|opaque)\b")


def diag_msg(msg):
    msg = norm(msg)
    msg = re.sub(r"\([^)]*\)", "", msg)
    msg = re.sub(r"\([^)]*$", "", msg)
    msg = TYPE_WORDS.sub("T", msg)
    return re.sub(r"\s+", " ", msg).strip()[:70]


def diag_titles(text):
    """the diagnostics the type checker printed, in the order of printing, without repetitions.  A boxed diagnostic
    ('-- TYPE MISMATCH ---- file' followed by its message line) is identified by title and message, an 'Error at line N,
    column M: ...' line by its message; identifiers, numbers and type names are stripped."""
    found = []
    for m in TITLE_RE.finditer(text):
        rest = text[m.end():].split("\n")
        msg = rest[1].strip() if len(rest) > 1 else ""
        found.append((m.start(), "%s: %s" % (m.group(1).strip(), diag_msg(msg))))
    for m in ERRLINE_RE.finditer(text):
        found.append((m.start(), "E: " + diag_msg(m.group(1))))
    out = []
    for _, t in sorted(found):
        if t not in out:
            out.append(t)
    return out


def cc_class(r):
    """class of the first error the C compiler reported: the -Werror flag when there is one, else the message with
    identifiers, types and suggestions stripped"""
    c = engines.cc_error_class(r)
    if c.startswith("-Werror="):
        return c
    c = re.sub(r"\s*\[-W.*$", "", c)
    c = re.sub(r"; did you mean.*$", "", c)
    c = re.sub(r"\s*\(have .*$", "", c)
    c = re.sub(r"\s*\(first use in this function\)", "", c)
    c = re.sub(r"; have .*$", "", c)
    c = re.sub(r"^expected .*$", "syntax error (expected ... before ...)", c)
    c = re.sub(r"^(invalid operands to binary) .*$", r"\1 operator", c)
    c = re.sub(r"^(incompatible types) when .*$", r"\1", c)
    return c.strip()


def tset(titles):
    return "{" + ",".join(titles) + "}"


VM_TABLE = [
    (re.compile(r"verif: fuel exhausted"), "skip", "fuel"),
    (re.compile(r"^Assertion failed"), "allowed", "assert"),
    (re.compile(r"^Call depth exceeded|^Call stack overflow"), "allowed", "call-depth"),
    (re.compile(r"^Index out of bounds|index -?\d+ out of (bounds|range) "), "allowed", "index-out-of-bounds"),
    (re.compile(r"^Division by zero"), "allowed", "div-zero"),
    (re.compile(r"type error|incompatible types|: not an? |: not strings|^Type error"), "stuck", "Type error"),
    (re.compile(r"^Function \d+ |fn \d+ not found|^No entry point|^Entry point \d+|^Import index|^Module index|^Undefined function"),
     "stuck", "Undefined function"),
    (re.compile(r"^Undefined global"), "stuck", "Undefined global"),
    (re.compile(r"^(Local|Global) \d+ out of range"), "stuck", "Undefined local/global slot"),
    (re.compile(r"(field|index) \d+ out of range"), "stuck", "Field index out of range"),
    (re.compile(r"^Bad instruction|^Instruction decode error"), "stuck", "Instruction decode error"),
    (re.compile(r"^Unknown opcode|^Invalid opcode"), "stuck", "Invalid opcode"),
    (re.compile(r"^Stack (overflow|underflow|grow failed)"), "stuck", "Stack error"),
    (re.compile(r"^Out of memory"), "skip", "memory"),
]

NOT_ACCEPTED = [("error: lexer failed", "lex"), ("error: parser failed", "parse"), ("error: module loading failed", "module"),
                ("error: type check failed", "type"), ("error: cannot read", "io")]


class Outcome:
    """cls: 'rejected' | 'ok' | 'allowed' | 'skip' | 'stuck' | 'watchdog'; stage; detail; key (stuck only)"""
    __slots__ = ("cls", "stage", "detail", "key", "titles", "text")

    def __init__(self, cls, stage, detail="", titles=(), text=""):
        self.cls, self.stage, self.detail, self.titles, self.text = cls, stage, detail, list(titles), text
        self.key = self.make_key(None) if cls == "stuck" else None

    def make_key(self, family):
        """cause-oriented key of a stuck outcome.  family: the family of the mutation that produced the program (None for a
        program that is not a mutant)."""
        if self.titles:
            # the checker diagnosed the program and accepted it all the same: the cause is the diagnostic that does not
            # fail the check (the first one printed); stage and message of the later failure are consequences
            return "diagnosed-not-rejected|%s" % self.titles[0]
        # (the family of the mutation is NOT part of the key: measured over 35 000 mutants, message x family has several
        # hundred combinations that keep trickling in, while the over-acceptance behind them - scoping, missing returns,
        # unchecked element types - is the same across families; the family is reported in the evidence instead)
        return "%s|%s|{}" % (self.stage, self.detail)

    def label(self):
        return "%s:%s%s" % (self.cls, self.stage, (":" + self.detail) if self.detail and self.cls != "ok" else "")


def signame(s):
    try:
        return signal.Signals(s).name
    except ValueError:
        return "SIG%d" % s


def nanoc_stage_after_crash(flavor, d, main):
    """nanoc died: its buffered stdout is lost.  Run it once more line-buffered and return the last phase it completed."""
    r = sh(["stdbuf", "-oL", flavor.nanoc, main, "-o", "crash.bin", "--verbose"], cwd=d, env=flavor.fastcc_env({"TMPDIR": d}), cpu=60)
    done = re.findall(r"^✓ ([A-Za-z -]+?)(?: complete| passed|\s*\(|$)", r.text(), re.M)
    return done, r


def classify_vm(flavor, d, main="main.nano"):
    r = runf([flavor.nano_virt, main, "--run"], d, env={"NLVERIF_FUEL": str(FUEL)}, cpu=20, tag="vm")
    err = r.errtext()
    titles = diag_titles(err)
    if r.timeout:
        return Outcome("watchdog", "vm", "wall", titles, err), r
    for s, why in NOT_ACCEPTED:
        if s in err:
            return Outcome("rejected", "vm", why, titles, err), r
    if r.sig:
        if r.cpu_exceeded or r.sig == signal.SIGXFSZ:
            # the CPU limit can also hit the front end or the code generator: not a run-time verdict
            return Outcome("skip", "vm", "cpu-or-output-limit", titles, err), r
        # where did it die?  acceptance is taken from nanoc (same type_check), the stage from nano_virt without --run
        done, rn = nanoc_stage_after_crash(flavor, d, main)
        if "Type checking" not in done:
            return Outcome("rejected", "vm", "front-end-crash", titles, err), r
        r2 = sh([flavor.nano_virt, main, "-o", "crash.nvm", "--emit-nvm"], cwd=d, cpu=20)
        stage = "codegen-crash" if r2.sig else "vm-run"
        return Outcome("stuck", stage, signame(r.sig), titles, err), r
    m = re.search(r"^error: codegen failed at line \d+: (.*)$", err, re.M)
    if m:
        return Outcome("stuck", "codegen", norm(m.group(1)), titles, err), r
    m = re.search(r"^internal error: bytecode verification failed: (.*)$", err, re.M)
    if m:
        return Outcome("stuck", "verify", norm(m.group(1)), titles, err), r
    m = re.search(r"^runtime error: (.*)$", err, re.M)
    if m:
        msg = m.group(1).strip()
        for rx, cls, name in VM_TABLE:
            if rx.search(msg):
                if cls == "stuck":
                    msg = re.sub(r"(incompatible types) .*", r"\1", msg)
                    return Outcome("stuck", "vm-run", "%s: %s" % (name, norm(msg)), titles, err), r
                return Outcome(cls, "vm-run", name, titles, err), r
        return Outcome("stuck", "vm-run", "unclassified: " + norm(msg), titles, err), r
    if re.search(r"^error: ", err, re.M):
        m = re.search(r"^error: (.*)$", err, re.M)
        return Outcome("stuck", "nano_virt", norm(m.group(1)), titles, err), r
    return Outcome("ok", "vm-run", "exit", titles, err), r


def classify_native(flavor, d, vm_outcome=None, main="main.nano"):
    """nanoc + the produced binary.  Returns (Outcome, nanoc Result, run Result|None)"""
    r, built = engines.build_native(flavor, d, main=main, verbose=True)
    both = r.text() + r.errtext()
    titles = diag_titles(r.errtext())
    if r.timeout:
        return Outcome("watchdog", "nanoc", "wall", titles, both), r, None
    accepted = "✓ Type checking complete" in r.text()
    if r.sig or (not accepted and re.search(r"free\(\)|double free|corrupted|malloc\(\)|stack smashing", r.errtext())):
        if r.cpu_exceeded:
            return Outcome("skip", "nanoc", "cpu-limit", titles, both), r, None
        done, r2 = nanoc_stage_after_crash(flavor, d, main)
        if "Type checking" not in done:
            return Outcome("rejected", "nanoc", "front-end-crash", titles, both), r, None
        last = done[-1] if done else "?"
        phase = {"Type checking": "in the shadow-test evaluator", "Shadow tests": "in the transpiler"}.get(last, "after " + last)
        return Outcome("stuck", "nanoc-crash", "%s: %s" % (phase, signame(r.sig) if r.sig else "abort"), titles, both + r2.text()[-400:]), r, None
    if not accepted:
        why = engines.classify_nanoc_failure(r)
        return Outcome("rejected", "nanoc", why, titles, both), r, None
    if not built:
        if "C compilation failed" in both or ("Failed to compile module" in both and re.search(r"\berror: ", both)):
            # (an imported module is compiled to an object of its own; its C errors are cc failures like the main file's)
            return Outcome("stuck", "cc", cc_class(r), titles, both), r, None
        if "Transpilation failed" in both:
            m = re.search(r"^(?:Error|error)[: ](.*)$", r.errtext(), re.M)
            return Outcome("stuck", "transpile", norm(m.group(1)) if m else "Transpilation failed", titles, both), r, None
        if "Shadow tests failed" in both or ("Shadow test" in both and "FAILED" in both):
            return Outcome("skip", "shadow-gate", "shadow test failed at compile time", titles, both), r, None
        if r.rc == 0:
            return Outcome("stuck", "nanoc", "exit 0 without a binary", titles, both), r, None
        lines = [l for l in r.errtext().splitlines() if l.strip() and not l.startswith("Warning")]
        return Outcome("stuck", "nanoc", "exit %s: %s" % (r.rc, norm(lines[-1]) if lines else "?"), titles, both), r, None
    n = runf([os.path.join(d, "main.bin")], d, cpu=NATIVE_CPU, tag="native")
    err = n.errtext()
    if n.timeout:
        return Outcome("watchdog", "native-run", "wall", titles, err), r, n
    if not n.sig:
        if "Contract violation" in err or "Assertion failed" in err:
            return Outcome("allowed", "native-run", "assert", titles, err), r, n
        return Outcome("ok", "native-run", "exit", titles, err), r, n
    if n.cpu_exceeded or n.sig == signal.SIGXFSZ:
        return Outcome("skip", "native-run", "cpu-or-output-limit", titles, err), r, n
    if n.sig == signal.SIGFPE:
        return Outcome("allowed", "native-run", "SIGFPE", titles, err), r, n
    if n.sig == signal.SIGABRT:
        if re.search(r"out of bounds|Index out of", err, re.I):
            return Outcome("allowed", "native-run", "index-out-of-bounds", titles, err), r, n
        m = re.search(r"Assertion `(.*?)' failed", err)
        lines = [l for l in err.splitlines() if l.strip()]
        why = norm(m.group(1) if m else (lines[-1] if lines else "?"))
        why = re.sub(r"ELEM_[A-Z0-9]+", "ELEM_x", why)
        return Outcome("stuck", "native-run", "abort: " + why, titles, err), r, n
    if n.sig in (signal.SIGSEGV, signal.SIGBUS) and vm_outcome is not None and vm_outcome.cls in ("allowed", "skip") \
            and vm_outcome.detail in ("call-depth", "fuel"):
        return Outcome("allowed", "native-run", "stack-exhaustion(call-depth on the VM)", titles, err), r, n
    return Outcome("stuck", "native-run", signame(n.sig), titles, err), r, n


# ======================================================================================================================
# AST helpers for mutation (list-form AST: every tuple of the generator's AST becomes a list, so sites are assignable)
# ======================================================================================================================

def tolist(x):
    if isinstance(x, (tuple, list)):
        return [tolist(y) for y in x]
    return x


class MPrinter(A.Printer):
    """printer that also knows the two extra nodes mutations introduce: ['raw', text] and the statement ['fndef', Func]"""

    def e(self, x):
        if x[0] == "raw":
            return x[1]
        return A.Printer.e(self, x)

    def s(self, x, ind):
        if x[0] == "fndef":
            fn = x[1]
            p = "    " * ind
            out = ["%sfn %s(%s) -> %s {" % (p, fn.name, ", ".join("%s: %s" % (n, A.tstr(t)) for n, t in fn.params), A.tstr(fn.ret))]
            out += self.block(fn.body, ind + 1)
            out.append(p + "}")
            if fn.shadow is not None:
                out.append("%sshadow %s {" % (p, fn.name))
                out += self.block(fn.shadow, ind + 1)
                out.append(p + "}")
            return out
        if x[0] == "rawstmt":
            return ["    " * ind + x[1]]
        return A.Printer.s(self, x, ind)


def mutable_program(prog, keep_shadow=False):
    p = copy.deepcopy(prog)
    for m in list(p.modules) + [p.main]:
        m.globals = [tolist(g) for g in m.globals]
        m.imports = [[f, list(ns)] for f, ns in m.imports]
        for f in m.funcs:
            f.body = tolist(f.body)
            f.params = [[n, tolist(t)] for n, t in f.params]
            f.ret = tolist(f.ret)
            if f.shadow is not None:
                f.shadow = tolist(f.shadow) if keep_shadow else [["assert", ["bool", True]]]
    return p


def files_of(prog):
    return prog.files(MPrinter())


EXPR_CHILD_SLOTS = {"bin": (2, 3), "un": (2,), "field": (1,), "tidx": (1,)}


def expr_sites(e_holder, idx, out, ctx):
    """append (holder, idx, ctx) for the expression holder[idx] and all its sub-expressions"""
    e = e_holder[idx]
    if not isinstance(e, list) or not e or not isinstance(e[0], str):
        return
    out.append((e_holder, idx, ctx))
    k = e[0]
    if k in EXPR_CHILD_SLOTS:
        for i in EXPR_CHILD_SLOTS[k]:
            expr_sites(e, i, out, ctx)
    elif k == "call":
        for i in range(len(e[2])):
            expr_sites(e[2], i, out, ctx)
    elif k == "callv":
        expr_sites(e, 1, out, ctx)
        for i in range(len(e[2])):
            expr_sites(e[2], i, out, ctx)
    elif k == "cond":
        for arm in e[1]:
            expr_sites(arm, 0, out, ctx)
            expr_sites(arm, 1, out, ctx)
        expr_sites(e, 2, out, ctx)
    elif k in ("arr",):
        for i in range(len(e[2])):
            expr_sites(e[2], i, out, ctx)
    elif k == "structlit":
        for fv in e[2]:
            expr_sites(fv, 1, out, ctx)
    elif k == "tuple":
        for i in range(len(e[1])):
            expr_sites(e[1], i, out, ctx)
    elif k == "unionlit":
        for fv in e[3]:
            expr_sites(fv, 1, out, ctx)
    elif k == "matche":
        expr_sites(e, 1, out, ctx)
        for arm in e[2]:
            expr_sites(arm, 2, out, ctx)


STMT_EXPR_SLOTS = {"let": (4,), "set": (2,), "if": (1,), "while": (1,), "for": (2, 3), "return": (1,), "print": (1,),
                   "assert": (1,), "expr": (1,), "match": (1,)}


def sub_blocks(s):
    k = s[0]
    if k == "if":
        return [b for b in (s[2], s[3]) if isinstance(b, list)]
    if k == "while":
        return [s[2]]
    if k == "for":
        return [s[4]]
    if k == "match":
        return [arm[2] for arm in s[2]]
    return []


class Sites:
    """all statement lists / statements / expressions of a (mutable) program, with the function they belong to"""

    def __init__(self, prog):
        self.prog = prog
        self.funcs = [f for f in prog.main.funcs]            # only the main module is mutated
        self.lists = []      # (stmt_list, func, loop_depth, block_depth)
        self.exprs = []      # (holder, idx, (func, loop_depth))
        for f in self.funcs:
            self._walk(f.body, f, 0, 0)

    def _walk(self, lst, f, loop, depth):
        self.lists.append((lst, f, loop, depth))
        for s in lst:
            if not isinstance(s, list) or not s:
                continue
            for i in STMT_EXPR_SLOTS.get(s[0], ()):
                if s[i] is not None:
                    expr_sites(s, i, self.exprs, (f, loop))
            inner_loop = loop + (1 if s[0] in ("while", "for") else 0)
            for b in sub_blocks(s):
                self._walk(b, f, inner_loop, depth + 1)

    def of_kind(self, kind, pred=None):
        return [(h, i, c) for h, i, c in self.exprs if h[i][0] == kind and (pred is None or pred(h[i], c))]


def fn_locals(f):
    """{name: type} of parameters, lets and for variables of a function (flow-insensitive)"""
    out = {}
    for n, t in f.params:
        out[n] = t

    def walk(lst):
        for s in lst:
            if s[0] == "let":
                out.setdefault(s[1], s[2])
            elif s[0] == "for":
                out.setdefault(s[1], "int")
            for b in sub_blocks(s):
                walk(b)
    walk(f.body)
    return out


BUILTIN_RET = {"abs": "int", "min": "int", "max": "int", "str_length": "int", "str_concat": "string", "str_substring": "string",
               "str_contains": "bool", "str_equals": "bool", "char_at": "int", "string_from_char": "string", "int_to_string": "string",
               "string_to_int": "int", "is_digit": "bool", "is_alpha": "bool", "is_alnum": "bool", "is_whitespace": "bool",
               "is_upper": "bool", "is_lower": "bool", "digit_value": "int", "char_to_lower": "int", "char_to_upper": "int",
               "array_length": "int", "tr_int": "int", "tr_bool": "bool", "tr_str": "string"}


class Typer:
    """best-effort static type of an expression of the generator's AST (None when unknown)"""

    def __init__(self, prog):
        self.globals = {}
        self.fns = {}
        self.structs = {}
        for m in list(prog.modules) + [prog.main]:
            for g in m.globals:
                self.globals[g[0]] = g[1]
            for f in m.funcs:
                self.fns[f.name] = f
            for n, fs in m.structs:
                self.structs[n] = dict((a, tolist(b)) for a, b in fs)

    def t(self, e, loc):
        k = e[0]
        if k == "int":
            return "int"
        if k == "bool":
            return "bool"
        if k == "str":
            return "string"
        if k == "float":
            return "float"
        if k == "var":
            return loc.get(e[1], self.globals.get(e[1]))
        if k == "bin":
            if e[1] in A.BINOPS_CMP or e[1] in A.BINOPS_LOGIC:
                return "bool"
            return self.t(e[2], loc)
        if k == "un":
            return "bool" if e[1] == "not" else self.t(e[2], loc)
        if k == "call":
            if e[1] in BUILTIN_RET:
                return BUILTIN_RET[e[1]]
            if e[1] in self.fns:
                return self.fns[e[1]].ret
            return None
        if k == "cond":
            return self.t(e[2], loc)
        if k == "field":
            st = self.t(e[1], loc)
            if isinstance(st, list) and st[0] == "struct":
                return self.structs.get(st[1], {}).get(e[2])
            return None
        if k == "tidx":
            tt = self.t(e[1], loc)
            if isinstance(tt, list) and tt[0] == "tuple" and e[2] < len(tt[1]):
                return tt[1][e[2]]
            return None
        if k == "arr":
            return ["array", e[1]]
        if k == "structlit":
            return ["struct", e[1]]
        return None


# ======================================================================================================================
# mutation catalogue.  Every mutator takes (M) and returns a kind string when it changed the program, else None.
# ======================================================================================================================

BOUNDARY_INTS = [9223372036854775807, -9223372036854775807, 9223372036854775806, 4294967296, 2147483648, -2147483649,
                 4611686018427387904, 1000000000000000000]
C_RESERVED = ["auto", "register", "double", "long", "short", "signed", "unsigned", "volatile", "switch", "case", "default", "goto",
              "do", "typedef", "static", "sizeof", "char", "const", "inline", "restrict", "printf", "strlen", "malloc", "free", "exit",
              "stdin", "errno", "NULL", "int64_t", "bool", "argc", "argv", "nl_println_int", "DynArray", "abs", "main", "assert",
              "y0", "index", "time", "read", "signal", "div", "remove", "rand", "pow", "log"]
ALL_OPS = A.BINOPS_ARITH + A.BINOPS_CMP + A.BINOPS_LOGIC
LIT = {"int": lambda r: ["int", r.choice([0, 1, 2, 7, -3, 100])], "bool": lambda r: ["bool", r.random() < 0.5],
       "string": lambda r: ["str", r.choice(["", "a", "xyz", "42"])], "float": lambda r: ["float", r.choice([0.5, 2.0, -1.25])]}


def opclass(op):
    return "arith" if op in A.BINOPS_ARITH else "cmp" if op in A.BINOPS_CMP else "logic"


class M:
    """one mutation attempt on a mutable program"""

    def __init__(self, prog, rng):
        self.p = prog
        self.r = rng
        self.s = Sites(prog)
        self.ty = Typer(prog)
        self._loc = {}

    def loc(self, f):
        if f.name not in self._loc:
            self._loc[f.name] = fn_locals(f)
        return self._loc[f.name]

    def pick(self, xs):
        return self.r.choice(xs) if xs else None

    def user_funcs(self):
        return [f for f in self.s.funcs if f.name != "main"]

    def int_leaf(self, f):
        c = [n for n, t in self.loc(f).items() if t == "int"]
        return ["var", self.r.choice(c)] if c and self.r.random() < 0.7 else LIT["int"](self.r)

    def str_leaf(self, f):
        c = [n for n, t in self.loc(f).items() if t == "string"]
        return ["var", self.r.choice(c)] if c and self.r.random() < 0.7 else LIT["string"](self.r)

    def typed_sites(self, t):
        return [(h, i, c) for h, i, c in self.s.exprs if self.ty.t(h[i], self.loc(c[0])) == t]

    # ---- identifiers across functions -----------------------------------------------------------------
    def xfn_local(self):
        vs = self.s.of_kind("var")
        if not vs:
            return None
        h, i, (g, _) = self.r.choice(vs)
        others = [f for f in self.s.funcs if f is not g and self.loc(f)]
        if not others:
            return None
        f = self.r.choice(others)
        want = self.ty.t(h[i], self.loc(g))
        names = [n for n, t in self.loc(f).items() if n not in self.loc(g)]
        same = [n for n in names if self.loc(f)[n] == want]
        if same and self.r.random() < 0.75:
            names = same
        if not names:
            return None
        h[i] = ["var", self.r.choice(names)]
        order = "earlier" if self.s.funcs.index(f) < self.s.funcs.index(g) else "later"
        return "xfn_local_" + order

    def swap_idents(self):
        """swap two identifier uses that live in different functions"""
        vs = self.s.of_kind("var")
        if len(vs) < 2:
            return None
        a = self.r.choice(vs)
        b = [v for v in vs if v[2][0] is not a[2][0]]
        if not b:
            return None
        b = self.r.choice(b)
        a[0][a[1]], b[0][b[1]] = b[0][b[1]], a[0][a[1]]
        return "swap_idents_across_fn"

    def swap_idents_same_fn(self):
        vs = self.s.of_kind("var")
        if not vs:
            return None
        h, i, (g, _) = self.r.choice(vs)
        names = [n for n in self.loc(g) if n != h[i][1]]
        if not names:
            return None
        h[i] = ["var", self.r.choice(names)]
        return "ident_other_local"

    # ---- operators ----------------------------------------------------------------------------------------
    def op_swap(self):
        bs = self.s.of_kind("bin")
        if not bs:
            return None
        h, i, _ = self.r.choice(bs)
        old = h[i][1]
        new = self.r.choice([o for o in ALL_OPS if o != old])
        h[i][1] = new
        return "op_swap:%s>%s" % (opclass(old), opclass(new))

    def str_cmp_order(self):
        bs = self.s.of_kind("bin", lambda e, c: e[1] in ("==", "!=") and self.ty.t(e[2], self.loc(c[0])) == "string")
        if bs:
            h, i, _ = self.r.choice(bs)
            h[i][1] = self.r.choice(["<", "<=", ">", ">="])
            return "str_cmp_order"
        bs = self.typed_sites("bool")
        if not bs:
            return None
        h, i, (f, _) = self.r.choice(bs)
        h[i] = ["bin", self.r.choice(["<", ">", "<=", ">="]), self.str_leaf(f), self.str_leaf(f)]
        return "str_cmp_order"

    def cmp_same(self):
        bs = self.s.of_kind("bin", lambda e, c: e[1] in A.BINOPS_CMP)
        if not bs:
            return None
        h, i, _ = self.r.choice(bs)
        h[i][3] = copy.deepcopy(h[i][2])
        return "cmp_same_operand"

    def arith_same(self):
        bs = self.s.of_kind("bin", lambda e, c: e[1] in ("-", "/", "%"))
        if not bs:
            return None
        h, i, _ = self.r.choice(bs)
        h[i][3] = copy.deepcopy(h[i][2])
        return "arith_same_operand"

    def strlen_in_cmp(self):
        bs = self.s.of_kind("bin", lambda e, c: e[1] in A.BINOPS_CMP and self.ty.t(e[2], self.loc(c[0])) == "int")
        conds = self.s.of_kind("cond")
        if conds and self.r.random() < 0.3:
            h, i, (f, _) = self.r.choice(conds)
            arm = self.r.choice(h[i][1])
            arm[0] = ["bin", self.r.choice(A.BINOPS_CMP), ["call", "str_length", [self.str_leaf(f)]], self.int_leaf(f)]
            return "strlen_in_cond"
        if not bs:
            return None
        h, i, (f, _) = self.r.choice(bs)
        h[i][self.r.choice([2, 3])] = ["call", "str_length", [self.str_leaf(f)]]
        return "strlen_in_cmp"

    def cmp_of_cmp(self):
        bs = self.typed_sites("bool")
        if not bs:
            return None
        h, i, (f, _) = self.r.choice(bs)
        other = ["bin", self.r.choice(["<", ">", "<=", "=="]), self.int_leaf(f), self.int_leaf(f)]
        inner = h[i] if h[i][0] == "bin" and h[i][1] in A.BINOPS_CMP else ["bin", "<", self.int_leaf(f), self.int_leaf(f)]
        h[i] = ["bin", self.r.choice(["==", "!=", "<"]), inner, other]
        return "cmp_of_cmp"

    def neg_wrap(self):
        ints = self.typed_sites("int")
        if not ints:
            return None
        h, i, _ = self.r.choice(ints)
        e = h[i]
        if e[0] == "int":
            h[i] = ["un", "neg", ["int", -abs(e[1]) - (1 if e[1] == 0 else 0)]]
            return "neg_of_negative_literal"
        h[i] = ["un", "neg", ["un", "neg", e]]
        return "neg_of_neg"

    def not_wrap(self):
        bs = self.typed_sites("bool")
        if not bs:
            return None
        h, i, _ = self.r.choice(bs)
        h[i] = ["un", "not", ["un", "not", h[i]]]
        return "not_of_not"

    # ---- literals -----------------------------------------------------------------------------------------
    def lit_boundary(self):
        ints = self.s.of_kind("int")
        if not ints:
            return None
        h, i, _ = self.r.choice(ints)
        k = self.r.random()
        if k < 0.45:
            h[i] = ["int", self.r.choice(BOUNDARY_INTS)]
            return "lit_boundary"
        if k < 0.55:
            h[i] = ["raw", self.r.choice(["9223372036854775808", "-9223372036854775808", "18446744073709551616", "99999999999999999999"])]
            return "lit_beyond_int64"
        if k < 0.85:
            a = self.r.choice(BOUNDARY_INTS[:1] + BOUNDARY_INTS[6:7])
            h[i] = self.r.choice([["bin", "+", ["int", 9223372036854775807], ["int", self.r.choice([1, 2, 100])]],
                                  ["bin", "*", ["int", 4611686018427387904], ["int", self.r.choice([2, 3, 4])]],
                                  ["bin", "-", ["int", -9223372036854775807], ["int", self.r.choice([2, 9])]],
                                  ["bin", "*", ["int", a], ["int", a]],
                                  ["un", "neg", ["raw", "-9223372036854775808"]]])
            return "const_expr_overflow"
        h[i] = self.r.choice([["bin", "/", ["int", self.r.choice([1, 7])], ["int", 0]], ["bin", "%", ["int", 5], ["int", 0]],
                              ["bin", "/", ["raw", "-9223372036854775808"], ["int", -1]],
                              ["bin", "/", ["int", 1], ["bin", "-", ["int", 2], ["int", 2]]]])
        return "const_expr_div_zero"

    def lit_other_type(self):
        lits = [(h, i, c) for h, i, c in self.s.exprs if h[i][0] in ("int", "bool", "str", "float")]
        if not lits:
            return None
        h, i, _ = self.r.choice(lits)
        frm = {"str": "string"}.get(h[i][0], h[i][0])
        to = self.r.choice([t for t in LIT if t != frm])
        h[i] = LIT[to](self.r)
        return "lit_other_type:%s>%s" % (frm, to)

    def expr_other_type(self):
        if not self.s.exprs:
            return None
        h, i, (f, _) = self.r.choice(self.s.exprs)
        have = self.ty.t(h[i], self.loc(f))
        to = self.r.choice([t for t in LIT if t != have])
        c = [n for n, t in self.loc(f).items() if t == to]
        h[i] = ["var", self.r.choice(c)] if c and self.r.random() < 0.6 else LIT[to](self.r)
        return "expr_other_type:>%s" % to

    def str_escape(self):
        ss = self.s.of_kind("str")
        if not ss:
            return None
        h, i, _ = self.r.choice(ss)
        h[i] = ["str", h[i][1] + self.r.choice(["\\", '"', "%d", "%s%s%n", "\n", "\t", "'", "??/", "\x01", "é"])]
        return "str_special_chars"

    # ---- statements moving ---------------------------------------------------------------------------------
    def stmt_into_block(self):
        c = []
        for lst, f, loop, depth in self.s.lists:
            for j in range(len(lst)):
                if sub_blocks(lst[j]):
                    if j > 0 and lst[j - 1][0] != "return":
                        c.append((lst, j - 1, j))
                    if j + 1 < len(lst) and lst[j + 1][0] != "return":
                        c.append((lst, j + 1, j))
        if not c:
            return None
        lst, src, blk = self.r.choice(c)
        target = self.r.choice(sub_blocks(lst[blk]))
        st = lst[src]
        if src < blk:
            target.insert(0, st)
        else:
            target.append(st)
        del lst[src]
        return "stmt_into_block:" + st[0]

    def stmt_out_of_block(self):
        c = []
        for lst, f, loop, depth in self.s.lists:
            for j in range(len(lst)):
                for b in sub_blocks(lst[j]):
                    if b:
                        c.append((lst, j, b))
        if not c:
            return None
        lst, j, b = self.r.choice(c)
        if self.r.random() < 0.5:
            st = b.pop(0)
            lst.insert(j, st)
        else:
            st = b.pop()
            lst.insert(j + 1, st)
        return "stmt_out_of_block:" + st[0]

    def let_moved_down(self):
        c = [(lst, j) for lst, f, _, _ in self.s.lists for j in range(len(lst) - 1) if lst[j][0] == "let" and lst[j + 1][0] != "return"]
        if not c:
            return None
        lst, j = self.r.choice(c)
        k = self.r.randint(j + 1, len(lst) - 1)
        if lst[k][0] == "return":
            k -= 1
        if k <= j:
            return None
        st = lst.pop(j)
        lst.insert(k, st)
        return "let_moved_down"

    def stmt_delete(self):
        c = [(lst, j) for lst, f, _, _ in self.s.lists for j in range(len(lst))]
        if not c:
            return None
        lst, j = self.r.choice(c)
        k = lst[j][0]
        del lst[j]
        return "stmt_delete:" + k

    def stmt_dup(self):
        c = [(lst, j) for lst, f, _, _ in self.s.lists for j in range(len(lst)) if lst[j][0] != "return"]
        if not c:
            return None
        lst, j = self.r.choice(c)
        lst.insert(j + 1, copy.deepcopy(lst[j]))
        return "stmt_dup:" + lst[j][0]

    def stmt_to_other_fn(self):
        c = [(lst, j, f) for lst, f, _, _ in self.s.lists for j in range(len(lst)) if lst[j][0] != "return"]
        if not c:
            return None
        lst, j, f = self.r.choice(c)
        others = [g for g in self.s.funcs if g is not f]
        if not others:
            return None
        g = self.r.choice(others)
        g.body.insert(self.r.randint(0, max(0, len(g.body) - 1)), copy.deepcopy(lst[j]))
        return "stmt_copied_to_other_fn:" + lst[j][0]

    def empty_block(self):
        c = [b for lst, f, _, _ in self.s.lists for s in lst for b in sub_blocks(s) if b]
        if not c:
            return None
        b = self.r.choice(c)
        del b[:]
        return "empty_block"

    def drop_return(self):
        fs = [f for f in self.s.funcs if f.body and f.body[-1][0] == "return" and f.ret != "void"]
        if not fs:
            return None
        f = self.r.choice(fs)
        f.body.pop()
        return "drop_final_return"

    def return_mismatch(self):
        rs = [(lst, j, f) for lst, f, _, _ in self.s.lists for j in range(len(lst)) if lst[j][0] == "return"]
        if not rs:
            return None
        lst, j, f = self.r.choice(rs)
        if lst[j][1] is None:
            lst[j][1] = ["int", 1]
            return "return_value_in_void"
        lst[j][1] = None
        return "bare_return_in_nonvoid"

    def break_outside(self):
        c = [(lst, f) for lst, f, loop, depth in self.s.lists if loop == 0]
        if not c:
            return None
        lst, f = self.r.choice(c)
        w = self.r.choice(["break", "continue"])
        lst.insert(self.r.randint(0, max(0, len(lst) - 1)), [w])
        return w + "_outside_loop"

    # ---- declarations ---------------------------------------------------------------------------------------
    def let_type_change(self):
        c = [(lst, j) for lst, f, _, _ in self.s.lists for j in range(len(lst)) if lst[j][0] == "let"]
        if not c:
            return None
        lst, j = self.r.choice(c)
        old = lst[j][2]
        pool = ["int", "bool", "string", "float", ["array", "int"], ["array", "string"], ["array", "bool"], "void"]
        lst[j][2] = self.r.choice([t for t in pool if t != old])
        return "let_type_change"

    def sig_type_change(self):
        fs = self.user_funcs()
        if not fs:
            return None
        f = self.r.choice(fs)
        pool = ["int", "bool", "string", "float", ["array", "int"], "void"]
        if f.params and self.r.random() < 0.5:
            p = self.r.choice(f.params)
            p[1] = self.r.choice([t for t in pool[:5] if t != p[1]])
            return "param_type_change"
        f.ret = self.r.choice([t for t in pool if t != f.ret])
        return "ret_type_change"

    def redeclare(self):
        c = [(lst, j, f) for lst, f, _, _ in self.s.lists for j in range(len(lst)) if lst[j][0] == "let"]
        if not c:
            return None
        lst, j, f = self.r.choice(c)
        k = self.r.random()
        old = lst[j][1]

        def rename_let(new):
            lst[j][1] = new
        if k < 0.3:
            lst.insert(j + 1, copy.deepcopy(lst[j]))
            return "redeclare_same_scope"
        if k < 0.5 and f.params:
            rename_let(self.r.choice(f.params)[0])
            return "let_named_like_param"
        if k < 0.65 and self.ty.globals:
            rename_let(self.r.choice(sorted(self.ty.globals)))
            return "let_named_like_global"
        if k < 0.8:
            rename_let(self.r.choice([g.name for g in self.s.funcs] + ["println", "abs", "str_length", "at"]))
            return "let_named_like_function"
        others = [n for n in self.loc(f) if n != old]
        if not others:
            return None
        rename_let(self.r.choice(others))
        return "let_named_like_other_local"

    def c_reserved_name(self):
        fs = [f for f in self.s.funcs if self.loc(f)]
        if not fs:
            return None
        f = self.r.choice(fs)
        old = self.r.choice(sorted(self.loc(f)))
        new = self.r.choice(C_RESERVED)

        def ren(x):
            if isinstance(x, list):
                if len(x) >= 2 and x[0] in ("var", "let", "set", "for") and x[1] == old:
                    x[1] = new
                for y in x:
                    ren(y)
        ren(f.body)
        for p in f.params:
            if p[0] == old:
                p[0] = new
        return "c_reserved_name"

    def fn_renamed_reserved(self):
        fs = [f for f in self.user_funcs() if not f.name.startswith("tr_")]
        if not fs:
            return None
        f = self.r.choice(fs)
        old, new = f.name, self.r.choice(["printf", "strlen", "malloc", "exit", "double", "register", "nl_println_int", "abs", "print",
                                          "dyn_array_new", "memcpy", "str_length", "f1", "tr_int"])
        if new == old:
            return None

        def ren(x):
            if isinstance(x, list):
                if len(x) >= 2 and x[0] in ("call", "fnref") and x[1] == old:
                    x[1] = new
                for y in x:
                    ren(y)
        for g in self.s.funcs:
            ren(g.body)
        f.name = new
        return "fn_named_like_c_symbol"

    def global_init_expr(self):
        gs = self.p.main.globals
        if not gs:
            return None
        g = self.r.choice(gs)
        k = self.r.random()
        fs = [f for f in self.user_funcs() if not f.params and f.ret == g[1]]
        if k < 0.3 and fs:
            g[3] = ["call", self.r.choice(fs).name, []]
            return "global_init_call"
        others = [o for o in gs if o is not g]
        if k < 0.55 and others:
            g[3] = ["var", self.r.choice(others)[0]]
            return "global_init_other_global"
        if g[1] == "int":
            g[3] = self.r.choice([["bin", "+", ["int", 9223372036854775807], ["int", 1]], ["un", "neg", ["int", -5]],
                                  ["bin", "/", ["int", 1], ["int", 0]], ["call", "abs", [["int", -4]]],
                                  ["call", "str_length", [["str", "abc"]]], ["cond", [[["bool", True], ["int", 1]]], ["int", 2]]])
            return "global_init_expr"
        if g[1] == "string":
            g[3] = self.r.choice([["bin", "+", ["str", "a"], ["str", "b"]], ["call", "int_to_string", [["int", 4]]]])
            return "global_init_expr"
        g[3] = ["bin", "<", ["int", 1], ["int", 2]] if g[1] == "bool" else g[3]
        return "global_init_expr" if g[1] == "bool" else None

    def global_shapes(self):
        k = self.r.random()
        name = "gq%d" % self.r.randint(1, 99)
        if k < 0.25:
            self.p.main.globals.append([name, ["array", "int"], self.r.random() < 0.5, ["arr", "int", [["int", 1], ["int", 2]]]])
            use = ["print", ["call", "array_length", [["var", name]]], True]
            kind = "global_array"
        elif k < 0.5 and self.p.main.structs:
            sn, fs = self.r.choice(self.p.main.structs)
            lit = ["structlit", sn, [[f, LIT[t](self.r) if isinstance(t, str) and t in LIT else None] for f, t in fs]]
            if any(v is None for _, v in lit[2]):
                return None
            self.p.main.globals.append([name, ["struct", sn], False, lit])
            use = ["print", ["str", "g"], True]
            kind = "global_struct"
        elif k < 0.75:
            self.p.main.globals.append([name, "float", True, ["float", 1.5]])
            use = ["set", name, ["bin", "+", ["var", name], ["float", 1.0]]]
            kind = "global_float_mut"
        else:
            self.p.main.globals.append([name, ["tuple", ["int", "bool"]], False, ["tuple", [["int", 1], ["bool", True]]]])
            use = ["print", ["tidx", ["var", name], 0], True]
            kind = "global_tuple"
        f = self.r.choice(self.s.funcs)
        f.body.insert(0, use)
        return kind

    # ---- calls -------------------------------------------------------------------------------------------------
    def arg_count(self):
        user = set(f.name for f in self.s.funcs) | set(f.name for m in self.p.modules for f in m.funcs)
        calls = self.s.of_kind("call")
        if not calls:
            return None
        ucalls = [c for c in calls if c[0][c[1]][1] in user]
        if ucalls and self.r.random() < 0.6:
            calls = ucalls
        h, i, _ = self.r.choice(calls)
        e = h[i]
        who = "user" if e[1] in user else "builtin"
        if e[2] and self.r.random() < 0.5:
            del e[2][self.r.randrange(len(e[2]))]
            return "arg_dropped_%s" % who
        e[2].insert(self.r.randint(0, len(e[2])), copy.deepcopy(self.r.choice(e[2])) if e[2] and self.r.random() < 0.6 else LIT["int"](self.r))
        return "arg_extra_%s" % who

    def arg_swap(self):
        calls = self.s.of_kind("call", lambda e, c: len(e[2]) >= 2)
        if not calls:
            return None
        h, i, _ = self.r.choice(calls)
        a = h[i][2]
        x, y = self.r.sample(range(len(a)), 2)
        a[x], a[y] = a[y], a[x]
        return "args_swapped"

    def call_retarget(self):
        calls = self.s.of_kind("call")
        if not calls:
            return None
        h, i, _ = self.r.choice(calls)
        e = h[i]
        names = [f.name for f in self.s.funcs if f.name != e[1]] + list(BUILTIN_RET) + ["println", "print", "at", "array_push", "range"]
        e[1] = self.r.choice(names)
        return "call_retargeted"

    def call_nonfunction(self):
        if not self.s.exprs:
            return None
        h, i, (f, _) = self.r.choice(self.s.exprs)
        names = sorted(self.loc(f))
        if not names:
            return None
        k = self.r.random()
        if k < 0.5:
            h[i] = ["call", self.r.choice(names), [self.int_leaf(f)]]
            return "call_of_variable"
        fs = self.user_funcs()
        if not fs:
            return None
        h[i] = ["fnref", self.r.choice(fs).name]
        return "function_name_as_value"

    def void_as_value(self):
        if not self.s.exprs:
            return None
        h, i, (f, _) = self.r.choice(self.s.exprs)
        voids = [g for g in self.user_funcs() if g.ret == "void" and not g.params]
        if voids and self.r.random() < 0.5:
            h[i] = ["call", self.r.choice(voids).name, []]
        else:
            h[i] = ["call", self.r.choice(["println", "print"]), [self.int_leaf(f)]]
        return "void_call_as_value"

    def self_call(self):
        fs = [f for f in self.user_funcs() if not f.name.startswith("tr_")]
        if not fs:
            return None
        f = self.r.choice(fs)
        args = []
        for n, t in f.params:
            args.append(["var", n])
        call = ["call", f.name, args]
        if f.ret == "void" or self.r.random() < 0.5:
            f.body.insert(0, ["expr", call])
        else:
            f.body.insert(0, ["return", call])
        return "unconditional_self_call"

    def import_fnvalue(self):
        imported = [f for m in self.p.modules for f in m.funcs if all(isinstance(t, str) for _, t in f.params) and isinstance(f.ret, str)
                    and f.ret != "void" and f.params]
        if not imported:
            m = A.Module("m9")
            fn = A.Func("imp9", [["x", "int"]], "int", [["return", ["bin", "+", ["var", "x"], ["int", 1]]]], shadow=[["assert", ["bool", True]]], pub=True)
            m.funcs.append(fn)
            self.p.modules.append(m)
            self.p.main.imports.append(["m9.nano", ["imp9"]])
            imported = [fn]
        fn = self.r.choice(imported)
        ft = ["fn", [t for _, t in fn.params], fn.ret]
        host = self.r.choice(self.s.funcs)
        args = [LIT[t](self.r) if t in LIT else ["int", 0] for _, t in fn.params]
        k = self.r.random()
        if k < 0.5:
            name = "gv%d" % self.r.randint(1, 99)
            host.body[0:0] = [["let", name, ft, False, ["fnref", fn.name]], ["let", name + "r", fn.ret, False, ["callv", ["var", name], args]]]
            return "import_fn_as_value_let"
        hofs = [g for g in self.s.funcs for n, t in g.params if isinstance(t, list) and t[0] == "fn" and t == ft]
        if hofs:
            calls = self.s.of_kind("call", lambda e, c: e[1] == hofs[0].name)
            for h, i, _ in calls:
                for ai, (pn, pt) in enumerate(hofs[0].params):
                    if pt == ft and ai < len(h[i][2]):
                        h[i][2][ai] = ["fnref", fn.name]
                        return "import_fn_as_value_arg"
        apn = "ap%d" % self.r.randint(1, 99)
        ap = A.Func(apn, [["g", ft]] + [["a%d" % j, t] for j, (_, t) in enumerate(fn.params)], fn.ret,
                    [["return", ["callv", ["var", "g"], [["var", "a%d" % j] for j in range(len(fn.params))]]]], shadow=[["assert", ["bool", True]]])
        self.p.main.funcs.insert(0, ap)
        host.body.insert(0, ["let", apn + "r", fn.ret, False, ["call", apn, [["fnref", fn.name]] + args]])
        return "import_fn_as_value_arg"

    def nest_fn(self):
        hosts = [f for f in self.s.funcs]
        host = self.r.choice(hosts)
        loc = self.loc(host)
        k = self.r.random()
        name = "in%d" % self.r.randint(1, 99)
        cap = None
        body_e = ["bin", "+", ["var", "x"], ["int", 1]]
        if k < 0.3:
            kind = "nest_fn_plain"
        elif k < 0.55:
            ints = [n for n, t in loc.items() if t == "int"]
            if ints:
                cap = self.r.choice(ints)
                body_e = ["bin", "+", ["var", "x"], ["var", cap]]
                kind = "nest_fn_capture_int"
            else:
                kind = "nest_fn_plain"
        elif k < 0.75:
            arrs = [n for n, t in loc.items() if isinstance(t, list) and t[0] == "array"]
            if arrs:
                cap = self.r.choice(arrs)
                body_e = ["bin", "+", ["var", "x"], ["call", "array_length", [["var", cap]]]]
                kind = "nest_fn_capture_array"
            else:
                kind = "nest_fn_plain"
        elif k < 0.9:
            strs = [n for n, t in loc.items() if t == "string"]
            if strs:
                cap = self.r.choice(strs)
                body_e = ["bin", "+", ["var", "x"], ["call", "str_length", [["var", cap]]]]
                kind = "nest_fn_capture_string"
            else:
                kind = "nest_fn_plain"
        else:
            # a whole existing function moved inside another one
            donors = [f for f in self.user_funcs() if f is not host and not f.name.startswith("tr_")]
            if not donors:
                return None
            d = self.r.choice(donors)
            self.p.main.funcs.remove(d)
            d.shadow = None          # a shadow block is only allowed at top level
            host.body.insert(0, ["fndef", d])
            return "fn_moved_into_fn"
        fn = A.Func(name, [["x", "int"]], "int", [["return", body_e]], shadow=None)
        # place it after the captured variable's let when possible
        pos = 0
        if cap is not None:
            for j, s in enumerate(host.body):
                if s[0] == "let" and s[1] == cap:
                    pos = j + 1
        use = ["print", ["call", name, [["int", 3]]], True]
        host.body[pos:pos] = [["fndef", fn], use]
        return kind

    # ---- aggregates -------------------------------------------------------------------------------------------
    def field_wrong(self):
        fs = self.s.of_kind("field")
        ts = self.s.of_kind("tidx")
        if ts and (not fs or self.r.random() < 0.4):
            h, i, _ = self.r.choice(ts)
            h[i][2] = self.r.choice([2, 3, 7, h[i][2] + 1])
            return "tuple_index_changed"
        if not fs:
            return None
        h, i, _ = self.r.choice(fs)
        names = sorted(set(f for st in self.ty.structs.values() for f in st) | {"zz", "a0", "a1"})
        h[i][2] = self.r.choice([n for n in names if n != h[i][2]] or ["zz"])
        return "field_name_changed"

    def structlit_fields(self):
        ss = self.s.of_kind("structlit") + self.s.of_kind("unionlit")
        if not ss:
            return None
        h, i, _ = self.r.choice(ss)
        fl = h[i][2] if h[i][0] == "structlit" else h[i][3]
        if not fl:
            return None
        k = self.r.random()
        if k < 0.4:
            del fl[self.r.randrange(len(fl))]
            return "struct_literal_field_dropped"
        if k < 0.7 and len(fl) >= 2:
            fl.reverse()
            return "struct_literal_fields_reordered"
        fl.append(copy.deepcopy(self.r.choice(fl)))
        return "struct_literal_field_duplicated"

    def match_arms(self):
        ms = [(lst, j) for lst, f, _, _ in self.s.lists for j in range(len(lst)) if lst[j][0] == "match"]
        mes = self.s.of_kind("matche")
        if mes and (not ms or self.r.random() < 0.4):
            h, i, _ = self.r.choice(mes)
            arms = h[i][2]
        elif ms:
            lst, j = self.r.choice(ms)
            arms = lst[j][2]
        else:
            return None
        k = self.r.random()
        if k < 0.4 and len(arms) > 1:
            del arms[self.r.randrange(len(arms))]
            return "match_arm_dropped"
        if k < 0.6:
            arms.append(copy.deepcopy(self.r.choice(arms)))
            return "match_arm_duplicated"
        if k < 0.8 and len(arms) > 1:
            a, b = self.r.sample(range(len(arms)), 2)
            arms[a][0], arms[b][0] = arms[b][0], arms[a][0]
            return "match_arm_variants_swapped"
        arms[self.r.randrange(len(arms))][0] = "Vx"
        return "match_arm_unknown_variant"

    def set_target(self):
        c = [(lst, f) for lst, f, _, _ in self.s.lists]
        lst, f = self.r.choice(c)
        loc = self.loc(f)
        if not loc:
            return None
        n = self.r.choice(sorted(loc))
        t = loc[n]
        val = LIT[t](self.r) if isinstance(t, str) and t in LIT else ["int", 0]
        lst.insert(self.r.randint(0, max(0, len(lst) - 1)), ["set", n, val])
        return "set_inserted"

    def array_ops(self):
        loc_sites = [(lst, f) for lst, f, _, _ in self.s.lists]
        lst, f = self.r.choice(loc_sites)
        arrs = [(n, t) for n, t in self.loc(f).items() if isinstance(t, list) and t[0] == "array"]
        if not arrs:
            return None
        n, t = self.r.choice(arrs)
        k = self.r.random()
        if k < 0.3:
            st = ["print", ["call", "at", [["var", n], ["int", self.r.choice([-1, 99, 4294967296])]]], True]
            kind = "array_at_constant_index"
        elif k < 0.5:
            st = ["expr", ["call", "array_set", [["var", n], ["int", 0], LIT[self.r.choice(list(LIT))](self.r)]]]
            kind = "array_set_inserted"
        elif k < 0.7:
            st = ["set", n, ["call", "array_push", [["var", n], LIT[self.r.choice(list(LIT))](self.r)]]]
            kind = "array_push_inserted"
        elif k < 0.85:
            st = ["print", ["bin", self.r.choice(["+", "==", "<"]), ["var", n], ["var", n]], True]
            kind = "array_binop"
        else:
            st = ["print", ["var", n], True]
            kind = "array_printed"
        lst.insert(self.r.randint(0, max(0, len(lst) - 1)), st)
        return kind

    def print_aggregate(self):
        c = [(lst, f) for lst, f, _, _ in self.s.lists]
        lst, f = self.r.choice(c)
        ag = [(n, t) for n, t in self.loc(f).items() if isinstance(t, list) or t == "float"]
        if not ag:
            return None
        n, t = self.r.choice(ag)
        lst.insert(self.r.randint(0, max(0, len(lst) - 1)), ["print", ["var", n], True])
        return "print_of_" + (t if isinstance(t, str) else t[0])

    def cond_shapes(self):
        cs = self.s.of_kind("cond")
        if not cs:
            return None
        h, i, _ = self.r.choice(cs)
        e = h[i]
        k = self.r.random()
        if k < 0.35:
            e[1] = []
            return "cond_without_arms"
        if k < 0.7:
            e[2], e[1][0][1] = e[1][0][1], e[2]
            return "cond_values_swapped"
        e[1].append(copy.deepcopy(e[1][0]))
        return "cond_arm_duplicated"

    def for_range(self):
        fs = [(lst, j, f) for lst, f, _, _ in self.s.lists for j in range(len(lst)) if lst[j][0] == "for"]
        if not fs:
            return None
        lst, j, f = self.r.choice(fs)
        st = lst[j]
        k = self.r.random()
        if k < 0.3:
            st[2], st[3] = st[3], st[2]
            return "for_bounds_swapped"
        if k < 0.55:
            st[3] = self.int_leaf(f)
            return "for_bound_variable"
        if k < 0.8:
            st[4].insert(0, ["set", st[1], ["bin", "+", ["var", st[1]], ["int", 1]]])
            return "for_variable_assigned"
        names = [n for n in self.loc(f) if n != st[1]]
        if not names:
            return None
        st[1] = self.r.choice(names)
        return "for_variable_reuses_local"

    def shadow_body(self):
        fs = [f for f in self.user_funcs() if f.shadow is not None]
        if not fs:
            return None
        f = self.r.choice(fs)
        k = self.r.random()
        if k < 0.5:
            f.shadow = None
            return "shadow_block_removed"
        g = self.r.choice(self.user_funcs())
        f.shadow = [["assert", ["bin", "==", ["int", 1], ["int", 1]]], ["expr", ["call", "println", [["str", "in shadow"]]]]]
        return "shadow_block_prints"


MUTATORS = [
    # (method name, weight, family).  The family names the kind of source construct a mutation introduces (evidence only).
    ("xfn_local", 10, "ident"), ("swap_idents", 5, "ident"), ("swap_idents_same_fn", 4, "ident"),
    ("op_swap", 9, "operator"), ("str_cmp_order", 4, "operator"), ("cmp_same", 3, "operator"), ("arith_same", 1, "operator"),
    ("strlen_in_cmp", 4, "operator"), ("cmp_of_cmp", 3, "operator"), ("neg_wrap", 3, "operator"), ("not_wrap", 1, "operator"),
    ("lit_boundary", 8, "literal"), ("str_escape", 2, "literal"),
    ("lit_other_type", 5, "types"), ("expr_other_type", 5, "types"), ("let_type_change", 4, "types"), ("sig_type_change", 4, "types"),
    ("stmt_into_block", 6, "stmt-move"), ("stmt_out_of_block", 6, "stmt-move"), ("let_moved_down", 3, "stmt-move"),
    ("stmt_delete", 3, "stmt-move"), ("stmt_dup", 3, "stmt-move"), ("stmt_to_other_fn", 3, "stmt-move"), ("empty_block", 1, "stmt-move"),
    ("drop_return", 2, "control"), ("return_mismatch", 2, "control"), ("break_outside", 2, "control"), ("self_call", 2, "control"),
    ("for_range", 2, "control"), ("cond_shapes", 2, "control"), ("set_target", 3, "control"),
    ("redeclare", 5, "names"), ("c_reserved_name", 3, "names"), ("fn_renamed_reserved", 2, "names"),
    ("global_init_expr", 3, "globals"), ("global_shapes", 2, "globals"),
    ("arg_count", 6, "calls"), ("arg_swap", 3, "calls"), ("call_retarget", 3, "calls"), ("call_nonfunction", 3, "calls"),
    ("void_as_value", 2, "calls"),
    ("import_fnvalue", 4, "fnvalue"), ("nest_fn", 7, "fnvalue"),
    ("field_wrong", 3, "aggregate"), ("structlit_fields", 2, "aggregate"), ("match_arms", 3, "aggregate"), ("array_ops", 3, "aggregate"),
    ("print_aggregate", 2, "aggregate"),
    ("shadow_body", 1, "shadow"),
]
FAMILIES = sorted(set(f for _, _, f in MUTATORS))


MUTANT_CORPUS = "C04-mutant-corpus-v1"


def mutate(prog, rng):
    """-> (kind, family, mutated Program) or None.  Exactly one mutation (a key names the family of the mutation)."""
    p = mutable_program(prog)
    names = [m[0] for m in MUTATORS]
    weights = [m[1] for m in MUTATORS]
    fam = dict((m[0], m[2]) for m in MUTATORS)
    for _try in range(6):
        name = rng.choices(names, weights)[0]
        try:
            k = getattr(M(p, rng), name)()
        except (IndexError, KeyError, TypeError, ValueError, AttributeError):
            # a mutator that gave up half way may have touched the program: start from a fresh copy
            p = mutable_program(prog)
            k = None
        if k:
            return k, fam[name], p
    return None


# ======================================================================================================================
# C04's own cells (witnesses of today's accepted-but-stuck constructs that are not census programs)
# ======================================================================================================================

def load_cells():
    """findings/C04/*.nano -> {name: {file: text}}; `name__mod.nano` is an extra module file of cell `name`"""
    d = os.path.join(os.path.dirname(os.path.dirname(os.path.dirname(os.path.abspath(__file__)))), "findings", "C04")
    cells = {}
    if not os.path.isdir(d):
        return cells
    for fn in sorted(os.listdir(d)):
        if not fn.endswith(".nano"):
            continue
        base = fn[:-5]
        with open(os.path.join(d, fn)) as f:
            text = f.read()
        if "__" in base:
            cell, mod = base.split("__", 1)
            cells.setdefault(cell, {})[mod + ".nano"] = text
        else:
            cells.setdefault(base, {})["main.nano"] = text
    return cells


# ======================================================================================================================
# shrinking a stuck mutant (only for keys that are not listed yet)
# ======================================================================================================================

def shrink(prog, same, budget=60):
    """greedy removal of function bodies, functions, declarations and statements of a mutable Program while same(Program) holds"""
    best = prog
    calls = 0

    def attempt(c):
        nonlocal calls
        if calls >= budget:
            return False
        calls += 1
        try:
            return same(c)
        except Exception:
            return False

    def trivial_body(f):
        if f.ret == "void":
            return []
        if isinstance(f.ret, str) and f.ret in LIT:
            return [["return", {"int": ["int", 0], "bool": ["bool", True], "string": ["str", ""], "float": ["float", 0.5]}[f.ret]]]
        return None
    changed = True
    while changed and calls < budget:
        changed = False
        # 1. whole bodies (main first: it calls everything)
        for i in range(len(best.main.funcs) - 1, -1, -1):
            f = best.main.funcs[i]
            tb = trivial_body(f)
            if tb is None or f.body == tb:
                continue
            c = copy.deepcopy(best)
            c.main.funcs[i].body = tb
            if attempt(c):
                best, changed = c, True
        # 2. functions, modules, declarations
        for i in range(len(best.main.funcs) - 1, -1, -1):
            if best.main.funcs[i].name == "main":
                continue
            c = copy.deepcopy(best)
            del c.main.funcs[i]
            if attempt(c):
                best, changed = c, True
        if best.modules or best.main.imports:
            c = copy.deepcopy(best)
            c.modules, c.main.imports = [], []
            if attempt(c):
                best, changed = c, True
        for attr in ("globals", "unions", "structs", "enums"):
            for i in range(len(getattr(best.main, attr)) - 1, -1, -1):
                c = copy.deepcopy(best)
                del getattr(c.main, attr)[i]
                if attempt(c):
                    best, changed = c, True
        # 3. statements: halves, then singles
        li = 0
        while li < len(Sites(best).lists) and calls < budget:
            size = len(Sites(best).lists[li][0])
            chunk = max(1, size // 2)
            while chunk >= 1 and calls < budget:
                j = 0
                while calls < budget:
                    lists = Sites(best).lists
                    if li >= len(lists) or j >= len(lists[li][0]):
                        break
                    if any(st[0] == "return" for st in lists[li][0][j:j + chunk]):
                        # keep returns: a missing return is accepted as well and would turn the witness into one of that defect
                        j += 1
                        continue
                    c = copy.deepcopy(best)
                    del Sites(c).lists[li][0][j:j + chunk]
                    if attempt(c):
                        best, changed = c, True
                    else:
                        j += chunk
                chunk //= 2
            li += 1
    return best


# ======================================================================================================================
# the check
# ======================================================================================================================

def report(ctx, oc, what, files, extra=None):
    f = dict(files)
    if extra:
        f.update(extra)
    f["classifier.txt"] = "stage=%s class=%s detail=%s\ndiagnostics=%s\n\n%s" % (oc.stage, oc.cls, oc.detail, oc.titles, oc.text[-3000:])
    f["cmd.txt"] = ("nanoc main.nano -o main.bin --verbose && ./main.bin   # native\n"
                    "NLVERIF_FUEL=%d nano_virt main.nano --run             # VM\n" % FUEL)
    ctx.violation(oc.key, "%s\n%s" % (what, oc.text.strip()[-700:]), f)


def run(ctx):
    plain = build.get("plain")
    hist = {}
    stuck_keys = {}
    watchdogs = [0]

    def count(label):
        hist[label] = hist.get(label, 0) + 1

    def note_stuck(oc, origin):
        stuck_keys.setdefault(oc.key, []).append(origin)

    with Scratch("c04") as sc:
        def both(d, files, native=True):
            engines.write_files(d, files)
            v, vr = classify_vm(plain, d)
            if v.cls == "watchdog":
                v, vr = classify_vm(plain, d)
            n = None
            if native and v.cls != "rejected":
                n, nr, rr = classify_native(plain, d, v)
                if n.cls == "watchdog":
                    n, nr, rr = classify_native(plain, d, v)
            for o in (v, n):
                if o is not None and o.cls == "watchdog":
                    watchdogs[0] += 1
            return v, n

        # ---- (2) cells: census programs and C04 witnesses ---------------------------------------------------------------
        cells = {}
        for name, text, exp in sweep.census_cells():
            # the cell's shadow block calls the cell body at compile time (C03's subject); here it is neutralised
            fs = census.files(name)
            fs["main.nano"] = fs["main.nano"].replace('shadow t {\n    (println "<<S")\n    (t)\n    (println ">>E")\n}', "shadow t { assert true }")
            cells["census/" + name] = fs
        for name, files in load_cells().items():
            cells["c04/" + name] = files
        cell_names = sorted(cells)

        def do_cell(name):
            return name, both(sc.sub("cell/" + name.replace("/", "_")), cells[name])

        cell_out = {}
        for name, (v, n) in pmap(do_cell, cell_names):
            labs = []
            for side, o in (("vm", v), ("native", n)):
                if o is None:
                    continue
                labs.append("%s=%s" % (side, o.label()))
                count("cell:%s:%s" % (side, o.cls))
                if o.cls == "stuck":
                    wfam = name[4:].split("-")[0] if name.startswith("c04/") and "-" in name else None
                    if wfam in FAMILIES:
                        # the witness of a mutant key: its file name starts with the family of the mutation that produced it
                        o.key = o.make_key(wfam)
                    elif name.startswith("census/") or name.startswith("c04/cell_"):
                        # a hand-written cell is a named construct: it is listed on its own, not under the message it shares
                        # with other causes (witnesses of mutant keys, the other files of findings/C04, keep the plain key)
                        o.key = "cell|%s|%s|%s" % (name.split("/", 1)[1].replace("cell_", "", 1) if name.startswith("c04/") else name, o.stage, o.detail)
                    note_stuck(o, "cell " + name)
                    report(ctx, o, "cell %s (%s backend): accepted by the type checker, then stuck at stage '%s': %s" % (
                        name, side, o.stage, o.detail), cells[name])
            cell_out[name] = " ".join(labs)
        n_cells_clean = sum(1 for v in cell_out.values() if "stuck" not in v and "rejected" not in v and "watchdog" not in v)

        # ---- (2b) well-formed families outside the generator's discipline (c04_families.py) -----------------------------
        fam_cells = [(n, ("declorder", a, b), fs) for n, a, b, fs in c04_families.declorder_cells(not ctx.quick())] + \
                    [(n, ("globalinit", a, b), fs) for n, a, b, fs in c04_families.globalinit_cells(not ctx.quick())]

        def do_fam(c):
            return c, both(sc.sub("fam/" + c[0].replace("/", "_")), c[2])

        fam_hist = {}
        fam_clean = set()
        for (name, (fam, a, b), fs), (v, n) in pmap(do_fam, fam_cells):
            for side, o in (("vm", v), ("native", n)):
                if o is None:
                    continue
                lab = "%s:%s:%s" % (fam, side, o.cls)
                fam_hist[lab] = fam_hist.get(lab, 0) + 1
                if o.cls == "stuck":
                    # keyed by family member (shape and order class / initialiser and mutability), stage and message
                    o.key = "family|%s|%s|%s|%s|%s" % (fam, a, b, o.stage, o.detail)
                    note_stuck(o, "family cell " + name)
                    report(ctx, o, "family cell %s (%s backend): a well-formed program is accepted, then stuck at stage '%s': %s" % (
                        name, side, o.stage, o.detail), fs)
            if v.cls == "ok" and n is not None and n.cls == "ok":
                fam_clean.add((fam, a))
        if not ctx.violations:
            ctx.require(len(fam_clean) >= 40, "only %d family members ran clean on both backends: %s" % (len(fam_clean), fam_hist))

        # ---- (1) generator programs with the default switches: must be clean ------------------------------------------
        nprog = ctx.n(150, 1500)
        batch = sweep.gen_batch(ctx, nprog)
        ctx.require(len(batch) >= nprog * 0.6, "generator produced too few in-zone programs (%d of %d)" % (len(batch), nprog))

        def do_prog(item):
            i, prog, exp = item
            d = sc.sub("p%05d" % i)
            res = both(d, prog.files())
            _thin(d)
            return item, res

        clean_sets = set()
        n_clean = 0
        samples = []
        for (i, prog, exp), (v, n) in pmap(do_prog, batch):
            allok = True
            for side, o in (("vm", v), ("native", n)):
                if o is None:
                    allok = False
                    continue
                count("gen:%s:%s" % (side, o.label() if o.cls != "ok" else "ok"))
                if o.cls != "ok":
                    allok = False
                if o.cls == "stuck":
                    # a program of the generator's discipline is well formed: nothing that happens to it is explained by a
                    # finding about ill-formed programs, so its key lives in a namespace of its own
                    raw = o.key
                    o.key = "wellformed|%s|%s|%s" % (o.stage, o.detail, tset(o.titles))
                    note_stuck(o, "generated program %d" % i)
                    files = dict(prog.files())
                    if o.key not in ctx.open and o.key not in ctx._vseen:
                        small = _reduce_generated(plain, sc, prog, side, raw, i)
                        files.update({"reduced/" + k: t for k, t in small.items()})
                    report(ctx, o, "generated program %d (default switches, %s backend) is accepted and then stuck at '%s': %s" % (
                        i, side, o.stage, o.detail), files)
                elif o.cls == "rejected":
                    # a program of the generator's discipline that the checker refuses is outside C04 (nothing was accepted)
                    pass
            if allok:
                n_clean += 1
                clean_sets.add(frozenset(prog.tags))
                if len(samples) < 2:
                    samples.append({"what": "generated program %d ran to a normal exit on both backends" % i, "features": sorted(prog.tags)[:12]})

        # ---- (3) accepted mutants ---------------------------------------------------------------------------------------
        nmut = ctx.n(1500, 15000)
        nnative = ctx.n(300, 3000)
        per_base = 10
        # The mutant corpus does not depend on VERIF_SEED.  Ill-formed programs the checker accepts are an open-ended class
        # (findings/C04/known.json lists the members this corpus reaches): a corpus redrawn per seed would report a further
        # member of the same listed class on every fresh seed, which tells nothing about a change to the tree.  VERIF_SEED
        # varies the well-formed sweep (1); the ill-formed side is a fixed regression corpus whose key set is closed.
        bases = sweep.gen_batch(ctx, max(1, (nmut + per_base - 1) // per_base), label="mutbase", fixed=MUTANT_CORPUS)
        muts = []
        seen_text = set()
        for i, prog, exp in bases:
            base_text = files_of(mutable_program(prog))["main.nano"]
            seen_text.add(base_text)
            for j in range(per_base * 2):
                if sum(1 for m in muts if m[0] == i) >= per_base or len(muts) >= nmut:
                    break
                res = mutate(prog, sweep.fixed_rng(MUTANT_CORPUS, "mut", i, j))
                if res is None:
                    continue
                kind, family, mp = res
                kind = family + "/" + kind
                try:
                    files = files_of(mp)
                except (ValueError, TypeError, IndexError, KeyError):
                    continue
                key = "\0".join(files[k] for k in sorted(files))
                if key in seen_text:
                    continue
                seen_text.add(key)
                muts.append((i, len(muts), kind, mp, files))
        ctx.require(len(muts) >= nmut * 0.7, "mutation produced too few distinct mutants (%d of %d)" % (len(muts), nmut))

        def do_mut_vm(m):
            i, mi, kind, mp, files = m
            d = sc.sub("m%06d" % mi)
            engines.write_files(d, files)
            v, vr = classify_vm(plain, d)
            if v.cls == "watchdog":
                v, vr = classify_vm(plain, d)
            return m, v

        vm_res = pmap(do_mut_vm, muts)
        accepted = []
        stuck_reports = []
        pair_set = set()
        kinds_seen = {}
        n_rejected = 0
        for (i, mi, kind, mp, files), v in vm_res:
            k0 = kind
            if v.cls == "stuck":
                v.key = v.make_key(kind.split("/")[0])
            ks = kinds_seen.setdefault(k0, [0, 0])
            ks[0] += 1
            if v.cls == "watchdog":
                watchdogs[0] += 1
            if v.cls == "rejected":
                n_rejected += 1
                count("mutant:vm:rejected:" + v.detail)
                continue
            ks[1] += 1
            accepted.append((i, mi, kind, mp, files, v))
            count("mutant:vm:" + v.label())
            pair_set.add((k0, "vm:" + v.label()))
            if v.cls == "stuck":
                note_stuck(v, "mutant %d (%s)" % (mi, kind))
                stuck_reports.append((v, "vm", mi, kind, mp, files))

        # native side: a kind-balanced sample of the mutants the checker accepted
        by_kind = {}
        for a in accepted:
            by_kind.setdefault(a[2], []).append(a)
        order = []
        rr = sweep.fixed_rng(MUTANT_CORPUS, "native-sample")
        pools = [by_kind[k] for k in sorted(by_kind)]
        for p_ in pools:
            rr.shuffle(p_)
            # silently accepted mutants first (a diagnosed mutant is already explained by its diagnostic)
            p_.sort(key=lambda a: 0 if a[5].titles else 1 if a[5].cls == "stuck" else 2)
        while len(order) < nnative and any(pools):
            for p_ in pools:
                if p_ and len(order) < nnative:
                    order.append(p_.pop())

        def do_mut_native(a):
            i, mi, kind, mp, files, v = a
            d = os.path.join(sc.path, "m%06d" % mi)
            n, nr, rr_ = classify_native(plain, d, v)
            if n.cls == "watchdog":
                n, nr, rr_ = classify_native(plain, d, v)
            _thin(d)
            return a, n

        n_native_accepted = 0
        for (i, mi, kind, mp, files, v), n in pmap(do_mut_native, order):
            k0 = kind
            if n.cls == "stuck":
                n.key = n.make_key(kind.split("/")[0])
            if n.cls == "watchdog":
                watchdogs[0] += 1
            if n.cls == "rejected":
                count("mutant:native:rejected:" + n.detail)
                continue
            n_native_accepted += 1
            count("mutant:native:" + n.label())
            pair_set.add((k0, "native:" + n.label()))
            if n.cls == "stuck":
                note_stuck(n, "mutant %d (%s)" % (mi, kind))
                stuck_reports.append((n, "native", mi, kind, mp, files))

        # shrink the first mutant of every key that is not listed yet (in parallel), then report
        todo, seen_new = [], set()
        for rep in stuck_reports:
            k = rep[0].key
            if k not in ctx.open and k not in seen_new and len(todo) < SHRINK_MAX:
                seen_new.add(k)
                todo.append(rep)
        shrunk = dict(pmap(lambda rep: (rep[2], _shrink_mutant(plain, sc, *rep)), todo))
        for oc, side, mi, kind, mp, files in stuck_reports:
            report(ctx, oc, "mutant %d (mutation: %s; %s backend): accepted by the type checker, then stuck at stage '%s': %s" % (
                mi, kind, side, oc.stage, oc.detail), files, shrunk.pop(mi, None))

        # ---- evidence -----------------------------------------------------------------------------------------------------
        total = len(cell_names) + len(fam_cells) + len(batch) + len(muts)
        if not ctx.violations:
            ctx.require(watchdogs[0] <= max(3, total // 50), "too many watchdog expiries (%d): machine overloaded" % watchdogs[0])
            ctx.require(n_clean >= len(batch) * 0.8, "only %d of %d generated programs ran clean on both backends: %s" % (
                n_clean, len(batch), {k: v for k, v in hist.items() if k.startswith("gen:")}))
            ctx.require(len(accepted) >= len(muts) * 0.08, "only %d of %d mutants were accepted by the type checker" % (len(accepted), len(muts)))
            ctx.require(n_native_accepted >= min(len(order), nnative) * 0.5, "too few mutants reached the native backend (%d)" % n_native_accepted)
        for a in accepted[:400]:
            if a[5].cls == "ok" and len(samples) < 5:
                samples.append({"what": "mutant %d (%s) accepted, VM run ended normally" % (a[1], a[2])})
        for k, origins in list(stuck_keys.items())[:3]:
            samples.append({"what": "stuck key %s" % k, "first_seen_in": origins[0], "occurrences": len(origins)})
        return ctx.finish({
            "evaluations": total,
            "distinct_nontrivial": len(pair_set) + len(clean_sets) + n_cells_clean + len(fam_clean),
            "rule": "distinct (mutation kind, backend:outcome label) pairs among mutants the type checker accepted, plus distinct feature-tag "
                    "sets of generated programs that ran to a normal exit on both backends, plus cells that were not stuck, plus family members "
                    "(declaration-order shapes, global initialisers) that ran clean on both backends",
            "cells": len(cell_names),
            "family_cells": len(fam_cells),
            "family_outcomes": dict(sorted(fam_hist.items())),
            "family_members_clean_on_both_backends": len(fam_clean),
            "cells_outcome": cell_out,
            "programs_default_switches": len(batch),
            "programs_clean_both_backends": n_clean,
            "mutants_generated": len(muts),
            "mutants_accepted_by_nano_virt": len(accepted),
            "mutants_rejected_by_nano_virt": n_rejected,
            "mutants_sent_to_native": len(order),
            "mutants_accepted_by_nanoc": n_native_accepted,
            "mutation_kinds": {k: {"generated": v[0], "accepted": v[1]} for k, v in sorted(kinds_seen.items())},
            "outcomes": dict(sorted(hist.items())),
            "distinct_stuck_keys": {k: len(v) for k, v in sorted(stuck_keys.items())},
            "watchdog_expiries": watchdogs[0],
            "vm_fuel": FUEL, "native_cpu_seconds": NATIVE_CPU,
            "samples": samples,
        }, assumptions=[
            "acceptance is read off the tools: nano_virt prints none of 'lexer failed/parser failed/module loading failed/type check failed'; "
            "nanoc --verbose prints '✓ Type checking complete'",
            "shadow blocks of mutants are neutralised (assert true) so that nanoc's compile-time evaluator (C03, C06) does not stand between the "
            "type checker and the transpiler; generated programs of part (1) keep their shadow blocks",
            "a program cut by the VM fuel (%d instructions) or the native CPU limit (%d s) is skipped, not judged" % (FUEL, NATIVE_CPU),
            "a native SIGSEGV/SIGBUS is attributed to the call depth limit only when the VM run of the same program ended with 'Call depth exceeded' "
            "or ran out of fuel",
            "VM behaviours that are not an error ending (e.g. `at` out of range yielding void, C08) are not judged here",
            "fastcc links pre-compiled objects of the repository's own runtime sources instead of recompiling them per program",
        ])


def _thin(d):
    for fn in ("main.bin", "crash.bin", "crash.nvm"):
        try:
            os.unlink(os.path.join(d, fn))
        except OSError:
            pass
    for fn in os.listdir(d):
        if fn.endswith(".c") or fn.endswith(".genC"):
            try:
                os.unlink(os.path.join(d, fn))
            except OSError:
                pass


_SHRUNK = [0]
# development knobs (tools/c04_collect.py raises them to obtain a minimal witness for every new key)
SHRINK_MAX = int(os.environ.get("NLV_C04_SHRINK_MAX", "6"))
SHRINK_BUDGET = int(os.environ.get("NLV_C04_SHRINK_BUDGET", "50"))


def _key_of(plain, d, files, side, family=None):
    engines.write_files(d, files)
    v, _ = classify_vm(plain, d)
    if side == "vm":
        return v.make_key(family) if v.cls == "stuck" else None
    if v.cls == "rejected":
        return None
    n, _, _ = classify_native(plain, d, v)
    return n.make_key(family) if n.cls == "stuck" else None


def _shrink_mutant(plain, sc, oc, side, mi, kind, mp, files):
    cnt = [0]

    def same(c):
        cnt[0] += 1
        return _key_of(plain, sc.sub("shrink%d_%d" % (mi, cnt[0] % 4)), files_of(c), side, kind.split("/")[0]) == oc.key
    try:
        small = shrink(mp, same, budget=SHRINK_BUDGET if side == "vm" else SHRINK_BUDGET * 2 // 3)
        return {"reduced/" + k: t for k, t in files_of(small).items()}
    except Exception:
        return {}


def _reduce_generated(plain, sc, prog, side, key, i):
    cnt = [0]

    def still(p, e):
        cnt[0] += 1
        return _key_of(plain, sc.sub("red%d_%d" % (i, cnt[0] % 4)), p.files(), side) == key
    try:
        sig, small = sweep.reduced_key(prog, still, budget=40)
        return small.files()
    except Exception:
        return {}
