"""C02 - every execution engine implements the defined semantics (spec + NanoCore model) (DESIGN §4 C02).

E: an engine whose stdout/exit differs from the reference model's; a cell of the operator table whose result
   differs from the model's.
O: equality with the independent reference (nlv/gen/ref.py for programs; python integer arithmetic with int64
   wrap + truncating division for the tables; floor division (Coq Z.div / Z.modulo) for functions that
   `nanoc --trust-report` labels verified).
W: (1) exhaustive operator x boundary-value tables, operands passed through function parameters;
   (2) evaluation-order, short-circuit and scoping cells; (3) census cells against hand-written expectations;
   (4) the generated-program sweep (each engine against the model, so 'both wrong the same way' is visible).
"""
import re

from .. import build, engines, sweep, census
from ..gen import gen
from ..gen.ref import wrap, tdiv, tmod
from ..run import pmap, Scratch, run as sh

LEVEL = "exploration"

I64_MAX = (1 << 63) - 1
I64_MIN = -(1 << 63)
VALUES = [0, 1, -1, 2, -2, 7, -7, 1 << 31, 1 << 32, 1 << 62, I64_MAX, -I64_MAX, I64_MIN, 100]
ARITH = {"+": "add", "-": "sub", "*": "mul", "/": "div", "%": "mod"}
CMP = {"==": "eq", "!=": "ne", "<": "lt", "<=": "le", ">": "gt", ">=": "ge"}


def lit(v):
    if v == I64_MIN:
        return "(- -9223372036854775807 1)"
    return str(v)


def model_int(op, a, b):
    if op == "+":
        return wrap(a + b)
    if op == "-":
        return wrap(a - b)
    if op == "*":
        return wrap(a * b)
    if op == "/":
        return wrap(tdiv(a, b))
    if op == "%":
        return wrap(tmod(a, b))
    raise ValueError(op)


def model_cmp(op, a, b):
    return {"==": a == b, "!=": a != b, "<": a < b, "<=": a <= b, ">": a > b, ">=": a >= b}[op]


def floor_model(op, a, b):
    """Coq Z.div / Z.modulo (formal/Semantics.v): floor semantics"""
    return a // b if op == "/" else a % b


def table_programs():
    """[(name, text, expected stdout, n_cells)] - one program per operator; every program ends with a sentinel."""
    progs = []
    for op, nm in list(ARITH.items()) + list(CMP.items()):
        is_cmp = op in CMP
        lines = []
        exp = []
        n = 0
        for i, a in enumerate(VALUES):
            for j, b in enumerate(VALUES):
                if op in "/%" and b == 0:
                    continue
                if op in "/%" and a == I64_MIN and b == -1:
                    continue   # fault cell: run alone, see fault_cells()
                lab = "%s %d %d " % (nm, i, j)
                lines.append('    (print "%s")' % lab)
                lines.append("    (println (f %s %s))" % (lit(a), lit(b)))
                r = model_cmp(op, a, b) if is_cmp else model_int(op, a, b)
                exp.append(lab + ("true" if r is True else "false" if r is False else str(r)))
                n += 1
        # split the cells over several functions so no function gets huge
        chunks = [lines[k:k + 200] for k in range(0, len(lines), 200)]
        text = "fn f(a: int, b: int) -> %s {\n    return (%s a b)\n}\nshadow f { assert true }\n" % ("bool" if is_cmp else "int", op)
        for ci, ch in enumerate(chunks):
            text += "fn t%d() -> int {\n%s\n    return 0\n}\nshadow t%d { assert true }\n" % (ci, "\n".join(ch), ci)
        text += "fn main() -> int {\n" + "".join("    (t%d)\n" % ci for ci in range(len(chunks))) + '    (println "SENTINEL")\n    return 0\n}\nshadow main { assert true }\n'
        progs.append(("table_" + nm, text, "\n".join(exp) + "\nSENTINEL\n", n))
    # unary minus and boolean operators
    lines, exp = [], []
    for i, a in enumerate(VALUES):
        lines.append('    (print "neg %d ")' % i)
        lines.append("    (println (ng %s))" % lit(a))
        exp.append("neg %d %d" % (i, wrap(-a)))
    for a in (True, False):
        lines.append('    (print "not %s ")' % str(a).lower())
        lines.append("    (println (nt %s))" % str(a).lower())
        exp.append("not %s %s" % (str(a).lower(), str(not a).lower()))
        for b in (True, False):
            for op, fn in (("and", "an"), ("or", "orr")):
                lines.append('    (print "%s %s %s ")' % (op, str(a).lower(), str(b).lower()))
                lines.append("    (println (%s %s %s))" % (fn, str(a).lower(), str(b).lower()))
                exp.append("%s %s %s %s" % (op, str(a).lower(), str(b).lower(), str((a and b) if op == "and" else (a or b)).lower()))
    text = ("fn ng(a: int) -> int {\n    return (- a)\n}\nshadow ng { assert true }\n"
            "fn nt(a: bool) -> bool {\n    return (not a)\n}\nshadow nt { assert true }\n"
            "fn an(a: bool, b: bool) -> bool {\n    return (and a b)\n}\nshadow an { assert true }\n"
            "fn orr(a: bool, b: bool) -> bool {\n    return (or a b)\n}\nshadow orr { assert true }\n"
            "fn main() -> int {\n" + "\n".join(lines) + '\n    (println "SENTINEL")\n    return 0\n}\nshadow main { assert true }\n')
    progs.append(("table_unary_bool", text, "\n".join(exp) + "\nSENTINEL\n", len(exp)))
    return progs


NEST_TRIPLES = [(7, 5, 3), (-7, 5, 3), (100, 7, -2), (2, 3, 5), (-9, -4, 2), (I64_MAX, 2, 3), (6, 4, 2), (1, 2, 3), (-1, I64_MIN, 7), (5, 5, 5)]


def _safe(f):
    try:
        return f()
    except (ZeroDivisionError, ValueError):
        return None


def _mi(op, a, b):
    if a is None or b is None:
        return None
    if op in "/%" and (b == 0 or (a == I64_MIN and b == -1)):
        return None
    return model_int(op, a, b)


def nesting_programs(shadow_driven=False):
    """Grouping is by parentheses only (SPECIFICATION 4.3/4.4: no precedence, infix strictly left to right): every
    (outer, inner) pair of arithmetic operators in every position, in prefix, parenthesised infix and unparenthesised infix
    form; comparisons over arithmetic; negation of and by a nested operand.  One function per shape (operands are
    parameters, so nothing is folded), a handful of operand triples chosen so that every regrouping changes some result."""
    progs = []
    shapes = []      # (label, return type, body expression, model(a,b,c))
    for o in ARITH:
        for i in ARITH:
            on, inn = ARITH[o], ARITH[i]
            shapes.append(("pre %s %s L" % (on, inn), "int", "(%s (%s a b) c)" % (o, i), lambda a, b, c, o=o, i=i: _mi(o, _mi(i, a, b), c)))
            shapes.append(("pre %s %s R" % (on, inn), "int", "(%s a (%s b c))" % (o, i), lambda a, b, c, o=o, i=i: _mi(o, a, _mi(i, b, c))))
            shapes.append(("inf %s %s L" % (on, inn), "int", "((a %s b) %s c)" % (i, o), lambda a, b, c, o=o, i=i: _mi(o, _mi(i, a, b), c)))
            shapes.append(("inf %s %s R" % (on, inn), "int", "(a %s (b %s c))" % (o, i), lambda a, b, c, o=o, i=i: _mi(o, a, _mi(i, b, c))))
            shapes.append(("chain %s %s -" % (inn, on), "int", "(a %s b %s c)" % (i, o), lambda a, b, c, o=o, i=i: _mi(o, _mi(i, a, b), c)))
    for o in CMP:
        for i in ARITH:
            on, inn = CMP[o], ARITH[i]
            shapes.append(("pre %s %s L" % (on, inn), "bool", "(%s (%s a b) c)" % (o, i),
                           lambda a, b, c, o=o, i=i: None if _mi(i, a, b) is None else model_cmp(o, _mi(i, a, b), c)))
            shapes.append(("pre %s %s R" % (on, inn), "bool", "(%s a (%s b c))" % (o, i),
                           lambda a, b, c, o=o, i=i: None if _mi(i, b, c) is None else model_cmp(o, a, _mi(i, b, c))))
    for i in ARITH:
        inn = ARITH[i]
        shapes.append(("pre neg %s -" % inn, "int", "(- (%s a b))" % i, lambda a, b, c, i=i: None if _mi(i, a, b) is None else wrap(-_mi(i, a, b))))
        shapes.append(("pre %s neg R" % inn, "int", "(%s a (- b))" % i, lambda a, b, c, i=i: _mi(i, a, wrap(-b))))
        shapes.append(("pre %s neg L" % inn, "int", "(%s (- a) b)" % i, lambda a, b, c, i=i: _mi(i, wrap(-a), b)))
    for form in ("pre", "inf", "chain"):
        fns, lines, exp, n = [], [], [], 0
        for k, (lab, ty, body, model) in enumerate([s_ for s_ in shapes if s_[0].startswith(form + " ")]):
            fn = "n%d" % k
            fns.append("fn %s(a: int, b: int, c: int) -> %s {\n    return %s\n}\nshadow %s { assert true }\n" % (fn, ty, body, fn))
            for t, (a, b, c) in enumerate(NEST_TRIPLES):
                r = model(a, b, c)
                if r is None:
                    continue
                tag = "%s %d " % (lab, t)
                lines.append('    (print "%s")' % tag)
                lines.append("    (println (%s %s %s %s))" % (fn, lit(a), lit(b), lit(c)))
                exp.append(tag + ("true" if r is True else "false" if r is False else str(r)))
                n += 1
        chunks = [lines[k:k + 200] for k in range(0, len(lines), 200)]
        text = "".join(fns)
        for ci, ch in enumerate(chunks):
            text += "fn t%d() -> int {\n%s\n    return 0\n}\nshadow t%d { assert true }\n" % (ci, "\n".join(ch), ci)
        if shadow_driven:
            # C03: the same cells evaluated once by the compile-time evaluator (shadow block) and once by the binary
            text += ("fn drv() -> int {\n" + "".join("    (t%d)\n" % ci for ci in range(len(chunks))) + "    return 0\n}\n"
                     'shadow drv {\n    (println "<<S")\n    (drv)\n    (println ">>E")\n}\n'
                     'fn main() -> int {\n    (println "<<S")\n    (drv)\n    (println ">>E")\n    return 0\n}\nshadow main { assert true }\n')
            progs.append(("nest_" + form, text, "\n".join(exp) + "\n", n))
            continue
        text += "fn main() -> int {\n" + "".join("    (t%d)\n" % ci for ci in range(len(chunks))) + '    (println "SENTINEL")\n    return 0\n}\nshadow main { assert true }\n'
        progs.append(("nest_" + form, text, "\n".join(exp) + "\nSENTINEL\n", n))
    return progs


def fault_cells():
    """cells whose evaluation may kill the process: one per process.  Expectation per DESIGN: wrap."""
    out = []
    for op in "/%":
        r = model_int(op, I64_MIN, -1)
        text = ("fn f(a: int, b: int) -> int {\n    return (%s a b)\n}\nshadow f { assert true }\n"
                'fn main() -> int {\n    (println "BEFORE")\n    (println (f (- -9223372036854775807 1) -1))\n    (println "SENTINEL")\n    return 0\n}\nshadow main { assert true }\n' % op)
        out.append(("fault_%s_int64min_minus1" % ARITH[op], text, "BEFORE\n%d\nSENTINEL\n" % r, 1))
    return out


TR = ('fn tr(x: int) -> int {\n    (println (+ "t" (int_to_string x)))\n    return x\n}\nshadow tr { assert true }\n'
      'fn trb(x: bool) -> bool {\n    (println (cond (x "tT") (else "tF")))\n    return x\n}\nshadow trb { assert true }\n'
      'fn trs(x: string) -> string {\n    (println (+ "t" x))\n    return x\n}\nshadow trs { assert true }\n')


def _prog(decls, body):
    return decls + "fn main() -> int {\n" + "\n".join("    " + l for l in body) + "\n    return 0\n}\nshadow main { assert true }\n"


def order_cells():
    """evaluation-order / short-circuit / scoping cells: (name, text, expected, 1)"""
    cells = []
    for op in list(ARITH) + list(CMP):
        a, b = 9, 4
        r = model_cmp(op, a, b) if op in CMP else model_int(op, a, b)
        cells.append(("order_binop_" + (ARITH.get(op) or CMP[op]), _prog(TR, ["(println (%s (tr %d) (tr %d)))" % (op, a, b)]),
                      "t%d\nt%d\n%s\n" % (a, b, str(r).lower() if isinstance(r, bool) else r)))
    cells.append(("order_binop_nested", _prog(TR, ["(println (- (* (tr 2) (tr 4)) (+ (tr 1) (tr 3))))"]), "t2\nt4\nt1\nt3\n4\n"))
    cells.append(("order_string_plus", _prog(TR, ['(println (+ (trs "a") (trs "b")))']), "ta\ntb\nab\n"))
    cells.append(("order_str_concat", _prog(TR, ['(println (str_concat (trs "a") (trs "b")))']), "ta\ntb\nab\n"))
    cells.append(("order_str_equals", _prog(TR, ['(println (str_equals (trs "a") (trs "b")))']), "ta\ntb\nfalse\n"))
    for n in (2, 3, 4):
        ps = ", ".join("p%d: int" % i for i in range(n))
        body = "p0"
        for i in range(1, n):
            body = "(+ %s (* %d p%d))" % (body, 10 ** i, i)
        decl = TR + "fn k(%s) -> int {\n    return %s\n}\nshadow k { assert true }\n" % (ps, body)
        args = " ".join("(tr %d)" % (i + 1) for i in range(n))
        val = sum((i + 1) * 10 ** i for i in range(n))
        cells.append(("order_call_arity%d" % n, _prog(decl, ["(println (k %s))" % args]), "".join("t%d\n" % (i + 1) for i in range(n)) + "%d\n" % val))
    cells.append(("order_array_literal", _prog(TR, ["let a: array<int> = [(tr 1), (tr 2), (tr 3)]", "(println (at a 0))"]), "t1\nt2\nt3\n1\n"))
    cells.append(("order_struct_literal", _prog("struct P { x: int, y: int }\n" + TR, ["let p: P = P { x: (tr 1), y: (tr 2) }", "(println p.y)"]), "t1\nt2\n2\n"))
    cells.append(("order_tuple_literal", _prog(TR, ["let p: (int, int) = ((tr 1), (tr 2))", "(println p.1)"]), "t1\nt2\n2\n"))
    cells.append(("order_nested_calls", _prog(TR, ["(println (tr (+ (tr 1) 1)))"]), "t1\nt2\n2\n"))
    cells.append(("order_cond", _prog(TR, ["(println (cond ((trb false) (tr 1)) ((trb true) (tr 2)) (else (tr 3))))"]), "tF\ntT\nt2\n2\n"))
    cells.append(("order_max_args", _prog(TR, ["(println (max (tr 2) (tr 9)))"]), "t2\nt9\n9\n"))
    cells.append(("order_abs_arg", _prog(TR, ["(println (abs (tr -4)))"]), "t-4\n4\n"))
    for a in (True, False):
        for b in (True, False):
            for op in ("and", "or"):
                short = (op == "and" and not a) or (op == "or" and a)
                r = (a and b) if op == "and" else (a or b)
                exp = ("tT\n" if a else "tF\n") + ("" if short else ("tT\n" if b else "tF\n")) + str(r).lower() + "\n"
                cells.append(("shortcircuit_%s_%s_%s" % (op, str(a).lower(), str(b).lower()),
                              _prog(TR, ["(println (%s (trb %s) (trb %s)))" % (op, str(a).lower(), str(b).lower())]), exp))
    cells.append(("shortcircuit_and_guard", _prog(TR + "fn g(a: array<int>, i: int) -> bool {\n    return (and (< i (array_length a)) (> (at a i) 0))\n}\nshadow g { assert true }\n",
                                                   ["(println (g [1, 2] 5))", "(println (g [1, 2] 1))"]), "false\ntrue\n"))
    # scoping (SPEC §8.1, §8.2)
    cells.append(("scope_static_8_1", _prog("let x: int = 1\nfn f() -> int {\n    return x\n}\nshadow f { assert true }\nfn g() -> int {\n    let x: int = 2\n    return (f)\n}\nshadow g { assert true }\n",
                                              ["(println (f))", "(println (g))"]), "1\n1\n"))
    for depth in (1, 2, 3, 4):
        body = ["let x: int = 0"]
        ind = ""
        for d in range(1, depth + 1):
            body.append("%sif true {" % ind)
            ind += "    "
            body.append("%slet x: int = %d" % (ind, d))
            body.append("%s(println x)" % ind)
        for d in range(depth, 0, -1):
            ind = ind[:-4]
            body.append("%s}" % ind)
            body.append("%s(println x)" % ind)
        exp = "".join("%d\n" % d for d in range(1, depth + 1)) + "".join("%d\n" % d for d in range(depth - 1, -1, -1))
        cells.append(("scope_shadow_depth%d" % depth, _prog("", body), exp))
    cells.append(("scope_param_shadows_global", _prog("let y: int = 5\nfn h(y: int) -> int {\n    return (+ y 1)\n}\nshadow h { assert true }\n", ["(println (h 10))", "(println y)"]), "11\n5\n"))
    cells.append(("scope_loop_local_fresh", _prog("", ["let mut i: int = 0", "while (< i 3) {", "    let z: int = (* i 2)", "    (println z)", "    set i (+ i 1)", "}"]), "0\n2\n4\n"))
    cells.append(("immutable_by_value_param", _prog("fn inc(a: int) -> int {\n    let mut b: int = a\n    set b (+ b 1)\n    return b\n}\nshadow inc { assert true }\n", ["let v: int = 4", "(println (inc v))", "(println v)"]), "5\n4\n"))
    return [(n, t, e, 1) for n, t, e in cells]


def nanocore_program():
    """functions inside the NanoCore subset; the trust report must label them verified, then the engines are
    compared with the Coq relation's floor semantics on in-range operands."""
    vals = [7, -7, 2, -2, 1, -1, 9, -9, 0, 100, -100, 3]
    lines, cells = [], []
    for op in "/%":
        for a in vals:
            for b in vals:
                if b == 0:
                    continue
                lab = "%s %d %d " % (ARITH[op], a, b)
                lines.append('    (print "%s")' % lab)
                lines.append("    (println (%s %d %d))" % ("dv" if op == "/" else "md", a, b))
                cells.append((op, a, b, lab))
    text = ("fn dv(a: int, b: int) -> int {\n    return (/ a b)\n}\nshadow dv { assert (== (dv 7 2) 3) }\n"
            "fn md(a: int, b: int) -> int {\n    return (% a b)\n}\nshadow md { assert (== (md 7 2) 1) }\n"
            "fn t0() -> int {\n" + "\n".join(lines) + "\n    return 0\n}\nshadow t0 { assert true }\n"
            'fn main() -> int {\n    (t0)\n    (println "SENTINEL")\n    return 0\n}\nshadow main { assert true }\n')
    return text, cells


def sign_class(a, b):
    return "%s,%s" % ("a<0" if a < 0 else "a>=0", "b<0" if b < 0 else "b>0")


def run(ctx):
    plain = build.get("plain")
    with Scratch("c02") as sc:
        table = table_programs()
        cells = order_cells()
        faults = fault_cells()
        nests = nesting_programs()
        from .. import tables
        btabs = tables.builtin_tables()
        bt_labels = {t[0]: t[4] for t in btabs}
        hmtabs = tables.hashmap_tables()
        items = [("table", t) for t in table] + [("nest", t) for t in nests] + [("btable", t[:4]) for t in btabs] + [("hashmap", t[:4]) for t in hmtabs] + [("cell", c) for c in cells] + [("fault", f) for f in faults]
        cen = [("census", (n, t, e, 1)) for n, t, e in sweep.census_cells()]
        hostile = sweep.collision_string_programs(plain, ctx.rng("collide"), want=ctx.n(6, 40))
        ctx.require(len(hostile) >= 3, "could not find hash-colliding string pairs")
        items += [("hostile", (n, t, e, 1)) for n, t, e in hostile]

        def do(item):
            kind, (name, text, exp, ncell) = item
            fs = census.files(name) if kind == "census" else {"main.nano": text}
            o = engines.observe(plain, sc.sub("%s/%s" % (kind, name)), fs)
            return item, o

        table_cells = {"native": 0, "vm": 0}
        nest_cells = {"native": 0, "vm": 0}
        bt_cells = {"native": 0, "vm": 0}
        cell_hist = {}
        results = pmap(do, items + cen)
        for (kind, (name, text, exp, ncell)), o in results:
            if kind == "census":
                m = re.search(r"<<S\n(.*?)>>E\n", "", re.S)
            for eng, res in (("native", o.native), ("vm", o.vm)):
                if eng == "native" and not o.built:
                    cell_hist["native:skip-build-failed"] = cell_hist.get("native:skip-build-failed", 0) + 1
                    if kind in ("table", "fault", "nest", "btable", "hashmap"):
                        ctx.violation("%s|%s|native-build" % (kind, name), "table program %s does not build natively: %s" % (name, engines.classify_nanoc_failure(o.nanoc)),
                                      {"main.nano": text, "nanoc.stderr": o.nanoc.err})
                    continue
                got = res.text()
                want = exp
                if kind == "census":
                    mm = re.search(r"<<S\n(.*?)>>E\n", got, re.S)
                    got = mm.group(1) if mm else got
                if kind == "hashmap":
                    if "SENTINEL" not in got:
                        ctx.violation("hashmap|%s|%s|truncated" % (name, eng), "%s: %s run of the hashmap table ended early (status %s): %s" % (name, eng, res.status, res.errtext()[-300:]),
                                      {"main.nano": text, "stdout": res.out})
                        continue
                    bt_cells[eng] += ncell
                    fb = tables.hashmap_first_bad(want, got)
                    if fb:
                        ctx.violation("hashmap|%s|%s|%s" % (name, fb[0], eng), "hashmap table %s, map size %s on %s: expected '%s' got '%s' (output line %d)" % (
                            name, fb[0], eng, fb[2], fb[3], fb[1]), {"main.nano": text, "expected.stdout": want, eng + ".stdout": res.out})
                    continue
                if kind == "btable":
                    bad = tables.judge_lines(want, got) if "SENTINEL" in got else None
                    if bad is None:
                        ctx.violation("btable|%s|%s|truncated" % (name, eng), "%s: %s run of the builtin table ended early (status %s): %s" % (name, eng, res.status, res.errtext()[-300:]),
                                      {"main.nano": text, "stdout": res.out})
                        continue
                    bt_cells[eng] += ncell
                    for k, lab, w, g in bad[:40]:
                        ctx.violation("btable|%s|%s" % (lab, eng), "builtin table: %s%s on %s: expected '%s' got '%s'" % (lab, tuple(bt_labels[name][k][1]), eng, w, g),
                                      {"main.nano": text, "expected.stdout": want, eng + ".stdout": res.out})
                    continue
                if kind == "nest":
                    if "SENTINEL" not in got:
                        ctx.violation("nest|%s|%s|truncated" % (name, eng), "%s: %s run of the nesting table ended early (status %s): %s" % (name, eng, res.status, res.errtext()[-300:]),
                                      {"main.nano": text, "stdout": res.out})
                        continue
                    gl, wl = got.splitlines(), want.splitlines()
                    nest_cells[eng] += len(wl) - 1
                    for w, g in [(w, g) for w, g in zip(wl, gl) if w != g][:50]:
                        form, outer, inner, pos, t = w.split()[:5]
                        ctx.violation("nest|%s|%s|%s|%s|%s" % (form, outer, inner, pos, eng),
                                      "grouping: %s form, outer %s, inner %s (position %s), operands %s on %s: expected '%s' got '%s'" % (
                                          form, outer, inner, pos, NEST_TRIPLES[int(t)], eng, w, g), {"main.nano": text})
                    continue
                if kind == "table":
                    # never judge from a truncated stream
                    if "SENTINEL" not in got:
                        ctx.violation("table|%s|%s|truncated" % (name, eng), "%s: %s run of the table ended early (status %s): %s" % (name, eng, res.status, res.errtext()[-300:]),
                                      {"main.nano": text, "stdout": res.out})
                        continue
                    gl, wl = got.splitlines(), want.splitlines()
                    bad = [(w, g) for w, g in zip(wl, gl) if w != g]
                    table_cells[eng] += len(wl) - 1
                    for w, g in bad[:50]:
                        opn, i, j = w.split()[0], int(w.split()[1]), int(w.split()[2])
                        ctx.violation("table|%s|%s|%s" % (opn, eng, "a=%d,b=%d" % (VALUES[i], VALUES[j])),
                                      "operator table: %s on %s: expected '%s' got '%s'" % (opn, eng, w, g), {"main.nano": text})
                    continue
                ok = (got == want) and (res.status == 0)
                key = "%s|%s|%s" % ("census" if kind == "census" else kind, name, eng)
                if kind == "hostile":
                    key = "hostile|hash-colliding-strings|%s" % eng
                cell_hist[eng + (":ok" if ok else ":differ")] = cell_hist.get(eng + (":ok" if ok else ":differ"), 0) + 1
                if not ok:
                    d = engines.first_diff(want, got)
                    ctx.violation(key, "%s '%s' on %s: expected %r, got %r (exit %s)%s" % (
                        kind, name, eng, want[:200], got[:200], res.status, " stderr: " + res.errtext().strip()[-160:] if res.status not in (0,) else ""),
                        {"main.nano": text, "expected.stdout": want, eng + ".stdout": res.out})
        ctx.require(table_cells["vm"] > 2000 and table_cells["native"] > 2000, "operator tables incomplete: %s" % table_cells)
        ctx.require(nest_cells["vm"] > 1000 and nest_cells["native"] > 1000, "nesting tables incomplete: %s" % nest_cells)
        ctx.require(bt_cells["vm"] > 2500 and bt_cells["native"] > 2500, "builtin tables incomplete: %s" % bt_cells)

        # ---- NanoCore: functions labelled verified vs the Coq relation ------------------
        nc_text, nc_cells = nanocore_program()
        d = sc.sub("nanocore")
        engines.write_files(d, {"main.nano": nc_text})
        tr = sh([plain.nanoc, "main.nano", "--trust-report"], cwd=d, cpu=60, env=plain.fastcc_env({"TMPDIR": d}))
        verified = set(re.findall(r"^\s*(\w+)\(.*\[verified", tr.text(), re.M))
        nanocore_cells = 0
        nanocore_disagree = {}
        if {"dv", "md"} <= verified:
            o = engines.observe(plain, d, {"main.nano": nc_text})
            for eng, res in (("native", o.native), ("vm", o.vm)):
                if res is None or "SENTINEL" not in res.text():
                    ctx.violation("nanocore|%s|truncated" % eng, "NanoCore table did not complete on %s" % eng, {"main.nano": nc_text})
                    continue
                got = dict((" ".join(l.split()[:3]) + " ", l.split()[3]) for l in res.text().splitlines() if len(l.split()) == 4)
                for op, a, b, lab in nc_cells:
                    want = floor_model(op, a, b)
                    nanocore_cells += 1
                    if got.get(lab) != str(want):
                        exact = "exact" if a % b == 0 else "inexact"
                        key = "nanocore|%s|%s|%s|%s" % (op, sign_class(a, b), exact, eng)
                        nanocore_disagree[key] = nanocore_disagree.get(key, 0) + 1
                        ctx.violation(key, "function labelled 'verified' by --trust-report computes (%s %d %d) = %s on %s; formal/Semantics.v (Z.div/Z.modulo) gives %d"
                                      % (op, a, b, got.get(lab), eng, want), {"main.nano": nc_text, "trust_report.txt": tr.out})
        else:
            ctx.note("trust report does not label dv/md verified: %r" % tr.text()[:200])

        # ---- sweep: each engine against the reference model ------------------------------
        n = ctx.n(160, 3000)
        batch = sweep.gen_batch(ctx, n, neutral_fraction=0.4)
        ctx.require(len(batch) >= n * 0.6, "generator produced too few in-zone programs")

        def do_prog(item):
            i, prog, exp = item
            return item, engines.observe(plain, sc.sub("p%05d" % i), prog.files())

        hist = {}
        fsets = set()
        samples = []
        for (i, prog, exp), o in pmap(do_prog, batch):
            for eng, res in (("native", o.native), ("vm", o.vm)):
                if eng == "native" and not o.built:
                    hist["native:skip-build-failed"] = hist.get("native:skip-build-failed", 0) + 1
                    continue
                ok = res.text() == exp["stdout"] and res.status == exp["exit"]
                hist[eng + (":ok" if ok else ":differ")] = hist.get(eng + (":ok" if ok else ":differ"), 0) + 1
                if ok:
                    if eng == "vm" and exp["stdout"].count("\n") >= 10:
                        fsets.add(frozenset(prog.tags))
                    continue

                def still(p, e, _eng=eng, _i=i):
                    o2 = engines.observe(plain, sc.sub("red%05d" % _i), p.files(), native=(_eng == "native"), vm=(_eng == "vm"))
                    r2 = o2.native if _eng == "native" else o2.vm
                    return r2 is not None and (r2.text() != e["stdout"] or r2.status != e["exit"])
                sig, small = sweep.reduced_key(prog, still)
                dd = engines.first_diff(exp["stdout"], res.text())
                files = {"original/" + k: v for k, v in prog.files().items()}
                files.update({"reduced/" + k: v for k, v in small.files().items()})
                files["reference.stdout"] = exp["stdout"]
                files[eng + ".stdout"] = res.out
                ctx.violation("sweep|%s!=ref|%s" % (eng, sig), "generated program %d on %s: %s (exit %s, model %s)\nreduced constructs: %s" % (
                    i, eng, "first differing line %d: model=%r engine=%r" % dd if dd else "exit status differs", res.status, exp["exit"], sig), files)
            if len(samples) < 2:
                samples.append({"index": i, "features": sorted(prog.tags), "model_stdout_head": exp["stdout"][:300]})
        ctx.require(hist.get("vm:ok", 0) + hist.get("vm:differ", 0) >= len(batch) * 0.9, "VM runs missing: %s" % hist)
        samples.append({"table_cell": "add %d %d -> %d" % (I64_MAX, 1, model_int("+", I64_MAX, 1))})
        samples.append({"order_cell": cells[0][0], "program": cells[0][1], "expected": cells[0][2]})
        n_table = sum(t[3] for t in table)
        return ctx.finish({
            "evaluations": n_table * 2 + sum(nest_cells.values()) + sum(bt_cells.values()) + (len(cells) + len(faults) + len(cen)) * 2 + len(batch) * 2 + nanocore_cells,
            "distinct_nontrivial": n_table + sum(t[3] for t in nests) + sum(t[3] for t in btabs) + len(cells) + len(cen) + len(fsets),
            "rule": "distinct table cells (operator, a, b) + distinct order/scope/short-circuit cells + census cells + distinct feature sets "
                    "of generated programs whose >= 10 output lines equalled the model on the VM",
            "exhaustive": True,
            "explanation": "the operator x boundary-value table (%d cells per engine over %d values) is enumerated completely; the program sweep is sampled" % (n_table, len(VALUES)),
            "table_cells_per_engine": table_cells,
            "nesting_cells_per_engine": nest_cells,
            "builtin_table_cells_per_engine": bt_cells,
            "builtin_tables": "int<->string over every decimal-length boundary of int64, abs/min/max over the operator values, character classes over 0..127, str_substring over every (start, length) of short strings, contains/equals/concat matrices (nlv/tables.py)",
            "nesting_shapes": "25 (outer, inner) arithmetic pairs x {prefix L/R, parenthesised infix L/R, unparenthesised infix chain}, 30 comparison-over-arithmetic x L/R, negation of/by a nested operand; %d operand triples" % len(NEST_TRIPLES),
            "values": [str(v) for v in VALUES],
            "cells": {"order_scope_shortcircuit": len(cells), "fault": len(faults), "census": len(cen), "nanocore": nanocore_cells},
            "cell_outcomes": cell_hist,
            "verified_functions_evaluated": sorted(verified),
            "nanocore_disagreements": nanocore_disagree,
            "programs": len(batch),
            "program_outcomes": hist,
            "feature_histogram": sweep.feature_histogram(batch),
            "samples": samples,
        }, assumptions=[
            "the reference evaluator nlv/gen/ref.py (transcribed from docs/SPECIFICATION.md §4-§8 and docs/STDLIB.md) is trusted",
            "the NanoCore expectation is a hand transcription of formal/Semantics.v (Z.div, Z.modulo); Coq/OCaml are not installed",
            "int64 wrap is the expectation for overflowing table cells (the property says 64-bit wrapping integers)",
            "native binaries are built with nanoc's own flags (no optimisation), via fastcc",
        ])


def replay(ctx, path):
    """re-run the stored program on both engines and compare with the stored expectation (expected.stdout /
    reference.stdout)"""
    import os
    plain = build.get("plain")
    files = sweep.replay_files(path)
    exp = None
    for fn in ("expected.stdout", "reference.stdout"):
        if os.path.exists(os.path.join(path, fn)):
            exp = open(os.path.join(path, fn)).read()
    with Scratch("c02r") as sc:
        o = engines.observe(plain, sc.sub("p"), files)
        bad = False
        for eng, res in (("native", o.native), ("vm", o.vm)):
            if res is None:
                print("replay: %s did not build/run" % eng)
                continue
            same = exp is not None and (res.text() == exp or ("<<S\n" + exp + ">>E\n") == res.text())
            print("replay %s: %s output %s the stored expectation (exit %s)" % (path, eng, "equals" if same else "DIFFERS from", res.status))
            bad = bad or not same
        if bad:
            print("VIOLATION property=C02 replay=%s" % path)
        return 1 if bad else 0
